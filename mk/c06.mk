# C06: the native x86-64 runner (harness/x86run.c -> .work/bin/x86run).
# In the top-level Makefile:   include mk/c06.mk   and make `setup` depend on `c06-setup`.
# Without the runner (no gcc / not an x86-64 host) ./check C06 uses only the vendored executions in corpus/x86cpu;
# the check also tries to build the runner itself when it is missing.
c06-setup:
	@mkdir -p .work/bin
	@if [ "$$(uname -m)" = "x86_64" ] && command -v gcc >/dev/null 2>&1; then \
	   gcc -O1 -o .work/bin/x86run harness/x86run.c && echo "C06: built .work/bin/x86run"; \
	 else echo "C06: x86run not built (needs an x86-64 host with gcc); the vendored corpus is used"; fi
.PHONY: c06-setup
