#!/usr/bin/env python3
"""Build the vendored reference dumps used by C14 (T-ref): what llvm-readobj (LLVM 14, present in the sandbox)
reports for the shipped sample binaries of /repo/tests/samples and for the small objects under extra/
(made with yaml2obj from the .yaml next to them, to cover the class x byte-order combinations the shipped samples
lack).  Output: one <name>.json per file with plain integers and strings.  Run: python3 mkcorpus.py
The dumps are *traces of the reference implementation*; the check validates them against specs/Elf.tla,
specs/Pe.tla, specs/MachO.tla (never against amoco).
"""
import hashlib
import json
import os
import re
import subprocess
import sys

HERE = os.path.dirname(os.path.abspath(__file__))
SAMPLES = "/repo/tests/samples"


def readobj(path, *opts):
    out = subprocess.run(["llvm-readobj", "--elf-output-style=JSON"] + list(opts) + [path],
                         stdout=subprocess.PIPE, stderr=subprocess.PIPE, check=True).stdout.decode()
    return json.loads(out)


def raw(v):
    if isinstance(v, dict):
        return raw(v["RawValue"]) if "RawValue" in v else raw(v.get("RawFlags", v.get("Value")))
    if isinstance(v, str):
        m = re.search(r"\(0x([0-9A-Fa-f]+)\)", v)
        if m:
            return int(m.group(1), 16)
        return int(v, 0)
    return int(v)


def elf_dump(path):
    j = readobj(path, "--file-headers", "--program-headers", "--sections", "--symbols", "--dyn-symbols")
    d = list(j[0].values())[0]
    h = d["ElfHeader"]
    i = h["Ident"]
    ref = {"format": "elf",
           "ident": [raw(i["Class"]), raw(i["DataEncoding"]), raw(i["FileVersion"]), raw(i["OS/ABI"]), raw(i["ABIVersion"])],
           "eh": {"e_type": raw(h["Type"]), "e_machine": raw(h["Machine"]), "e_version": raw(h["Version"]),
                  "e_entry": raw(h["Entry"]), "e_phoff": raw(h["ProgramHeaderOffset"]), "e_shoff": raw(h["SectionHeaderOffset"]),
                  "e_flags": raw(h["Flags"]), "e_ehsize": raw(h["HeaderSize"]), "e_phentsize": raw(h["ProgramHeaderEntrySize"]),
                  "e_phnum": raw(h["ProgramHeaderCount"]), "e_shentsize": raw(h["SectionHeaderEntrySize"]),
                  "e_shnum": raw(h["SectionHeaderCount"]), "e_shstrndx": raw(h["StringTableSectionIndex"])},
           "ph": [], "sh": [], "symtabs": {}}
    for p in d.get("ProgramHeaders", []):
        p = p["ProgramHeader"]
        ref["ph"].append({"p_type": raw(p["Type"]), "p_offset": raw(p["Offset"]), "p_vaddr": raw(p["VirtualAddress"]),
                          "p_paddr": raw(p["PhysicalAddress"]), "p_filesz": raw(p["FileSize"]), "p_memsz": raw(p["MemSize"]),
                          "p_flags": raw(p["Flags"]), "p_align": raw(p["Alignment"])})
    for s in d.get("Sections", []):
        s = s["Section"]
        ref["sh"].append({"name": s["Name"]["Value"], "sh_name": raw(s["Name"]), "sh_type": raw(s["Type"]),
                          "sh_flags": raw(s["Flags"]), "sh_addr": raw(s["Address"]), "sh_offset": raw(s["Offset"]),
                          "sh_size": raw(s["Size"]), "sh_link": raw(s["Link"]), "sh_info": raw(s["Info"]),
                          "sh_addralign": raw(s["AddressAlignment"]), "sh_entsize": raw(s["EntrySize"])})
    for key, sect in (("Symbols", ".symtab"), ("DynamicSymbols", ".dynsym")):
        syms = []
        for s in d.get(key, []):
            s = s["Symbol"]
            ty = raw(s["Type"])
            # llvm-readobj prints the section's name for STT_SECTION symbols whose st_name is 0: keep the encoded name
            name = "" if (ty == 3 and raw(s["Name"]) == 0) else s["Name"]["Value"]
            if key == "DynamicSymbols":
                name = re.sub(r"@.*$", "", name)      # llvm-readobj appends the symbol version taken from .gnu.version*
            syms.append({"name": name, "st_name": raw(s["Name"]), "st_value": raw(s["Value"]), "st_size": raw(s["Size"]),
                         "st_info": (raw(s["Binding"]) << 4) | ty, "st_other": raw(s["Other"]) if not isinstance(s["Other"], dict) else raw(s["Other"]),
                         "st_shndx": raw(s["Section"])})
        if syms:
            ref["symtabs"][sect] = syms
    return ref


def num(txt):
    m = re.search(r"\(0x([0-9A-Fa-f]+)\)", txt)
    if m:
        return int(m.group(1), 16)
    return int(txt.split()[0], 0)


def pe_dump(path):
    """parse llvm-readobj's text output for a PE image (its JSON style exists for ELF only)"""
    out = subprocess.run(["llvm-readobj", "--file-headers", "--sections", path], stdout=subprocess.PIPE,
                         stderr=subprocess.PIPE, check=True).stdout.decode()
    ref = {"format": "pe", "coff": {}, "opt": {}, "dirs": [], "secs": []}
    cmap = {"Machine": "Machine", "SectionCount": "NumberOfSections", "TimeDateStamp": "TimeDateStamp",
            "PointerToSymbolTable": "PointerToSymbolTable", "SymbolCount": "NumberOfSymbols",
            "OptionalHeaderSize": "SizeOfOptionalHeader"}
    smap = {"VirtualSize": "VirtualSize", "VirtualAddress": "RVA", "RawDataSize": "SizeOfRawData",
            "PointerToRawData": "PointerToRawData", "PointerToRelocations": "PointerToRelocations",
            "PointerToLineNumbers": "PointerToLineNumbers", "RelocationCount": "NumberOfRelocations",
            "LineNumberCount": "NumberOfLineNumbers"}
    omap = {"NumberOfRvaAndSize": "NumberOfRvaAndSizes"}
    ctx, sec, dirent = None, None, {}
    for line in out.splitlines():
        t = line.strip()
        if t.startswith("ImageFileHeader {"):
            ctx = "coff"
        elif t.startswith("ImageOptionalHeader {"):
            ctx = "opt"
        elif t.startswith("DataDirectory {"):
            ctx = "dirs"
        elif t.startswith("DOSHeader {"):
            ctx = "dos"
        elif t.startswith("Section {"):
            ctx, sec = "sec", {}
        elif t.startswith("Characteristics [") and ctx in ("coff", "opt", "sec"):
            v = num(t)
            if ctx == "coff":
                ref["coff"]["Characteristics"] = v
            elif ctx == "opt":
                ref["opt"]["DllCharacteristics"] = v
            else:
                sec["Characteristics"] = v
        elif t == "}" and ctx == "sec":
            ref["secs"].append(sec)
            ctx = "secs"
        elif t == "}" and ctx == "dirs":
            ctx = "opt"
        elif ":" in t and not t.endswith("["):
            k, v = t.split(":", 1)
            k, v = k.strip(), v.strip()
            if ctx == "coff" and k in cmap:
                ref["coff"][cmap[k]] = num(v)
            elif ctx == "opt" and re.match(r"^(0x[0-9A-Fa-f]+|\d+)( .*)?$|.*\(0x[0-9A-Fa-f]+\)$", v):
                ref["opt"][omap.get(k, k)] = num(v)
            elif ctx == "dirs":
                if k.endswith("RVA"):
                    dirent = {"RVA": num(v)}
                elif k.endswith("Size"):
                    dirent["Size"] = num(v)
                    ref["dirs"].append(dirent)
            elif ctx == "sec":
                if k == "Name":
                    sec["Name"] = [int(x, 16) for x in re.search(r"\(([0-9A-Fa-f ]+)\)", v).group(1).split()]
                elif k in smap:
                    sec[smap[k]] = num(v)
            elif ctx == "dos" and k == "AddressOfNewExeHeader":
                ref["lfanew"] = num(v)
    return ref


LC = {"LC_SEGMENT": 1, "LC_SYMTAB": 2, "LC_UNIXTHREAD": 5, "LC_DYSYMTAB": 0xB, "LC_LOAD_DYLIB": 0xC, "LC_LOAD_DYLINKER": 0xE,
      "LC_SEGMENT_64": 0x19, "LC_UUID": 0x1B, "LC_CODE_SIGNATURE": 0x1D, "LC_DYLD_INFO_ONLY": 0x80000022,
      "LC_VERSION_MIN_MACOSX": 0x24, "LC_FUNCTION_STARTS": 0x26, "LC_MAIN": 0x80000028, "LC_DATA_IN_CODE": 0x29,
      "LC_SOURCE_VERSION": 0x2A, "LC_BUILD_VERSION": 0x32}


def macho_dump(path):
    """obj2yaml (LLVM's Mach-O reader, full field dump) + llvm-readobj --symbols (names) + llvm-objdump (thread state)"""
    import yaml
    y = yaml.safe_load(subprocess.run(["obj2yaml", path], stdout=subprocess.PIPE, check=True).stdout.decode().replace("--- !mach-o", "---"))
    h = y["FileHeader"]
    ref = {"format": "macho", "is64": h["magic"] == 0xFEEDFACF,
           "hdr": {k: h[k] for k in ("magic", "cputype", "cpusubtype", "filetype", "ncmds", "sizeofcmds", "flags")},
           "cmds": [], "syms": []}
    od = subprocess.run(["llvm-objdump", "-m", "--private-headers", path], stdout=subprocess.PIPE, check=True).stdout.decode()
    pcs = [int(m.group(1), 16) for m in re.finditer(r"\b[er]ip\s+(0x[0-9a-fA-F]+)", od)]
    for c in y["LoadCommands"]:
        e = {"name": c["cmd"], "cmdsize": c["cmdsize"]}
        if c["cmd"] in LC:
            e["cmd"] = LC[c["cmd"]]
        if c["cmd"] in ("LC_SEGMENT", "LC_SEGMENT_64"):
            e["seg"] = {"segname": [ord(x) for x in c["segname"]]}
            for k in ("vmaddr", "vmsize", "fileoff", "filesize", "maxprot", "initprot", "nsects", "flags"):
                e["seg"][k] = c[k]
            e["sects"] = []
            for sc in c.get("Sections", []):
                d = {"sectname": [ord(x) for x in sc["sectname"]], "segname": [ord(x) for x in sc["segname"]]}
                for k in ("addr", "size", "offset", "align", "reloff", "nreloc", "flags", "reserved1", "reserved2"):
                    d[k] = sc[k]
                e["sects"].append(d)
        elif c["cmd"] == "LC_MAIN":
            e["entryoff"] = c["entryoff"]
        elif c["cmd"] == "LC_UNIXTHREAD" and pcs:
            e["pc"] = pcs.pop(0)
        ref["cmds"].append(e)
    so = subprocess.run(["llvm-readobj", "--symbols", path], stdout=subprocess.PIPE, check=True).stdout.decode()
    names = [(m.group(1), int(m.group(2))) for m in re.finditer(r"Name: (\S*) \((\d+)\)", so)]
    nl = (y.get("LinkEditData") or {}).get("NameList") or []
    for (nm, strx), n in zip(names, nl):
        ref["syms"].append({"name": nm, "n_strx": n["n_strx"], "n_type": n["n_type"], "n_sect": n["n_sect"],
                            "n_desc": n["n_desc"], "n_value": n["n_value"]})
        assert strx == n["n_strx"]
    return ref


def magic(path):
    with open(path, "rb") as f:
        return f.read(4)


def main():
    files = []
    for root, _, names in os.walk(SAMPLES):
        for n in sorted(names):
            p = os.path.join(root, n)
            if magic(p) == b"\x7fELF":
                files.append((os.path.relpath(p, SAMPLES), p, "samples"))
    ex = os.path.join(HERE, "extra")
    for n in sorted(os.listdir(ex)):
        if n.endswith(".yaml") and open(os.path.join(ex, n)).read().startswith("--- !ELF"):
            out = os.path.join(ex, n[:-5] + ".elf")
            subprocess.run(["yaml2obj", os.path.join(ex, n), "-o", out], check=True)
            files.append(("extra/" + n[:-5] + ".elf", out, "extra"))
    for rel in ("x86/puttygen.exe",):
        files.append((rel, os.path.join(SAMPLES, rel), "samples"))
    for n in sorted(os.listdir(ex)):
        if n.endswith(".yaml") and open(os.path.join(ex, n)).read().startswith("--- !COFF"):
            out = os.path.join(ex, n[:-5] + ".exe")
            subprocess.run(["yaml2obj", os.path.join(ex, n), "-o", out], check=True)
            files.append(("extra/" + n[:-5] + ".exe", out, "extra"))
    files.append(("x64/toc.osx/toc.mach-o", os.path.join(SAMPLES, "x64/toc.osx/toc.mach-o"), "samples"))
    for n in sorted(os.listdir(ex)):
        if n.endswith(".yaml") and open(os.path.join(ex, n)).read().startswith("--- !mach-o"):
            out = os.path.join(ex, n[:-5] + ".macho")
            subprocess.run(["yaml2obj", os.path.join(ex, n), "-o", out], check=True)
            files.append(("extra/" + n[:-5] + ".macho", out, "extra"))
    index = []
    for rel, p, origin in files:
        m4 = magic(p)
        ref = pe_dump(p) if m4[:2] == b"MZ" else macho_dump(p) if m4 in (b"\xce\xfa\xed\xfe", b"\xcf\xfa\xed\xfe") else elf_dump(p)
        ref["file"] = rel
        ref["origin"] = origin
        ref["sha256"] = hashlib.sha256(open(p, "rb").read()).hexdigest()
        ref["tool"] = subprocess.run(["llvm-readobj", "--version"], stdout=subprocess.PIPE).stdout.decode().split("\n")[0].strip()
        name = rel.replace("/", "__") + ".json"
        with open(os.path.join(HERE, name), "w") as f:
            json.dump(ref, f, indent=1, sort_keys=True)
        index.append(name)
        print("wrote", name, {k: (len(v) if isinstance(v, (list, dict)) else v) for k, v in ref.items() if k not in ("sha256", "tool")})
    with open(os.path.join(HERE, "INDEX.json"), "w") as f:
        json.dump(sorted(index), f, indent=1)


if __name__ == "__main__":
    sys.exit(main())
