#!/usr/bin/env python3
"""Produce corpus/cabi/cabi.ndjson: sizeof / _Alignof / offsetof of a corpus of C declarations, as computed by
gcc for the x86-64 SysV ABI (-m64, pointer size 64) and for a 32-bit ABI with NATURAL alignment
(-m32 -malign-double, pointer size 32; plain i386 SysV aligns 8-byte scalars on 4 inside structures, which is
not what property C16 speaks about).

Each row is one trace of the reference implementation (the C compiler):
    {"id": n, "ps": 32|64, "def": <definition, in the record shape of specs/CStruct.tla>,
     "size": sizeof, "align": _Alignof, "offs": [offsetof(member) ...]}
The definitions are generated here (systematically over the size classes, then seeded-random over every raw
type, arrays, nesting depth <= 2, struct / packed struct / union, typedefs, bitfield storage units), written as
C, compiled with `gcc -S` (nothing is assembled or run) and the constants are read back from the assembly.

Mapping of the definition language to C (the trusted part of this script):
    c char   b int8_t   B uint8_t   s char (s*n = char[n])   x char (pad byte)   h int16_t   H uint16_t
    i int32_t   I uint32_t   f float   l long   L unsigned long   P void*   q int64_t   Q uint64_t   d double
    T*n  -> T name[n];  nested definition -> struct / union, packed -> __attribute__((packed));
    a bitfield unit `T *#a/b/c` -> one member of type T (the storage unit the language names explicitly);
    typedef -> typedef.
Usage: python3 corpus/cabi/mkcabi.py   (rewrites cabi.ndjson next to this file; deterministic)
"""
import itertools
import json
import os
import random
import re
import subprocess
import sys
import tempfile

HERE = os.path.dirname(os.path.abspath(__file__))
CT = {"c": "char", "b": "int8_t", "B": "uint8_t", "s": "char", "x": "char", "h": "int16_t", "H": "uint16_t",
      "i": "int32_t", "I": "uint32_t", "f": "float", "l": "long", "L": "unsigned long", "P": "void *",
      "q": "int64_t", "Q": "uint64_t", "d": "double"}
RAW = list(CT)


def fld(k, t="", n=0, d=None, bits=(), td=False):
    # (the keys o, sp, ct, ref of the TLA+ field record play no part in the layout and are left out;
    #  d is present on nested members only)
    r = {"k": k, "t": t, "n": n, "bits": list(bits), "td": td}
    if d is not None:
        r["d"] = d
    return r


def mkdef(kind, fs):
    return {"kind": "union" if kind == "union" else "struct", "packed": kind == "packed", "ord": "", "fs": fs}


def rand_field(rng, depth):
    r = rng.random()
    if depth > 0 and r < 0.3:
        return fld("nest", n=rng.choice([0, 0, 1, 2, 3]), d=rand_def(rng, depth - 1, rng.randint(1, 3)))
    if r < 0.4:
        t = rng.choice("BHIQ")
        return fld("bits", t=t, bits=[3, 5])
    if r < 0.5:
        return fld("raw", t=rng.choice("bBhHiIlLPqQ"), n=rng.choice([0, 0, 2, 3]), td=True)
    return fld("raw", t=rng.choice(RAW), n=rng.choice([0, 0, 0, 1, 2, 3, 5]))


def rand_def(rng, depth, nf):
    return mkdef(rng.choice(["struct", "struct", "packed", "union"]), [rand_field(rng, depth) for _ in range(nf)])


def corpus():
    out = []
    classes = ["B", "h", "I", "q", "P", "d"]
    # systematic: every sequence of <= 3 scalars / arrays of 3 over the size classes, the three kinds
    choices = [fld("raw", t=t, n=n) for t in classes for n in (0, 3)]
    for k in (1, 2, 3):
        for combo in itertools.product(choices, repeat=k):
            if k == 3 and len({c["t"] for c in combo}) < 2:
                continue
            for kind in ("struct", "packed", "union"):
                if k == 3 and sum(ord(c["t"]) * (i + 2) + c["n"] for i, c in enumerate(combo)) % (3 if kind == "struct" else 9):
                    continue
                out.append(mkdef(kind, [dict(c) for c in combo]))
    # systematic nesting: a byte, then an inner definition of two members (alone / array), then a byte
    for ikind in ("struct", "packed", "union"):
        for a, b in itertools.product(classes, repeat=2):
            inner = mkdef(ikind, [fld("raw", t=a), fld("raw", t=b)])
            for n in (0, 2):
                for okind in ("struct", "packed", "union"):
                    out.append(mkdef(okind, [fld("raw", t="B"), fld("nest", n=n, d=inner), fld("raw", t="B")]))
    rng = random.Random(16)
    for _ in range(1000):
        out.append(rand_def(rng, 2, rng.randint(1, 5)))
    return out


class CWriter(object):
    def __init__(self):
        self.lines = ["#include <stdint.h>", "#include <stddef.h>"]
        for t in "bBhHiIlLPqQ":
            self.lines.append("typedef %s TD_%s;" % (CT[t], t))
        self.n = 0

    def declare(self, d):
        self.n += 1
        name = "S%d" % self.n
        body = []
        for i, f in enumerate(d["fs"], 1):
            if f["k"] == "nest":
                inner = self.declare(f["d"])
                ty = inner
            elif f["td"]:
                ty = "TD_" + f["t"]
            else:
                ty = CT[f["t"]]
            arr = "[%d]" % f["n"] if f["n"] > 0 else ""
            body.append("  %s f%d%s;" % (ty, i, arr))
        kw = "union" if d["kind"] == "union" else "struct"
        attr = " __attribute__((packed))" if d["packed"] else ""
        self.lines.append("%s%s %s {\n%s\n};" % (kw, attr, name, "\n".join(body)))
        return "%s %s" % (kw, name)

    def table(self, idx, d):
        ty = self.declare(d)
        vals = ["sizeof(%s)" % ty, "_Alignof(%s)" % ty] + ["offsetof(%s, f%d)" % (ty, i + 1) for i in range(len(d["fs"]))]
        self.lines.append("const unsigned int T_%d[] = { %s };" % (idx, ", ".join(vals)))


def measure(defs, flags):
    w = CWriter()
    for idx, d in enumerate(defs):
        w.table(idx, d)
    with tempfile.TemporaryDirectory() as td:
        src = os.path.join(td, "cabi.c")
        with open(src, "w") as f:
            f.write("\n".join(w.lines) + "\n")
        asm = os.path.join(td, "cabi.s")
        subprocess.run(["gcc"] + flags + ["-ffreestanding", "-S", "-O0", "-o", asm, src], check=True)
        text = open(asm).read()
    tables = {}
    cur = None
    for line in text.splitlines():
        m = re.match(r"^T_(\d+):", line)
        if m:
            cur = int(m.group(1))
            tables[cur] = []
            continue
        m = re.match(r"^\s+\.(long|zero)\s+(\d+)", line)
        if m and cur is not None:
            if m.group(1) == "long":
                tables[cur].append(int(m.group(2)))
            else:
                tables[cur].extend([0] * (int(m.group(2)) // 4))
            continue
        if cur is not None and re.match(r"^\s+\.(globl|section|align|type|size|text|data)", line):
            if re.match(r"^\s+\.(globl|section|text|data)", line):
                cur = None
    return tables


def main():
    defs = corpus()
    rows = []
    for ps, flags in ((64, ["-m64"]), (32, ["-m32", "-malign-double"])):
        t = measure(defs, flags)
        for idx, d in enumerate(defs):
            v = t[idx]
            assert len(v) == 2 + len(d["fs"]), (idx, v, len(d["fs"]))
            rows.append({"id": idx, "ps": ps, "def": d, "size": v[0], "align": v[1], "offs": v[2:]})
    with open(os.path.join(HERE, "cabi.ndjson"), "w") as f:
        for r in rows:
            f.write(json.dumps(r, separators=(",", ":")) + "\n")
    ver = subprocess.run(["gcc", "--version"], capture_output=True, text=True).stdout.splitlines()[0]
    with open(os.path.join(HERE, "PROVENANCE.txt"), "w") as f:
        f.write("cabi.ndjson: %d rows (%d definitions x pointer sizes 64 [-m64] and 32 [-m32 -malign-double])\n"
                "produced by corpus/cabi/mkcabi.py with %s (gcc -ffreestanding -S -O0, constants read from the assembly)\n"
                % (len(rows), len(defs), ver))
    print("wrote %d rows" % len(rows))


if __name__ == "__main__":
    main()
