#!/usr/bin/env python3
"""Corpus builder for C20 (program identification).  Run ONCE, by hand, when the corpus is (re)built:

    python3 corpus/ident/build.py [/repo]

It is NOT run by the check.  It
  1. builds small synthetic valid files of every format with the tools of the sandbox (gcc, clang,
     objcopy, llvm-lipo) plus hand-assembled Intel-HEX / S-record files   -> corpus/ident/files/
  2. asks the REFERENCE tools what each base file is (readelf, llvm-readobj, objcopy -I ihex/-I srec):
     this is the `truth` of an uncorrupted base used by the NoMisclaim clause of specs/Ident.tla
  3. describes where the header tables of each base are (regions) and the fields of every table entry
     (name, offset in the region, size), following the format specifications; the positions of the tables
     are cross-checked against what readelf / llvm-readobj print
  -> corpus/ident/bases.ndjson (one base per line; read by TLC through IOEnv.IDENT_BASES and by the harness)

The layout is only used to AIM corruptions (TLC enumerates "field F of entry E of table T := value class V");
it is never an oracle.  Bases that live in /repo are identified by sha256: if a sample changes, the harness
drops its vendored truth/layout (the base is then treated as an unknown byte string).
"""
import hashlib
import json
import os
import re
import struct
import subprocess
import sys

HERE = os.path.dirname(os.path.abspath(__file__))
FILES = os.path.join(HERE, "files")
REPO = sys.argv[1] if len(sys.argv) > 1 and sys.argv[1] != "textfamily" else "/repo"
MAXENT = 48  # at most this many entries of a long table are described (first MAXENT-4 and the last 4)


def sh(cmd, **kw):
    p = subprocess.run(cmd, stdout=subprocess.PIPE, stderr=subprocess.STDOUT, **kw)
    return p.returncode, p.stdout.decode("utf-8", "replace")


# ------------------------------------------------------------------------------------------------
# 1. synthetic bases
# ------------------------------------------------------------------------------------------------
CSRC = """int g = 3;
const char msg[] = "hello";
int f(int x){ return x+g; }
int main(void){ return f(2)+msg[1]; }
"""


def ihex_line(addr, typ, data):
    b = bytes([len(data), (addr >> 8) & 255, addr & 255, typ]) + bytes(data)
    ck = (-sum(b)) & 255
    return ":" + (b + bytes([ck])).hex().upper()


def srec_line(typ, addr, data):
    alen = {0: 2, 1: 2, 2: 3, 3: 4, 5: 2, 6: 3, 7: 4, 8: 3, 9: 2}[typ]
    a = addr.to_bytes(alen, "big")
    b = bytes([alen + len(data) + 1]) + a + bytes(data)
    ck = (~sum(b)) & 255
    return "S%d" % typ + (b + bytes([ck])).hex().upper()


def build_synthetic():
    os.makedirs(FILES, exist_ok=True)
    tmp = os.path.join(HERE, ".tmp")
    os.makedirs(tmp, exist_ok=True)
    c = os.path.join(tmp, "t.c")
    open(c, "w").write(CSRC)
    out = lambda n: os.path.join(FILES, n)

    def run(*cmd):
        rc, o = sh(list(cmd))
        if rc != 0:
            raise SystemExit("build step failed: %s\n%s" % (" ".join(cmd), o))
    run("gcc", "-c", c, "-o", out("syn_elf64.o"))
    run("gcc", "-m32", "-c", c, "-o", out("syn_elf32.o"))
    run("gcc", "-nostdlib", "-static", "-Wl,--build-id=none", "-e", "main", "-o", out("syn_elf64_static"), c)
    run("clang", "-target", "mips-linux-gnu", "-c", c, "-o", out("syn_elf32be_mips.o"))
    run("clang", "-target", "i386-pc-windows-msvc", "-c", c, "-o", out("syn_coff_i386.obj"))
    run("clang", "-target", "x86_64-pc-windows-msvc", "-c", c, "-o", out("syn_coff_amd64.obj"))
    run("clang", "-target", "x86_64-apple-darwin", "-c", c, "-o", out("syn_macho64.o"))
    run("clang", "-target", "i386-apple-darwin", "-c", c, "-o", out("syn_macho32.o"))
    run("llvm-lipo-14", "-create", out("syn_macho64.o"), out("syn_macho32.o"), "-output", out("syn_macho_fat"))
    run("objcopy", "-O", "pei-x86-64", out("syn_elf64_static"), out("syn_pe64.exe"))
    run("objcopy", "-O", "ihex", out("syn_elf64_static"), out("syn_objcopy.hex"))
    run("objcopy", "-O", "srec", out("syn_elf64_static"), out("syn_objcopy.srec"))
    # hand-assembled text formats with every record type
    hx = [ihex_line(0, 2, [0x10, 0x00]), ihex_line(0x0100, 0, list(range(16))), ihex_line(0x0110, 0, [1, 2, 3]),
          ihex_line(0, 3, [0x10, 0x00, 0x01, 0x00]), ihex_line(0, 4, [0x08, 0x00]),
          ihex_line(0x0000, 0, [0xDE, 0xAD, 0xBE, 0xEF]), ihex_line(0, 5, [0x08, 0x00, 0x00, 0x00]),
          ihex_line(0, 1, [])]
    open(out("syn_alltypes.hex"), "w").write("\n".join(hx) + "\n")
    sr = [srec_line(0, 0, b"HDR"), srec_line(1, 0x0100, list(range(8))), srec_line(2, 0x010000, [1, 2, 3, 4]),
          srec_line(3, 0x01000000, [9, 8, 7]), srec_line(5, 3, []), srec_line(7, 0x01000000, [])]
    open(out("syn_alltypes.srec"), "w").write("\n".join(sr) + "\n")
    open(out("syn_s19.srec"), "w").write("\n".join([srec_line(0, 0, b"a"), srec_line(1, 0, [1, 2, 3, 4]),
                                                    srec_line(9, 0, [])]) + "\n")
    # not-a-format controls
    open(out("syn_text.txt"), "w").write("hello, world\nthis is not a program\n")
    open(out("syn_mz_stub.bin"), "wb").write(b"MZ" + bytes(58) + struct.pack("<I", 0x40) + b"NE\0\0" + bytes(60))
    for f in os.listdir(tmp):
        os.unlink(os.path.join(tmp, f))
    os.rmdir(tmp)


# ------------------------------------------------------------------------------------------------
# 2. truth from the reference tools
# ------------------------------------------------------------------------------------------------
def reference_truth(path):
    """-> (truth, evidence).  truth in ELF PE MachO COFF HEX SREC none."""
    verdicts = {}
    rc, o = sh(["readelf", "-h", path])
    if rc == 0 and "ELF Header" in o and "Error" not in o:
        m = re.search(r"Class:\s+(\S+)", o)
        verdicts["ELF"] = "readelf -h: %s" % (m.group(1) if m else "ELF")
    rc, o = sh(["llvm-readobj", "--file-headers", path])
    if rc == 0:
        m = re.search(r"^Format: (.*)$", o, re.M)
        fmt = m.group(1) if m else ""
        if fmt.startswith("Mach-O"):
            verdicts["MachO"] = "llvm-readobj: Format: " + fmt
        elif fmt.startswith("COFF"):
            if "ImageOptionalHeader" in o or "DOSHeader" in o:
                verdicts["PE"] = "llvm-readobj: Format: %s with ImageOptionalHeader" % fmt
            else:
                verdicts["COFF"] = "llvm-readobj: Format: %s (object, no optional header)" % fmt
        elif fmt.startswith("elf") or fmt.startswith("ELF"):
            verdicts.setdefault("ELF", "llvm-readobj: Format: " + fmt)
    for fmt, tgt in (("HEX", "ihex"), ("SREC", "srec")):
        rc, o = sh(["objdump", "-h", "-b", tgt, path])
        m = re.search(r"file format (\S+)", o)
        if rc == 0 and m and m.group(1) == tgt:
            verdicts[fmt] = "objdump -h -b %s: file format %s" % (tgt, tgt)
    if len(verdicts) > 1:
        raise SystemExit("reference tools disagree on %s: %r" % (path, verdicts))
    if not verdicts:
        rc, o = sh(["file", "-b", path])
        if re.match(r"PE32\+? executable", o):
            # llvm-readobj refuses some loadable but unusual PE files (corkami's CoST.exe); libmagic checks
            # 'MZ' and the 'PE\\0\\0' signature at e_lfanew
            return "PE", "file(1): %s (llvm-readobj does not parse it)" % o.strip()[:60]
        return "none", "no reference tool accepts it (file: %s)" % o.strip()[:80]
    (t, ev), = verdicts.items()
    return t, ev


# ------------------------------------------------------------------------------------------------
# 3. layouts
# ------------------------------------------------------------------------------------------------
class Lay(object):
    def __init__(self, data):
        self.d = data
        self.regions = []

    def add(self, name, off, fields, size=None):
        """fields: [(name, size)] laid out sequentially from off; size defaults to their sum."""
        fl, o = [], 0
        for n, s in fields:
            fl.append([n, o, s])
            o += s
        size = o if size is None else size
        if off < 0 or off + size > len(self.d) or size <= 0:
            return False  # table (partly) outside the file: not described
        self.regions.append({"n": name, "o": off, "s": size, "f": fl})
        return True

    def table(self, name, off, entsize, count, fields):
        idx = list(range(count))
        if count > MAXENT:
            idx = idx[:MAXENT - 4] + idx[-4:]
        for i in idx:
            self.add("%s[%d]" % (name, i), off + i * entsize, fields, size=max(entsize, sum(s for _, s in fields)))


def u(d, off, n, be=False):
    return int.from_bytes(d[off:off + n], "big" if be else "little")


EHDR_ID = [("ei_mag", 4), ("ei_class", 1), ("ei_data", 1), ("ei_version", 1), ("ei_osabi", 1), ("ei_abiversion", 1),
           ("ei_pad", 7), ("e_type", 2), ("e_machine", 2), ("e_version", 4)]


def lay_elf(d, path):
    L = Lay(d)
    x64 = d[4] == 2
    be = d[5] == 2
    A = 8 if x64 else 4
    L.add("Ehdr", 0, EHDR_ID + [("e_entry", A), ("e_phoff", A), ("e_shoff", A), ("e_flags", 4), ("e_ehsize", 2),
                                ("e_phentsize", 2), ("e_phnum", 2), ("e_shentsize", 2), ("e_shnum", 2),
                                ("e_shstrndx", 2)])
    o = 24 + A
    phoff, shoff = u(d, o, A, be), u(d, o + A, A, be)
    o += 2 * A + 4 + 2
    phentsize, phnum, shentsize, shnum, shstrndx = [u(d, o + 2 * i, 2, be) for i in range(5)]
    # cross-check with readelf
    rc, t = sh(["readelf", "-h", path])
    ref = dict((k, int(re.search(k + r":\s+(\d+)", t).group(1))) for k in
               ("Start of program headers", "Start of section headers", "Number of program headers",
                "Number of section headers", "Size of program headers", "Size of section headers"))
    assert (phoff, shoff, phnum, shnum) == (ref["Start of program headers"], ref["Start of section headers"],
                                            ref["Number of program headers"], ref["Number of section headers"]), path
    if x64:
        ph = [("p_type", 4), ("p_flags", 4), ("p_offset", 8), ("p_vaddr", 8), ("p_paddr", 8), ("p_filesz", 8),
              ("p_memsz", 8), ("p_align", 8)]
        shf = [("sh_name", 4), ("sh_type", 4), ("sh_flags", 8), ("sh_addr", 8), ("sh_offset", 8), ("sh_size", 8),
               ("sh_link", 4), ("sh_info", 4), ("sh_addralign", 8), ("sh_entsize", 8)]
        sym = [("st_name", 4), ("st_info", 1), ("st_other", 1), ("st_shndx", 2), ("st_value", 8), ("st_size", 8)]
    else:
        ph = [(n, 4) for n in ("p_type", "p_offset", "p_vaddr", "p_paddr", "p_filesz", "p_memsz", "p_flags", "p_align")]
        shf = [(n, 4) for n in ("sh_name", "sh_type", "sh_flags", "sh_addr", "sh_offset", "sh_size", "sh_link",
                                "sh_info", "sh_addralign", "sh_entsize")]
        sym = [("st_name", 4), ("st_value", 4), ("st_size", 4), ("st_info", 1), ("st_other", 1), ("st_shndx", 2)]
    if phoff and phnum:
        L.table("Phdr", phoff, phentsize, phnum, ph)
    if shoff and shnum:
        L.table("Shdr", shoff, shentsize, shnum, shf)
        for i in range(shnum):
            so = shoff + i * shentsize
            vals = {}
            p = so
            for n, s in shf:
                vals[n] = u(d, p, s, be)
                p += s
            typ, off, size, ent = vals["sh_type"], vals["sh_offset"], vals["sh_size"], vals["sh_entsize"]
            if typ in (2, 11) and ent:  # SYMTAB, DYNSYM
                L.table("Sym.s%d" % i, off, ent, size // ent, sym)
            elif typ == 6 and ent:  # DYNAMIC
                L.table("Dyn.s%d" % i, off, ent, size // ent, [("d_tag", A), ("d_val", A)])
            elif typ == 9 and ent:  # REL
                L.table("Rel.s%d" % i, off, ent, size // ent, [("r_offset", A), ("r_info", A)])
            elif typ == 4 and ent:  # RELA
                L.table("Rela.s%d" % i, off, ent, size // ent, [("r_offset", A), ("r_info", A), ("r_addend", A)])
            elif typ == 3 and size:  # STRTAB: first and last bytes
                L.add("Strtab.s%d" % i, off, [("first", 1)], size=size)
    return L.regions, be


DOSF = [("e_magic", 2)] + [(n, 2) for n in ("e_cblp", "e_cp", "e_crlc", "e_cparhdr", "e_minalloc", "e_maxalloc", "e_ss",
                                             "e_sp", "e_csum", "e_ip", "e_cs", "e_lfarlc", "e_ovno")] + \
       [("e_res", 8), ("e_oemid", 2), ("e_oeminfo", 2), ("e_res2", 20), ("e_lfanew", 4)]
COFFF = [("Machine", 2), ("NumberOfSections", 2), ("TimeDateStamp", 4), ("PointerToSymbolTable", 4),
         ("NumberOfSymbols", 4), ("SizeOfOptionalHeader", 2), ("Characteristics", 2)]
SECF = [("Name", 8), ("VirtualSize", 4), ("VirtualAddress", 4), ("SizeOfRawData", 4), ("PointerToRawData", 4),
        ("PointerToRelocations", 4), ("PointerToLinenumbers", 4), ("NumberOfRelocations", 2),
        ("NumberOfLinenumbers", 2), ("Characteristics", 4)]
SYMF = [("Name", 8), ("Value", 4), ("SectionNumber", 2), ("Type", 2), ("StorageClass", 1), ("NumberOfAuxSymbols", 1)]
DIRS = ("Export", "Import", "Resource", "Exception", "Certificate", "BaseReloc", "Debug", "Architecture", "GlobalPtr",
        "TLS", "LoadConfig", "BoundImport", "IAT", "DelayImport", "CLR", "Reserved")


def lay_pe(d, path):
    L = Lay(d)
    L.add("DOSHdr", 0, DOSF)
    lfanew = u(d, 60, 4)
    L.add("NTSignature", lfanew, [("Signature", 4)])
    L.add("FileHeader", lfanew + 4, COFFF)
    nsec, optsz = u(d, lfanew + 6, 2), u(d, lfanew + 20, 2)
    rc, t = sh(["llvm-readobj", "--file-headers", path])
    chk = rc == 0
    if chk:
        assert nsec == int(re.search(r"SectionCount: (\d+)", t).group(1)), path
        assert optsz == int(re.search(r"OptionalHeaderSize: (\d+)", t).group(1)), path
    oo = lfanew + 24
    plus = u(d, oo, 2) == 0x20B
    P = 8 if plus else 4
    opt = [("Magic", 2), ("MajorLinkerVersion", 1), ("MinorLinkerVersion", 1), ("SizeOfCode", 4),
           ("SizeOfInitializedData", 4), ("SizeOfUninitializedData", 4), ("AddressOfEntryPoint", 4), ("BaseOfCode", 4)]
    if not plus:
        opt.append(("BaseOfData", 4))
    opt += [("ImageBase", P), ("SectionAlignment", 4), ("FileAlignment", 4), ("MajorOperatingSystemVersion", 2),
            ("MinorOperatingSystemVersion", 2), ("MajorImageVersion", 2), ("MinorImageVersion", 2),
            ("MajorSubsystemVersion", 2), ("MinorSubsystemVersion", 2), ("Win32VersionValue", 4), ("SizeOfImage", 4),
            ("SizeOfHeaders", 4), ("CheckSum", 4), ("Subsystem", 2), ("DllCharacteristics", 2),
            ("SizeOfStackReserve", P), ("SizeOfStackCommit", P), ("SizeOfHeapReserve", P), ("SizeOfHeapCommit", P),
            ("LoaderFlags", 4), ("NumberOfRvaAndSizes", 4)]
    L.add("OptionalHeader", oo, opt)
    base = sum(s for _, s in opt)
    nrva = min(u(d, oo + base - 4, 4), 16)
    if chk:
        assert nrva == int(re.search(r"NumberOfRvaAndSize: (\d+)", t).group(1)), path
    dirs = []
    for i in range(nrva):
        L.add("DataDirectory[%s]" % DIRS[i], oo + base + 8 * i, [("RVA", 4), ("Size", 4)])
        dirs.append((u(d, oo + base + 8 * i, 4), u(d, oo + base + 8 * i + 4, 4)))
    so = oo + optsz
    L.table("SectionHdr", so, 40, nsec, SECF)
    secs = [(u(d, so + 40 * i + 8, 4), u(d, so + 40 * i + 12, 4), u(d, so + 40 * i + 16, 4), u(d, so + 40 * i + 20, 4))
            for i in range(nsec)]

    def rva2off(rva):
        for vs, va, rs, ro in secs:
            if va <= rva < va + max(vs, rs):
                return ro + (rva - va)
        return None
    if len(dirs) > 1 and dirs[1][0]:
        io = rva2off(dirs[1][0])
        i = 0
        while io is not None and io + 20 <= len(d) and i < MAXENT:
            ent = d[io:io + 20]
            L.add("ImportDescriptor[%d]" % i, io, [("ImportLookupTableRVA", 4), ("TimeDateStamp", 4),
                                                  ("ForwarderChain", 4), ("NameRVA", 4), ("ImportAddressTableRVA", 4)])
            if ent == bytes(20):
                break
            lo = rva2off(u(ent, 0, 4) or u(ent, 16, 4))
            if lo is not None:
                L.table("ImportLookup[%d]" % i, lo, P, 3, [("entry", P)])
            no = rva2off(u(ent, 12, 4))
            if no is not None:
                L.add("ImportName[%d]" % i, no, [("first", 1), ("second", 1)])
            io += 20
            i += 1
    if len(dirs) > 9 and dirs[9][0]:
        to = rva2off(dirs[9][0])
        if to is not None:
            L.add("TLSDirectory", to, [("StartAddressOfRawData", P), ("EndAddressOfRawData", P), ("AddressOfIndex", P),
                                       ("AddressOfCallBacks", P), ("SizeOfZeroFill", 4), ("Characteristics", 4)])
    if len(dirs) > 10 and dirs[10][0]:
        to = rva2off(dirs[10][0])
        if to is not None:
            L.table("LoadConfig", to, 4, 16, [("w", 4)])
    return L.regions, False


def lay_coff(d, path):
    L = Lay(d)
    L.add("FileHeader", 0, COFFF)
    nsec, symptr, nsyms, optsz = u(d, 2, 2), u(d, 8, 4), u(d, 12, 4), u(d, 16, 2)
    rc, t = sh(["llvm-readobj", "--file-headers", path])
    assert nsec == int(re.search(r"SectionCount: (\d+)", t).group(1)), path
    assert symptr == int(re.search(r"PointerToSymbolTable: (0x[0-9A-Fa-f]+)", t).group(1), 16), path
    assert nsyms == int(re.search(r"SymbolCount: (\d+)", t).group(1)), path
    L.table("SectionHdr", 20 + optsz, 40, nsec, SECF)
    L.table("Symbol", symptr, 18, nsyms, SYMF)
    L.add("StringTableSize", symptr + 18 * nsyms, [("size", 4)])
    return L.regions, False


SEG32 = [("cmd", 4), ("cmdsize", 4), ("segname", 16), ("vmaddr", 4), ("vmsize", 4), ("fileoff", 4), ("filesize", 4),
         ("maxprot", 4), ("initprot", 4), ("nsects", 4), ("flags", 4)]
SEG64 = [("cmd", 4), ("cmdsize", 4), ("segname", 16), ("vmaddr", 8), ("vmsize", 8), ("fileoff", 8), ("filesize", 8),
         ("maxprot", 4), ("initprot", 4), ("nsects", 4), ("flags", 4)]
SECT32 = [("sectname", 16), ("segname", 16), ("addr", 4), ("size", 4), ("offset", 4), ("align", 4), ("reloff", 4),
          ("nreloc", 4), ("flags", 4), ("reserved1", 4), ("reserved2", 4)]
SECT64 = [("sectname", 16), ("segname", 16), ("addr", 8), ("size", 8), ("offset", 4), ("align", 4), ("reloff", 4),
          ("nreloc", 4), ("flags", 4), ("reserved1", 4), ("reserved2", 4), ("reserved3", 4)]
LCNAMES = {1: "LC_SEGMENT", 2: "LC_SYMTAB", 4: "LC_THREAD", 5: "LC_UNIXTHREAD", 0xB: "LC_DYSYMTAB",
           0xC: "LC_LOAD_DYLIB", 0xD: "LC_ID_DYLIB", 0xE: "LC_LOAD_DYLINKER", 0x19: "LC_SEGMENT_64", 0x1B: "LC_UUID",
           0x1D: "LC_CODE_SIGNATURE", 0x22: "LC_DYLD_INFO", 0x80000022: "LC_DYLD_INFO_ONLY",
           0x24: "LC_VERSION_MIN_MACOSX", 0x26: "LC_FUNCTION_STARTS", 0x80000028: "LC_MAIN", 0x29: "LC_DATA_IN_CODE",
           0x2A: "LC_SOURCE_VERSION", 0x2B: "LC_DYLIB_CODE_SIGN_DRS", 0x32: "LC_BUILD_VERSION"}
LCFIELDS = {
    2: [("symoff", 4), ("nsyms", 4), ("stroff", 4), ("strsize", 4)],
    0xB: [(n, 4) for n in ("ilocalsym", "nlocalsym", "iextdefsym", "nextdefsym", "iundefsym", "nundefsym", "tocoff",
                           "ntoc", "modtaboff", "nmodtab", "extrefsymoff", "nextrefsyms", "indirectsymoff",
                           "nindirectsyms", "extreloff", "nextrel", "locreloff", "nlocrel")],
    0x22: [(n, 4) for n in ("rebase_off", "rebase_size", "bind_off", "bind_size", "weak_bind_off", "weak_bind_size",
                            "lazy_bind_off", "lazy_bind_size", "export_off", "export_size")],
    0x80000028: [("entryoff", 8), ("stacksize", 8)],
    0x26: [("dataoff", 4), ("datasize", 4)], 0x29: [("dataoff", 4), ("datasize", 4)],
    0x2B: [("dataoff", 4), ("datasize", 4)], 0x1D: [("dataoff", 4), ("datasize", 4)],
    0xC: [("name_offset", 4), ("timestamp", 4), ("current_version", 4), ("compat_version", 4)],
    0xD: [("name_offset", 4), ("timestamp", 4), ("current_version", 4), ("compat_version", 4)],
    0xE: [("name_offset", 4)],
    4: [("flavor", 4), ("count", 4)], 5: [("flavor", 4), ("count", 4)],
}
LCFIELDS[0x80000022] = LCFIELDS[0x22]


def lay_macho_at(L, d, base, pfx, path, check=True):
    magic = u(d, base, 4)
    x64 = magic == 0xFEEDFACF
    assert magic in (0xFEEDFACE, 0xFEEDFACF), path
    hdr = [("magic", 4), ("cputype", 4), ("cpusubtype", 4), ("filetype", 4), ("ncmds", 4), ("sizeofcmds", 4),
           ("flags", 4)] + ([("reserved", 4)] if x64 else [])
    L.add(pfx + "mach_header", base, hdr)
    ncmds, sizeofcmds = u(d, base + 16, 4), u(d, base + 20, 4)
    if check:
        rc, t = sh(["llvm-readobj", "--file-headers", path])
        assert ncmds == int(re.search(r"NumOfLoadCommands: (\d+)", t).group(1)), path
        assert sizeofcmds == int(re.search(r"SizeOfLoadCommands: (\d+)", t).group(1)), path
    o = base + (32 if x64 else 28)
    for i in range(ncmds):
        cmd, cmdsize = u(d, o, 4), u(d, o + 4, 4)
        nm = "%scmd[%d]:%s" % (pfx, i, LCNAMES.get(cmd, "0x%x" % cmd))
        if cmd in (1, 0x19):
            seg, sect = (SEG32, SECT32) if cmd == 1 else (SEG64, SECT64)
            L.add(nm, o, seg)
            so = o + sum(s for _, s in seg)
            ns = u(d, o + (48 if cmd == 1 else 64), 4)
            for j in range(ns):
                L.add("%s.sect[%d]" % (nm, j), so, sect)
                so += sum(s for _, s in sect)
        else:
            fl = [("cmd", 4), ("cmdsize", 4)] + LCFIELDS.get(cmd, [])
            used = sum(s for _, s in fl)
            k = 0
            while used + 4 <= min(cmdsize, 96):
                fl.append(("w%d" % k, 4))
                used += 4
                k += 1
            L.add(nm, o, fl, size=max(cmdsize, used))
            if cmd == 2:  # symtab: nlist entries + string table
                symoff, nsyms, stroff, strsize = [u(d, o + 8 + 4 * k, 4) for k in range(4)]
                nl = [("n_strx", 4), ("n_type", 1), ("n_sect", 1), ("n_desc", 2), ("n_value", 8 if x64 else 4)]
                L.table(pfx + "nlist", base + symoff, 16 if x64 else 12, nsyms, nl)
                if strsize:
                    L.add(pfx + "strtab", base + stroff, [("first", 1), ("second", 1)], size=strsize)
            if cmd in (0x22, 0x80000022):
                for k, n in enumerate(("rebase", "bind", "weak_bind", "lazy_bind", "export")):
                    off, sz = u(d, o + 8 + 8 * k, 4), u(d, o + 12 + 8 * k, 4)
                    if off and sz:
                        L.table(pfx + "dyld_" + n, base + off, 1, min(sz, 24), [("b", 1)])
            if cmd == 0x26:
                off, sz = u(d, o + 8, 4), u(d, o + 12, 4)
                if off and sz:
                    L.table(pfx + "function_starts", base + off, 1, min(sz, 16), [("b", 1)])
            if cmd == 0xB:
                off, n = u(d, o + 8 + 4 * 12, 4), u(d, o + 8 + 4 * 13, 4)
                if off and n:
                    L.table(pfx + "indirectsyms", base + off, 4, n, [("index", 4)])
        o += cmdsize


def lay_macho(d, path):
    L = Lay(d)
    if d[:4] == b"\xca\xfe\xba\xbe":
        L.add("fat_header", 0, [("magic", 4), ("nfat_arch", 4)])
        n = u(d, 4, 4, True)
        L.table("fat_arch", 8, 20, n, [("cputype", 4), ("cpusubtype", 4), ("offset", 4), ("size", 4), ("align", 4)])
        # regions of big-endian words are tagged so that value classes are written big-endian
        for r in L.regions:
            r["be"] = 1
        for i in range(n):
            off = u(d, 8 + 20 * i + 8, 4, True)
            lay_macho_at(L, d, off, "arch%d." % i, path, check=False)
        return L.regions, False
    lay_macho_at(L, d, 0, "", path)
    return L.regions, False


def lay_text(d, kind):
    """one region per record (line); fields are runs of hex digits"""
    regs = []
    off = 0
    lines = d.split(b"\n")
    idx = list(range(len(lines)))
    picked = set(idx[:MAXENT - 6] + idx[-6:])
    for i, ln in enumerate(lines):
        raw = ln.rstrip(b"\r")
        if raw and i in picked:
            if kind == "HEX":
                cnt = int(raw[1:3], 16)
                fl = [["start", 0, 1], ["count", 1, 2], ["address", 3, 4], ["type", 7, 2]]
                if cnt:
                    fl.append(["data", 9, 2 * cnt])
                fl.append(["cksum", 9 + 2 * cnt, 2])
                nm = "rec[%d]:type%s" % (i, raw[7:9].decode())
            else:
                typ = int(raw[1:2])
                al = {0: 4, 1: 4, 2: 6, 3: 8, 5: 4, 6: 6, 7: 8, 8: 6, 9: 4}[typ]
                fl = [["start", 0, 1], ["type", 1, 1], ["count", 2, 2], ["address", 4, al]]
                if len(raw) - 2 - (4 + al) > 0:
                    fl.append(["data", 4 + al, len(raw) - 2 - (4 + al)])
                fl.append(["cksum", len(raw) - 2, 2])
                nm = "rec[%d]:S%d" % (i, typ)
            regs.append({"n": nm, "o": off, "s": len(raw), "f": fl})
        off += len(ln) + 1
    return regs, False


def describe(name, src, path):
    d = open(path, "rb").read()
    truth, ev = reference_truth(path)
    regs, be, kind = [], False, "bin"
    if truth == "ELF":
        regs, be = lay_elf(d, path)
    elif truth == "PE":
        regs, be = lay_pe(d, path)
    elif truth == "COFF":
        regs, be = lay_coff(d, path)
    elif truth == "MachO":
        regs, be = lay_macho(d, path)
    elif truth in ("HEX", "SREC"):
        regs, be = lay_text(d, truth)
        kind = "text"
    for r in regs:
        r.setdefault("be", 1 if be else 0)
        assert 0 <= r["o"] and r["o"] + r["s"] <= len(d), (name, r["n"])
        for f in r["f"]:
            assert f[1] + f[2] <= r["s"], (name, r["n"], f)
    return {"name": name, "src": src, "sha256": hashlib.sha256(d).hexdigest(), "len": len(d), "truth": truth,
            "truth_by": ev, "kind": kind, "regions": regs}


def text_family():
    """Append (only) the generated HEX / S-record size family to bases.ndjson:  build.py /repo textfamily

    COFF has no magic number and is tried before HEX and SREC; what keeps it from claiming a text file is the
    failure of some 40-byte section header it reads from offset 20 + f_opthdr on (f_opthdr = the characters 16-17
    of the text, '00' = 12336 here).  Whether a lenient COFF parser swallows a valid text file therefore depends
    on (size - 20 - f_opthdr) mod 40.  The family has one valid file of each format for every residue, just
    above 20 + 12336 + 40 bytes.  Only the recipe, the sha256 and the reference truth are vendored; the bytes are
    rebuilt by harness/c20.py:gen_text.  These bases are run undamaged only (intact_only)."""
    sys.path.insert(0, os.path.dirname(os.path.dirname(HERE)))
    from harness.c20 import gen_text
    path = os.path.join(HERE, "bases.ndjson")
    bases = [json.loads(l) for l in open(path)]
    bases = [b for b in bases if not b["src"].startswith("gen:")]
    tmp = os.path.join(HERE, ".family.tmp")
    added = []
    for fmt in ("HEX", "SREC"):
        want = set(range(40))
        cands = []
        for nl in range(270, 330):
            for k in range(1, 17):
                for eol in ("lf", "crlf"):
                    t = gen_text(fmt, nl, k, eol)
                    opthdr = int.from_bytes(t[16:18], "little")
                    if opthdr == 0x3030 and len(t) > 20 + opthdr + 40:
                        cands.append((len(t), nl, k, eol, (len(t) - 20 - opthdr) % 40))
        for size, nl, k, eol, r in sorted(cands):
            if r in want:
                want.discard(r)
                t = gen_text(fmt, nl, k, eol)
                open(tmp, "wb").write(t)
                truth, ev = reference_truth(tmp)
                assert truth == fmt, (fmt, nl, k, eol, truth, ev)
                added.append({"name": "gen/%s_r%02d_%d" % (fmt.lower(), r, size), "src": "gen:%s:%d:%d:%s" % (fmt, nl, k, eol),
                              "sha256": hashlib.sha256(t).hexdigest(), "len": size, "truth": truth, "truth_by": ev,
                              "kind": "text", "regions": [], "intact_only": 1})
        assert not want, (fmt, want)
    os.unlink(tmp)
    bases += added
    with open(path, "w") as fo:
        for i, b in enumerate(bases):
            b["id"] = i + 1
            fo.write(json.dumps(b, separators=(",", ":")) + "\n")
    with open(os.path.join(HERE, "truth.txt"), "w") as fo:
        for b in bases:
            fo.write("%-40s %-6s %7d  %d regions  %s\n" % (b["name"], b["truth"], b["len"], len(b["regions"]),
                                                          b["truth_by"]))
    print("%d generated bases appended (%d bases in all)" % (len(added), len(bases)))


def main():
    if "textfamily" in sys.argv:
        return text_family()
    build_synthetic()
    bases = []
    sdir = os.path.join(REPO, "tests", "samples")
    for root, dirs, files in sorted(os.walk(sdir)):
        dirs.sort()
        for f in sorted(files):
            p = os.path.join(root, f)
            rel = os.path.relpath(p, REPO)
            bases.append(describe(os.path.relpath(p, sdir), "repo:" + rel, p))
    for f in sorted(os.listdir(FILES)):
        bases.append(describe("syn/" + f, "corpus:files/" + f, os.path.join(FILES, f)))
    with open(os.path.join(HERE, "bases.ndjson"), "w") as fo:
        for i, b in enumerate(bases):
            b["id"] = i + 1
            fo.write(json.dumps(b, separators=(",", ":")) + "\n")
    with open(os.path.join(HERE, "truth.txt"), "w") as fo:
        for b in bases:
            fo.write("%-40s %-6s %7d  %d regions  %s\n" % (b["name"], b["truth"], b["len"], len(b["regions"]),
                                                          b["truth_by"]))
    print(open(os.path.join(HERE, "truth.txt")).read())


if __name__ == "__main__":
    main()
