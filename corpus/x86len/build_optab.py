#!/usr/bin/env python3
"""Derive the per-opcode attribute table of specs/X86OpTab.tla from the reference disassemblers.

    /venv/bin/python corpus/x86len/build_optab.py [--jobs N] [--reuse]

(--reuse: refold from the vendored raw measurements corpus/x86len/optab_raw.json.gz, probing only what is missing)

amoco is never imported or consulted. For every
    mode in {32, 64} x opcode map in {one-byte, 0F, 0F38, 0F3A} x opcode byte x mandatory-prefix column in
    {none, 66, F2, F3, 66+F2, 66+F3} x REX.W in {0, 1} (64-bit mode) (x 67 for the one-byte map)
the script probes objdump and llvm-objdump (harness/c07ref.py) with all 256 values of the byte that follows
the opcode (the ModRM byte, if the opcode has one) in front of a fixed tail, and keeps, per probe, whether
both tools accept the string as a valid instruction of the same length, that length, and whether they print
a direct branch target. From these measurements it infers, per opcode:
  * whether a ModRM byte follows (length independent of the next byte <=> no ModRM),
  * the number of immediate bytes per column, folded into a symbolic immediate kind
        0 ib iw i3(iw+ib) iz(2|4 by operand size) iv(2|4|8) ap(iz+2) mo(address size) i4 i8
    that reproduces every measured column (operand size: REX.W -> 64, else 66 -> 16, else 32),
  * rel8 / relz when the tools print a branch target,
  * per ModRM class (memory form x /digit; register form x /digit, refined per rm where needed) which
    (column, REX.W) pairs are valid ("x" = rejected by a reference, the references disagree, or irregular = outside the
    domain claimed by the specification).
The ModRM/SIB/displacement length rule used to subtract the addressing bytes is the textbook one; it is
part of specs/X86Len.tla, and table + rule are validated together by TLC against the independent corpus
(build_corpus.py, check stage T-ref) - a wrong inference here shows up there.

Outputs: corpus/x86len/optab_raw.json.gz (raw measurements), corpus/x86len/optab.json.gz (the folded table),
specs/X86OpTab.tla (generated from it).
"""
import gzip
import json
import multiprocessing as mp
import os
import sys
import time

HERE = os.path.dirname(os.path.abspath(__file__))
VERIF = os.path.dirname(os.path.dirname(HERE))
sys.path.insert(0, VERIF)
from harness import c07ref  # noqa: E402

MAPS = {"1": [], "0F": [0x0F], "0F38": [0x0F, 0x38], "0F3A": [0x0F, 0x3A]}
MAPNAMES = ["1", "0F", "0F38", "0F3A"]
PCS = {"n": [], "66": [0x66], "F2": [0xF2], "F3": [0xF3], "66F2": [0x66, 0xF2], "66F3": [0x66, 0xF3]}
PCNAMES = ["n", "66", "F2", "F3", "66F2", "66F3"]
TAIL = [0x24, 0x10, 0x20, 0x30, 0x40, 0x50, 0x60, 0x70, 0x11, 0x21, 0x31, 0x41]
LEGACY_PREFIXES = {0x26, 0x2E, 0x36, 0x3E, 0x64, 0x65, 0x66, 0x67, 0xF0, 0xF2, 0xF3}


def is_prefix_or_escape(mode, mapname, op):
    if mapname == "1":
        if op in LEGACY_PREFIXES or op == 0x0F:
            return True
        if mode == 64 and 0x40 <= op <= 0x4F:
            return True
    if mapname == "0F" and op in (0x38, 0x3A):
        return True
    return False


def modrm_extra(modrm, sib, adsize):
    """bytes that follow the ModRM byte for addressing (SIB + displacement): the textbook rule"""
    mod, rm = modrm >> 6, modrm & 7
    if mod == 3:
        return 0
    if adsize == 16:
        if mod == 0:
            return 2 if rm == 6 else 0
        return 1 if mod == 1 else 2
    n = 0
    base = rm
    if rm == 4:
        n += 1
        base = sib & 7
    if mod == 0:
        if base == 5:
            n += 4
    elif mod == 1:
        n += 1
    else:
        n += 4
    return n


def key_strings(mode, mapname, op, pc, w, a67=False):
    head = list(PCS[pc]) + ([0x67] if a67 else []) + ([0x48] if w else []) + MAPS[mapname] + [op]
    out = []
    for m in range(256):
        s = head + [m] + TAIL
        out.append(bytes(s[:15]))
    return len(head), out


def measure(job):
    """one (mode, mapname, op): probe every column -> {col: [ (ok, len, branch) x 256 ]}"""
    mode, mapname, op, pcs = job
    cols = []
    strings = []
    for pc in pcs:
        for w in ((0, 1) if mode == 64 else (0,)):
            for a67 in ((False, True) if mapname == "1" else (False,)):
                hl, ss = key_strings(mode, mapname, op, pc, w, a67)
                cols.append((pc, w, a67, hl))
                strings.extend(ss)
    res = c07ref.probe(strings, mode)
    out = {}
    for ci, (pc, w, a67, hl) in enumerate(cols):
        rows = []
        for m in range(256):
            r = res[ci * 256 + m]
            ok = c07ref.agreed(r)
            rows.append((1 if ok else 0, r["lo"] if ok else 0, 1 if (ok and r["to"] is not None) else 0))
        out["%s/%d/%d" % (pc, w, 1 if a67 else 0)] = {"hl": hl, "rows": rows}
    return (mode, mapname, op, out)


# ---------------------------------------------------------------------------------------------------
# folding measurements into attributes

def opsize_of(pc, w):
    return 64 if w else (16 if pc.startswith("66") else 32)


KINDS = ["0", "ib", "iw", "i3", "iz", "iv", "ap", "i4", "i8"]


def kind_size(kind, opsize, adsize):
    if kind == "0":
        return 0
    if kind == "ib":
        return 1
    if kind == "iw":
        return 2
    if kind == "i3":
        return 3
    if kind == "iz":
        return 2 if opsize == 16 else 4
    if kind == "iv":
        return {16: 2, 32: 4, 64: 8}[opsize]
    if kind == "ap":
        return (2 if opsize == 16 else 4) + 2
    if kind == "i4":
        return 4
    if kind == "i8":
        return 8
    if kind == "mo":
        return adsize // 8
    raise ValueError(kind)


def fit_kind(meas, mode):
    """meas: {(pc, w, a67): n immediate bytes} over the valid columns -> kind or None"""
    if not meas:
        return None
    for kind in KINDS + ["mo"]:
        ok = True
        for (pc, w, a67), n in meas.items():
            ads = (32 if a67 else 64) if mode == 64 else (16 if a67 else 32)
            if kind_size(kind, opsize_of(pc, w), ads) != n:
                ok = False
                break
        if ok:
            return kind
    return None


def columns(meas, mode):
    """meas: {(pc, w, a67): immediate bytes} of the valid probes -> the 12 kinds
    <<n, 66, F2, F3, 66+F2, 66+F3>> x REX.W 0, 1.
    One kind for all valid columns if possible, otherwise per prefix column, otherwise per (prefix, W)."""
    k_all = fit_kind(meas, mode)
    out = []
    for w in (0, 1):
        for pc in PCNAMES:
            if (pc, w, 0) not in meas:
                out.append("x")
                continue
            k = k_all
            if k is None:
                k = fit_kind({kk: v for kk, v in meas.items() if kk[0] == pc}, mode)
            if k is None:
                k = fit_kind({kk: v for kk, v in meas.items() if kk[0] == pc and kk[1] == w}, mode)
            out.append(k if k is not None else "x")
    return out


def fold(mode, mapname, op, cols):
    """-> attribute dict for one opcode (see module docstring)"""
    if is_prefix_or_escape(mode, mapname, op):
        return {"k": "p"}
    adsize = 64 if mode == 64 else 32
    # 1. no-ModRM hypothesis: in some column all 256 next bytes valid with the same length
    nomodrm = None
    for cname, c in cols.items():
        rows = c["rows"]
        if all(r[0] for r in rows) and len(set(r[1] for r in rows)) == 1:
            nomodrm = True
            break
    varying = any(len(set(r[1] for r in c["rows"] if r[0])) > 1 for c in cols.values())
    if nomodrm and not varying:
        meas, br = {}, set()
        for cname, c in cols.items():
            pc, w, a67 = cname.split("/")
            rows = c["rows"]
            if all(r[0] for r in rows) and len(set(r[1] for r in rows)) == 1:
                meas[(pc, int(w), int(a67))] = rows[0][1] - c["hl"]
                br.add(rows[0][2])
        if len(br) != 1:
            return {"k": "x", "why": "branch flag not uniform"}
        return {"k": "n", "imm": columns(meas, mode), "br": br.pop()}
    # 2. ModRM hypothesis, per class
    def cls_fit(selector):
        """selector: iterable of modrm values forming the class -> per-pc kind list"""
        meas = {}
        brs = set()
        for cname, c in cols.items():
            pc, w, a67 = cname.split("/")
            if int(a67):
                continue
            ns = set()
            for m in selector:
                ok, ln, br = c["rows"][m]
                if not ok:
                    ns.add(None)
                    continue
                ns.add(ln - c["hl"] - 1 - modrm_extra(m, TAIL[0], adsize))
                brs.add(br)
            if len(ns) == 1 and None not in ns and min(ns) >= 0:
                meas[(pc, int(w), 0)] = ns.pop()
        out = columns(meas, mode)
        if brs - {0}:
            out = ["x"] * (2 * len(PCNAMES))      # a ModRM opcode with a direct target: not modelled
        return out

    mem, reg = [], []
    for r in range(8):
        mem.append(cls_fit([(mod << 6) | (r << 3) | rm for mod in (0, 1, 2) for rm in range(8)]))
    for r in range(8):
        whole = cls_fit([0xC0 | (r << 3) | rm for rm in range(8)])
        per = [cls_fit([0xC0 | (r << 3) | rm]) for rm in range(8)]
        if all(p == whole for p in per):
            reg.append({"u": 1, "k": whole})
        else:
            reg.append({"u": 0, "ks": per})
    if all(k == "x" for e in mem for k in e) and all(
            (k == "x") for e in reg for kk in ([e["k"]] if e["u"] else e["ks"]) for k in kk):
        return {"k": "x", "why": "no valid regular class"}
    return {"k": "m", "mem": mem, "reg": reg}


# ---------------------------------------------------------------------------------------------------
# TLA+ emission

def tla_str(s):
    return '"%s"' % s


def tla_tuple(xs):
    return "<<" + ", ".join(xs) + ">>"


def attr_tla(a):
    if a["k"] in ("p", "x"):
        return '[k |-> "%s"]' % a["k"]
    if a["k"] == "n":
        return '[k |-> "n", imm |-> %s, br |-> %s]' % (tla_tuple(tla_str(x) for x in a["imm"]),
                                                       "TRUE" if a["br"] else "FALSE")
    mem = tla_tuple(tla_tuple(tla_str(x) for x in e) for e in a["mem"])
    regs = []
    for e in a["reg"]:
        if e["u"]:
            regs.append("[u |-> TRUE, k |-> %s]" % tla_tuple(tla_str(x) for x in e["k"]))
        else:
            regs.append("[u |-> FALSE, ks |-> %s]" % tla_tuple(tla_tuple(tla_str(x) for x in p) for p in e["ks"]))
    return '[k |-> "m", mem |-> %s, reg |-> %s]' % (mem, tla_tuple(regs))


def emit_tla(table, path, meta):
    uniq = {}
    names = {}
    lines = []
    for mode in (32, 64):
        for mapname in MAPNAMES:
            for op in range(256):
                t = attr_tla(table[(mode, mapname, op)])
                if t not in uniq:
                    uniq[t] = "A%d" % len(uniq)
                names[(mode, mapname, op)] = uniq[t]
    lines.append("------------------------------ MODULE X86OpTab ------------------------------")
    lines.append("(***************************************************************************)")
    lines.append("(* GENERATED by corpus/x86len/build_optab.py - do not edit.                 *)")
    lines.append("(* Per-opcode length attributes of IA-32 / x86-64 instructions, derived by  *)")
    lines.append("(* probing the reference disassemblers opcode by opcode:                    *)")
    for k, v in meta.items():
        lines.append("(*   %-72s*)" % ("%s: %s" % (k, v))[:72])
    lines.append("(* amoco was not consulted.                                                 *)")
    lines.append("(*                                                                         *)")
    lines.append("(* k = \"p\" prefix/escape byte, \"x\" outside the claimed domain (rejected by  *)")
    lines.append("(* a reference, references disagree, VEX/EVEX/XOP, irregular), \"n\" no ModRM, *)")
    lines.append("(* \"m\" ModRM. Immediate kinds are indexed by the mandatory-prefix column     *)")
    lines.append("(* <<none, 66, F2, F3, 66+F2, 66+F3>> without REX.W, then the same with REX.W: *)")
    lines.append("(* \"x\" invalid, \"0\" \"ib\" \"iw\" \"i3\" \"iz\" \"iv\" \"ap\"                             *)")
    lines.append("(* \"mo\" \"i4\" \"i8\" (see ImmBytes in X86Len). mem[/digit+1] = memory forms,   *)")
    lines.append("(* reg[/digit+1] = register forms (u: uniform over rm, else ks[rm+1]).       *)")
    lines.append("(***************************************************************************)")
    lines.append("EXTENDS Integers")
    lines.append("")
    ids = {}
    for t, n in uniq.items():
        ids[n] = len(ids) + 1
        lines.append("%s == %s" % (n, t))
    lines.append("")
    lines.append("\\* attribute records by identifier (1-based); the decoder state carries the identifier")
    lines.append("AttrTab == <<" + ", ".join(uniq.values()) + ">>")
    lines.append("")
    for mode in (32, 64):
        for mapname in MAPNAMES:
            row = [str(ids[names[(mode, mapname, op)]]) for op in range(256)]
            lines.append("Tab_%d_%s == <<" % (mode, mapname))
            for i in range(0, 256, 16):
                lines.append("  " + ", ".join(row[i:i + 16]) + ("," if i < 240 else ""))
            lines.append(">>")
    lines.append("")
    lines.append("\\* map index: 1 = one-byte, 2 = 0F, 3 = 0F38, 4 = 0F3A ; op is the opcode byte 0..255")
    lines.append("OpId(mode, map, op) ==")
    lines.append("  IF mode = 32")
    lines.append("  THEN <<Tab_32_1, Tab_32_0F, Tab_32_0F38, Tab_32_0F3A>>[map][op + 1]")
    lines.append("  ELSE <<Tab_64_1, Tab_64_0F, Tab_64_0F38, Tab_64_0F3A>>[map][op + 1]")
    lines.append("Attr(id) == AttrTab[id]")
    lines.append("=============================================================================")
    with open(path, "w") as f:
        f.write("\n".join(lines) + "\n")
    return len(uniq)


def main():
    jobs_n = 8
    if "--jobs" in sys.argv:
        jobs_n = int(sys.argv[sys.argv.index("--jobs") + 1])
    raw_path = os.path.join(HERE, "optab_raw.json.gz")      # vendored raw measurements (per probe: ok, length, branch)
    t0 = time.time()
    raw = {}
    if "--reuse" in sys.argv and os.path.exists(raw_path):
        raw = json.load(gzip.open(raw_path, "rt"))
    # probe what the cache (if any) does not have yet
    jobs = []
    for mode in (32, 64):
        for mapname in MAPNAMES:
            for op in range(256):
                have = set(c.split("/")[0] for c in raw.get("%d/%s/%d" % (mode, mapname, op), {}))
                missing = [pc for pc in PCNAMES if pc not in have]
                if missing:
                    jobs.append((mode, mapname, op, missing))
    if jobs:
        with mp.Pool(jobs_n) as pool:
            res = pool.map(measure, jobs, chunksize=8)
        for (m, mn, op, cols) in res:
            raw.setdefault("%d/%s/%d" % (m, mn, op), {}).update(cols)
        os.makedirs(os.path.dirname(raw_path), exist_ok=True)
        json.dump(raw, gzip.open(raw_path, "wt"))
    print("measured %d opcodes in %.1fs" % (len(raw), time.time() - t0))
    table = {}
    for key, cols in raw.items():
        m, mn, op = key.split("/")
        table[(int(m), mn, int(op))] = fold(int(m), mn, int(op), cols)
    meta = dict(c07ref.versions())
    nuniq = emit_tla(table, os.path.join(VERIF, "specs", "X86OpTab.tla"), meta)
    out = {"meta": meta, "tail": TAIL,
           "table": {"%d/%s/%02x" % k: v for k, v in sorted(table.items(), key=lambda kv: (kv[0][0], MAPNAMES.index(kv[0][1]), kv[0][2]))}}
    with gzip.open(os.path.join(HERE, "optab.json.gz"), "wt") as f:
        json.dump(out, f, separators=(",", ":"))
    cnt = {}
    for a in table.values():
        cnt[a["k"]] = cnt.get(a["k"], 0) + 1
    print("attributes: %s ; %d distinct attribute records" % (cnt, nuniq))


if __name__ == "__main__":
    main()
