#!/usr/bin/env python3
"""Build the vendored reference table  bytes -> (mode, length, branch displacement)  for C07.

    /venv/bin/python corpus/x86len/build_corpus.py [--seed N] [--jobs N]

amoco is never imported. Neither specs/X86Len.tla nor the derived opcode table is consulted: the strings
are produced blindly (opcode x prefix x "next bytes" classes + random tails, random buffers, buffers made
of accepted instructions) and the references decide what they mean. An entry is kept when objdump and
llvm-objdump both decode the 15-byte string as a valid instruction of the same length with the same
(or no) direct branch target (harness/c07ref.agreed); everything else is outside property C07 and dropped
(counted in meta.json).

Outputs (corpus/x86len/):
  table.jsonl.gz    one line per kept entry {"m","b","l","d"?,"src"}   (structured strings)
                    d = (target - address - length) mod 2^64, hex, for direct branches
  sweeps.jsonl.gz   one line per buffer {"m","buf","kind","ref":[per-offset l or 0],"d":{offset: hex}}
                    ref[o] is the agreed length of the 15-byte window at offset o (0 = outside the property)
  meta.json         tool versions, seed, counts
"""
import gzip
import json
import multiprocessing as mp
import os
import random
import sys

HERE = os.path.dirname(os.path.abspath(__file__))
VERIF = os.path.dirname(os.path.dirname(HERE))
sys.path.insert(0, VERIF)
from harness import c07ref  # noqa: E402

ESC = {"1": [], "0F": [0x0F], "0F38": [0x0F, 0x38], "0F3A": [0x0F, 0x3A]}
SEG = [0x26, 0x2E, 0x36, 0x3E, 0x64, 0x65]


def rand_prefixes(rng):
    x = rng.random()
    if x < 0.30:
        return []
    pool = [0x66, 0x66, 0x67, 0x67, 0xF2, 0xF3, 0xF3, 0xF0, rng.choice(SEG)]
    if x < 0.65:
        return [rng.choice(pool)]
    if x < 0.88:
        return [rng.choice(pool), rng.choice(pool)]
    if x < 0.97:
        return [rng.choice(pool) for _ in range(3)]
    return [rng.choice(pool) for _ in range(rng.randrange(4, 7))]


def next_bytes(rng):
    """a 'next bytes' class: what would be ModRM / SIB if the opcode has them, otherwise just bytes"""
    mod = rng.randrange(4)
    reg = rng.randrange(8)
    rm = rng.choice((0, 1, 2, 3, 4, 4, 4, 5, 5, 6, 6, 7))
    modrm = (mod << 6) | (reg << 3) | rm
    base = rng.choice((0, 1, 2, 3, 4, 5, 5, 5, 6, 7))
    sib = (rng.randrange(4) << 6) | (rng.randrange(8) << 3) | base
    return [modrm, sib]


def structured(mode, rng, per_op):
    out = []
    for mapname, esc in ESC.items():
        n = per_op if mapname in ("1", "0F") else max(4, per_op // 4)
        for op in range(256):
            for _ in range(n):
                s = rand_prefixes(rng)
                if mode == 64 and rng.random() < 0.45:
                    s = s + [0x40 | rng.randrange(16)]
                    if rng.random() < 0.03:          # a legacy prefix after REX
                        s = s + [rng.choice([0x66, 0x67, 0xF3, 0x2E])]
                s = s + esc + [op] + next_bytes(rng)
                s = s + [rng.randrange(256) for _ in range(15)]
                out.append(bytes(s[:15]))
    return out


def keep(r):
    return c07ref.agreed(r)


def sweep_entries(mode, bufs, pool):
    """bufs: list of (kind, bytes). -> list of dict lines"""
    strings, index = [], []
    for bi, (kind, buf) in enumerate(bufs):
        for o in range(0, len(buf) - 14):
            strings.append(buf[o:o + 15])
            index.append((bi, o))
    res = c07ref.probe_parallel(strings, mode, pool)
    lines = []
    for bi, (kind, buf) in enumerate(bufs):
        lines.append({"m": mode, "buf": buf.hex(), "kind": kind, "ref": [0] * (len(buf) - 14), "d": {}})
    for (bi, o), r in zip(index, res):
        if keep(r):
            lines[bi]["ref"][o] = r["lo"]
            if r["do"] is not None:
                lines[bi]["d"][str(o)] = "%x" % r["do"]
    return lines


def main():
    seed = 20260922
    jobs = 8
    if "--seed" in sys.argv:
        seed = int(sys.argv[sys.argv.index("--seed") + 1])
    if "--jobs" in sys.argv:
        jobs = int(sys.argv[sys.argv.index("--jobs") + 1])
    per_op = 56
    nrand, ncode, buflen = 160, 120, 96
    rng = random.Random(seed)
    meta = {"seed": seed, "tools": c07ref.versions(), "per_opcode_variants": per_op, "counts": {}}
    table = []
    sweeps = []
    with mp.Pool(jobs) as pool:
        for mode in (32, 64):
            S = structured(mode, rng, per_op)
            R = c07ref.probe_parallel(S, mode, pool)
            kept = 0
            accepted = []
            reasons = {"objdump_rejects": 0, "llvm_rejects": 0, "length_differs": 0, "target_differs": 0,
                       "prefix_only_line": 0}
            seen = set()
            for s, r in zip(S, R):
                if keep(r):
                    if s in seen:
                        continue
                    seen.add(s)
                    e = {"m": mode, "b": s.hex(), "l": r["lo"], "src": "g"}
                    if r["do"] is not None:
                        e["d"] = "%x" % r["do"]
                    table.append(e)
                    accepted.append(s[:r["lo"]])
                    kept += 1
                elif not r["vo"]:
                    reasons["objdump_rejects"] += 1
                elif not r["vl"]:
                    reasons["llvm_rejects"] += 1
                elif r["mo"] == "" or r["ml"] == "":
                    reasons["prefix_only_line"] += 1
                elif r["lo"] != r["ll"]:
                    reasons["length_differs"] += 1
                else:
                    reasons["target_differs"] += 1
            meta["counts"]["structured_%d" % mode] = {"probed": len(S), "kept": kept, "dropped": reasons}
            bufs = []
            for _ in range(nrand):
                bufs.append(("random", bytes(rng.randrange(256) for _ in range(buflen))))
            for _ in range(ncode):
                b = bytearray()
                while len(b) < buflen:
                    b += rng.choice(accepted)
                bufs.append(("code", bytes(b[:buflen])))
            lines = sweep_entries(mode, bufs, pool)
            sweeps.extend(lines)
            meta["counts"]["sweeps_%d" % mode] = {
                "buffers": len(lines), "windows": sum(len(l["ref"]) for l in lines),
                "windows_in_property": sum(1 for l in lines for x in l["ref"] if x)}
    with gzip.open(os.path.join(HERE, "table.jsonl.gz"), "wt") as f:
        for e in table:
            f.write(json.dumps(e, separators=(",", ":")) + "\n")
    with gzip.open(os.path.join(HERE, "sweeps.jsonl.gz"), "wt") as f:
        for e in sweeps:
            f.write(json.dumps(e, separators=(",", ":")) + "\n")
    meta["counts"]["table_entries"] = len(table)
    with open(os.path.join(HERE, "meta.json"), "w") as f:
        json.dump(meta, f, indent=1)
    print(json.dumps(meta["counts"], indent=1))


if __name__ == "__main__":
    main()
