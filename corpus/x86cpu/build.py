#!/usr/bin/env python3
"""Build corpus/x86cpu/vectors.jsonl.gz: native executions of C06 test vectors on the host x86-64 processor.

    cd /verif && make setup && PYTHONPATH=/repo:/verif /venv/bin/python corpus/x86cpu/build.py [per_form] [seed]

TLC enumerates the forms (specs/X86Gen.tla); for every form `per_form` pre-states are concretised from the classes
TLC lists (harness/c06x86.concretise, seeded); .work/bin/x86run (harness/x86run.c) executes the bytes of the form
(corpus/x86enc) on each pre-state.  One JSON line per vector:
   k    key of the form (its Intel-syntax text; "jcc <cc> <rel>/<relsize>" for conditional jumps)
   r    rax rcx rdx rbx rsp rbp rsi rdi r8..r15 before (hex);  fl  rflags & 0xCD5 before;  m  the 64 scratch bytes
   c    what the processor produced: sig (0 or the signal), fl, r {index: hex} (changed registers only),
        m [[offset, hex]] (changed bytes only), rip (next rip - address of the instruction)
The check re-validates every line against specs/X86.tla (X86Trace: SpecStep(pre, form) = cpu), so a wrong line
or a wrong specification cannot go unnoticed.  The first line records the processor the corpus was taken on."""
import gzip
import json
import os
import random
import sys

HERE = os.path.dirname(os.path.abspath(__file__))
sys.path.insert(0, os.path.dirname(os.path.dirname(HERE)))
from harness import tlc, c06x86  # noqa: E402


def pack(v, c):
    if c["sig"]:
        cc = {"sig": c["sig"]}
    else:
        pm = bytes.fromhex(v["m"])
        cm = bytes.fromhex(c["m"])
        diffs = []
        k = 0
        while k < len(pm):
            if pm[k] != cm[k]:
                j = k
                while j < len(pm) and pm[j] != cm[j]:
                    j += 1
                diffs.append([k, cm[k:j].hex()])
                k = j
            else:
                k += 1
        cc = {"sig": 0, "fl": c["fl"], "r": dict((str(i), "%x" % c["r"][i]) for i in range(16) if c["r"][i] != v["r"][i]),
              "m": diffs, "rip": c["rip"]}
    return {"k": v["k"], "r": ["%x" % x for x in v["r"]], "fl": v["fl"], "m": v["m"], "c": cc}


def main():
    per = int(sys.argv[1]) if len(sys.argv) > 1 else 3
    seed = int(sys.argv[2]) if len(sys.argv) > 2 else 20260923
    if not c06x86.have_runner():
        raise SystemExit("no native runner (x86-64 host with gcc needed)")
    res = tlc.run("X86Gen", "X86Gen.cfg", tag="c06corpus", timeout=3000, workers=4)
    forms = sorted(res.printed, key=c06x86.form_key)
    enc = c06x86.load_enc()
    rng = random.Random(seed)
    vectors = []
    for rec in forms:
        for _ in range(per):
            v = c06x86.concretise(rec, rng, enc)
            if v:
                vectors.append(v)
    cpu = c06x86.native_parallel(vectors, 4)
    cpuinfo = ""
    try:
        for ln in open("/proc/cpuinfo"):
            if ln.startswith("model name"):
                cpuinfo = ln.split(":", 1)[1].strip()
                break
    except OSError:
        pass
    n = sigs = 0
    with gzip.GzipFile(os.path.join(HERE, "vectors.jsonl.gz"), "wb", mtime=0) as f:
        f.write((json.dumps({"meta": {"cpu": cpuinfo, "seed": seed, "per_form": per, "forms": len(forms)}}) + "\n").encode())
        for v, c in zip(vectors, cpu):
            if c is None or c["sig"] in (-1, -2) or c["sig"] >= 999:
                continue
            n += 1
            sigs += 1 if c["sig"] else 0
            f.write((json.dumps(pack(v, c), separators=(",", ":")) + "\n").encode())
    print("forms %d, vectors written %d (%d raised a signal) on %s" % (len(forms), n, sigs, cpuinfo))


if __name__ == "__main__":
    main()
