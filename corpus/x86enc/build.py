#!/usr/bin/env python3
"""Build corpus/x86enc/enc.json.gz: the bytes of every abstract form of specs/X86Gen.tla.

    cd /verif && /venv/bin/python corpus/x86enc/build.py

TLC enumerates the forms (X86Gen.cfg) and renders each one as Intel-syntax text (X86!AsmText); llvm-mc
(x86_64) assembles the texts; the table  text -> hex bytes  is vendored so that the check does not need
llvm-mc.  Jcc forms carry their bytes in the form itself and are not in the table.
That the bytes mean what the form says is not trusted: X86Trace validates native executions of the bytes
against X86!SpecStep of the form."""
import gzip
import json
import os
import re
import subprocess
import sys

HERE = os.path.dirname(os.path.abspath(__file__))
sys.path.insert(0, os.path.dirname(os.path.dirname(HERE)))
from harness import tlc  # noqa: E402


def assemble(texts):
    src = ".intel_syntax noprefix\n" + "\n".join(texts) + "\n"
    p = subprocess.run(["llvm-mc", "-triple=x86_64", "-show-encoding"], input=src.encode(), stdout=subprocess.PIPE,
                       stderr=subprocess.PIPE)
    bad = set(int(m.group(1)) - 2 for m in re.finditer(r"<stdin>:(\d+):\d+: error", p.stderr.decode()))
    encs = re.findall(r"encoding: \[([^\]]*)\]", p.stdout.decode())
    good = [t for i, t in enumerate(texts) if i not in bad]
    if len(encs) != len(good):
        raise SystemExit("llvm-mc: %d encodings for %d accepted lines\n%s" % (len(encs), len(good), p.stderr.decode()[:2000]))
    out = {}
    for t, e in zip(good, encs):
        if "A" in e:  # a fixup placeholder: not a closed encoding
            bad.add(texts.index(t))
            continue
        out[t] = "".join("%02x" % int(x, 16) for x in e.split(","))
    return out, [texts[i] for i in sorted(bad)]


def main():
    res = tlc.run("X86Gen", "X86Gen.cfg", tag="c06enc", timeout=3000)
    texts = sorted(set(r["asm"] for r in res.printed if r["asm"]))
    table, rejected = assemble(texts)
    ver = subprocess.run(["llvm-mc", "--version"], stdout=subprocess.PIPE).stdout.decode().split("\n")[0:2]
    doc = {"tool": " ".join(x.strip() for x in ver), "forms": len(res.printed), "texts": len(texts), "rejected": rejected, "enc": table}
    with gzip.GzipFile(os.path.join(HERE, "enc.json.gz"), "wb", mtime=0) as f:
        f.write(json.dumps(doc, sort_keys=True, indent=0).encode())
    print("forms %d, texts %d, encoded %d, rejected by llvm-mc %d" % (len(res.printed), len(texts), len(table), len(rejected)))
    for t in rejected[:40]:
        print("  rejected:", t)


if __name__ == "__main__":
    main()
