# setup: nothing is fetched; parse every TLA+ module with SANY so that a broken spec is caught early
PY=/venv/bin/python
include mk/c06.mk
setup: c06-setup
	@mkdir -p .work evidence
	@cd /verif && $(PY) tools/sany_all.py
manifest:
	@$(PY) tools/mkmanifest.py
.PHONY: setup manifest
