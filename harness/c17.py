"""C17 driver: the life of one input - decode, well-formedness projection, render in every syntax,
pickle round trip, apply to a fresh map - recorded as one trace per input for specs/DecoderTrace.tla.

The driver performs the calls and projects what comes back to plain data (attribute reads, type
classification); it decides nothing: DecoderTrace.tla (clauses Raised / Mnemonic / Type / Length /
Operands / PickleChanged / ...Outcome) does.
"""
import inspect
import pickle
import random
import sys

from . import dec_common as D


def syntaxes(isa):
    """every formatter the ISA ships: all Formatter objects / formatter functions of the formats module
    that defines the formatter installed on the instruction class"""
    from amoco.arch.core import Formatter, instruction
    cur = isa.dis.iclass.__dict__.get("formatter", None)
    if cur is None:
        cur = instruction.__dict__["formatter"]
    if isinstance(cur, staticmethod):
        cur = cur.__func__
    found = []
    for name, mod in sorted(sys.modules.items()):
        if mod is None or not (name.startswith("amoco.arch.") and name.endswith(".formats")):
            continue
        vs = vars(mod)
        if not any(v is cur for v in vs.values()):
            continue
        for k in sorted(vs):
            v = vs[k]
            ok = isinstance(v, Formatter) or (inspect.isfunction(v) and k.endswith(("_synthetic", "_full")))
            if ok and not any(v is f for _, f in found):
                found.append((k, v))
    if not any(f is cur for _, f in found):
        found.insert(0, ("default", cur))
    # the installed one first
    found.sort(key=lambda kf: 0 if kf[1] is cur else 1)
    return cur, found


class Driver(object):
    def __init__(self, isa_name, mode):
        self.isa = D.Isa(isa_name, mode)
        D.quiet()
        self.cap = D.LogCapture()
        self.regs = D.RegState(self.isa)
        self.cur, self.syn = syntaxes(self.isa)
        from amoco.cas.mapper import mapper
        self.mapper = mapper
        try:
            self.pcsize = self.isa.cpu.PC().size
        except Exception:
            self.pcsize = 32

    def life(self, b, all_syntaxes=True, stages=("render", "pickle", "apply")):
        """events of one input"""
        isa = self.isa
        ev = []
        i, o = D.decode(isa, b)
        if o["k"] == "raised":
            ev.append({"st": "decode", "k": "raised", "exc": o["exc"], "at": o["at"]})
            return ev
        if i is None:
            ev.append({"st": "decode", "k": "none"})
            return ev
        ev.append(decode_event(i))
        # the fetcher (system/core.py read_instruction) sets the address of what it decoded
        if i.address is None:
            try:
                i.address = isa.cpu.cst(0x1000, self.pcsize)
            except Exception:
                pass
        iclass = isa.dis.iclass
        try:
            for name, f in ((self.syn if all_syntaxes else self.syn[:1]) if "render" in stages else ()):
                iclass.set_formatter(f)
                r, exc = D.guarded(str, i)
                if exc is not None:
                    ev.append({"st": "render", "syn": name, "k": "raised", "exc": exc[0], "at": exc[1]})
                else:
                    ev.append({"st": "render", "syn": name, "k": "str" if isinstance(r, str) else type(r).__name__})
                r, exc = D.guarded(i.toks)
                if exc is not None:
                    ev.append({"st": "toks", "syn": name, "k": "raised", "exc": exc[0], "at": exc[1]})
                else:
                    ev.append({"st": "toks", "syn": name, "k": "list" if isinstance(r, list) else type(r).__name__})
        finally:
            iclass.set_formatter(self.cur)
        if "pickle" not in stages:
            return ev
        # pickle round trip
        fp0 = D.fingerprint(i, skip=())
        j, exc = D.guarded(lambda: pickle.loads(pickle.dumps(i)))
        if exc is not None:
            ev.append({"st": "pickle", "k": "raised", "exc": exc[0], "at": exc[1]})
        else:
            ok = type(j) is type(i)
            ev.append({"st": "pickle", "k": "ok" if ok else "othertype", "fp0": fp0,
                       "fp1": D.fingerprint(j, skip=()) if ok else ""})
        if "apply" not in stages:
            return ev
        # apply to a fresh map
        self.cap.take()
        m = self.mapper()
        _, exc = D.guarded(i, m)
        msgs = self.cap.take()
        if exc is not None:
            ev.append({"st": "apply", "k": "raised", "exc": exc[0], "at": exc[1], "at0": exc[2]})
        else:
            missing = any(("not implemented" in t) or ("no uarch defined" in t) for _, t in msgs)
            ev.append({"st": "apply", "k": "logged" if missing else "updated"})
        isa.reset_mode()
        self.regs.restore()
        return ev


MAX_TIMEOUTS_PER_SPEC = 2


def gen_inputs(isa, rng, specs, fillings, nrandom):
    """(source label, bytes) pairs: every spec x filling, then purely random strings"""
    out = []
    for si, s in specs:
        for f in fillings:
            if f == "pfxsib":
                # structured: every prefix class x SIB/displacement forms (prefix ISAs only)
                for tag, b in D.prefixed_sib_inputs(isa, s, si, rng):
                    out.append(("spec:%d:%s" % (si, tag), b))
                continue
            wp = isa.has_prefix and f.endswith("+p")
            fill = f[:-2] if f.endswith("+p") else f
            out.append(("spec:%d:%s" % (si, f), D.spec_inputs(isa, s, rng, fill, with_prefix=wp)))
    for k in range(nrandom):
        n = rng.choice((0, 1, 1, 2, 3, 4, 4, 6, 8, isa.maxlen, isa.maxlen + 3))
        out.append(("random:%d" % k, bytes(rng.getrandbits(8) for _ in range(n))))
    return out


def run_chunk(args):
    """worker: (isa, mode, lo, hi, fillings, nrandom, seed, all_syntaxes) -> list of traces"""
    isa_name, mode, lo, hi, fillings, nrandom, seed, all_syn = args
    D.watchdog_init()
    D.mute_stdout()
    try:
        drv = Driver(isa_name, mode)
    except Exception as ex:
        return {"isa": isa_name, "mode": mode, "import_error": "%s: %s" % (type(ex).__name__, ex), "traces": []}
    isa = drv.isa
    rng = random.Random("%s/%s/%d/%d" % (isa_name, mode, lo, seed))
    specs = list(enumerate(isa.specs()))[lo:hi]
    traces = []
    hung = {}       # spec -> number of inputs that ran into the watchdog
    skipped = 0
    for src, b in gen_inputs(isa, rng, specs, fillings, nrandom):
        sp = src.rsplit(":", 1)[0]
        if hung.get(sp, 0) >= MAX_TIMEOUTS_PER_SPEC:
            skipped += 1        # two inputs of this spec already did not come back: do not pay for more
            continue
        ev = drv.life(b, all_syn)
        if any(e.get("exc") == "Timeout" for e in ev):
            hung[sp] = hung.get(sp, 0) + 1
        traces.append({"kind": "c17", "m": "%s/%s" % (isa_name, mode), "src": src, "in": list(b), "ev": ev})
    return {"isa": isa_name, "mode": mode, "nspecs": len(isa.specs()), "syntaxes": [n for n, _ in drv.syn],
            "traces": traces, "skipped_after_timeouts": skipped}


def spec_count(args):
    isa_name, mode = args
    try:
        isa = D.Isa(isa_name, mode)
        return (isa_name, mode, len(isa.specs()), None)
    except Exception as ex:
        return (isa_name, mode, 0, "%s: %s" % (type(ex).__name__, ex))


def deep_chunk(args):
    """discovery aid (harness/dec_findings.py --deep): decode + render only, many fillings per spec;
    returns one example trace per distinct (stage, outcome kind, exception, call site, wf projection)"""
    isa_name, mode, lo, hi, fillings, seed = args
    D.watchdog_init()
    D.mute_stdout()
    drv = Driver(isa_name, mode)
    isa = drv.isa
    rng = random.Random("deep/%s/%s/%d/%d" % (isa_name, mode, lo, seed))
    specs = list(enumerate(isa.specs()))[lo:hi]
    seen = {}
    n = 0
    for src, b in gen_inputs(isa, rng, specs, fillings, 0):
        n += 1
        ev = drv.life(b, True, stages=("render",))
        for k, e in enumerate(ev):
            sig = (e["st"], e["k"], e.get("exc"), e.get("at"), e.get("hook"), tuple(e.get("opk", ())),
                   e.get("mnstr"), e.get("mnlen", 1) >= 1, e.get("type", 0) in range(-1, 6), e.get("len", 1) >= 1)
            if sig not in seen and (e["k"] == "raised" or e["st"] == "decode"):
                seen[sig] = {"kind": "c17", "m": "%s/%s" % (isa_name, mode), "src": src, "in": list(b), "ev": ev, "line": k + 1}
    return {"n": n, "traces": list(seen.values())}


def timed_chunk(args):
    import time
    t0 = time.process_time()
    o = run_chunk(args)
    return (args[0], args[1], time.process_time() - t0, len(o["traces"]))


COPICKLE_PAIRS = [(("x86", "m32"), ("x64", "m64")), (("dwarf", "dw"), ("wasm", "wasm")),
                  (("rv32i", "rv32"), ("rv64i", "rv64")), (("z80", "z80"), ("gb", "gb"))]


def decode_event(i):
    mn = i.mnemonic
    ops = i.operands
    return {"st": "decode", "k": "instr",
            "mnstr": 1 if isinstance(mn, str) else 0,
            "mnlen": len(mn) if isinstance(mn, str) else 0,
            "mn": mn if isinstance(mn, str) else "",
            "type": i.type if isinstance(i.type, int) and not isinstance(i.type, bool) else 99,
            "len": i.length,
            "opsl": 1 if isinstance(ops, (list, tuple)) else 0,
            "opk": D.operand_kinds(i),
            "hook": getattr(getattr(i.spec, "hook", None), "__name__", "?")}


def _text(i):
    """the rendering of the instruction in the installed syntax, as a short digest (str(i) IS the thing
    observed here: the copy must render like the original)"""
    import hashlib
    r, exc = D.guarded(str, i)
    if exc is not None:
        return "raised:%s@%s" % (exc[0], exc[1])
    return hashlib.sha1(r.encode("utf-8", "replace")).hexdigest()[:16] if isinstance(r, str) else "not-a-str"


def copickle_task(args):
    """two ISA modules whose specification tables share format strings live in ONE process (a saved session
    holds instructions of several ISAs): instructions of both are pickled, the pickles are loaded back in
    interleaved order, and every copy is compared (fingerprint incl. the spec's hook module, rendering) with
    its original.  One trace per instruction: decode event + pickle event."""
    (na, ma), (nb, mb), fillings, seed = args
    D.watchdog_init()
    D.mute_stdout()
    A, B = D.Isa(na, ma), D.Isa(nb, mb)
    D.quiet()
    rng = random.Random("copickle/%s/%s/%d" % (na, nb, seed))
    items = {}
    for isa, other in ((A, nb), (B, na)):
        lst = []
        for src, b in gen_inputs(isa, rng, list(enumerate(isa.specs())), fillings, 0):
            i, o = D.decode(isa, b)
            if i is None:
                continue
            if i.address is None:
                try:
                    i.address = isa.cpu.cst(0x1000, isa.cpu.PC().size)
                except Exception:
                    pass
            blob, exc = D.guarded(pickle.dumps, i)
            lst.append({"m": "%s/%s+%s" % (isa.name, isa.mode, other), "src": src, "in": list(b), "dec": decode_event(i),
                        "fp0": D.fingerprint(i, skip=()), "tx0": _text(i), "blob": blob, "exc": exc})
        items[isa.name] = lst
    # load back, alternating between the two ISAs
    la, lb = items[na], items[nb]
    order = []
    for k in range(max(len(la), len(lb))):
        if k < len(la):
            order.append(la[k])
        if k < len(lb):
            order.append(lb[k])
    traces = []
    for it in order:
        if it["exc"] is not None:
            pe = {"st": "pickle", "k": "raised", "exc": it["exc"][0], "at": it["exc"][1]}
        else:
            j, exc = D.guarded(pickle.loads, it["blob"])
            if exc is not None:
                pe = {"st": "pickle", "k": "raised", "exc": exc[0], "at": exc[1]}
            else:
                pe = {"st": "pickle", "k": "ok", "fp0": it["fp0"], "fp1": D.fingerprint(j, skip=()),
                      "tx0": it["tx0"], "tx1": _text(j)}
        traces.append({"kind": "c17", "m": it["m"], "src": "copickle:" + it["src"], "in": it["in"], "ev": [it["dec"], pe]})
    return {"pair": "%s+%s" % (na, nb), "traces": traces}


def replay_one(args):
    """re-execute one recorded input on the current tree (./check C17 --replay)"""
    isa_name, mode, hx = args
    D.watchdog_init()
    D.mute_stdout()
    drv = Driver(isa_name, mode)
    b = bytes.fromhex(hx)
    return {"kind": "c17", "m": "%s/%s" % (isa_name, mode), "src": "replay", "in": list(b), "ev": drv.life(b, True)}
