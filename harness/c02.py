"""C02, code -> spec (T): drive real ISA semantics through the two routes and record what amoco returns.

  route A   concrete, step by step:  s = fresh copy of sigma0;  i_1(s); ...; i_k(s)
  route X   the same with the no-aliasing switch forced on (all addresses of a concrete run are constants,
            so this is the exact concrete machine); recorded only when the case runs with aliasing allowed
  route B   symbolic map of the prefix, then applied:  m = mapper(); i_1(m); ...; i_k(m);  sb = sigma0 >> m
  route E   the other application operator:  m.eval(sigma0)   (registers only)

for every prefix k of a random instruction sequence (1..8 instructions built from the shipped specs of the
ISA).  Every run uses freshly decoded instruction objects, a freshly built sigma0 (new constant objects) and
starts from sf=False on the architectural registers and the selected decode-mode globals, so that no route
sees state left by another one.  Nothing is judged here: the recorded trace is validated by TLC
(specs/LockstepTrace.tla)."""
import json
import random

from . import ser, c02isa

MAXCAND = 48          # touched memory bytes observed per case (first ones, sorted by address)
MAXTREE = 1500        # nodes: larger symbolic maps are recorded without their trees (clause RefEval skipped)


def lim(v, w):
    return ser.limbs(v, w)


def exc_name(e):
    return type(e).__name__


def strip(t):
    """tree without flags / identities (used to group syntactically equal pointer bases)"""
    if isinstance(t, dict):
        return dict((k, strip(v)) for k, v in t.items() if k not in ("sf", "id"))
    if isinstance(t, list):
        return [strip(x) for x in t]
    return t


def tree_size(t):
    if isinstance(t, dict):
        return 1 + sum(tree_size(v) for v in t.values())
    if isinstance(t, list):
        return sum(tree_size(x) for x in t)
    return 0


def mem_leaves(t, out):
    """every mem node of a serialised tree (plain-data walk)"""
    if isinstance(t, dict):
        if t.get("k") == "mem":
            out.append(t)
        for v in t.values():
            mem_leaves(v, out)
    elif isinstance(t, list):
        for x in t:
            mem_leaves(x, out)


class Case(object):
    """one instruction sequence + one start state + one configuration"""

    def __init__(self, isa, rng, tid, noal, mt, variant, deep, nmax=8, want=None):
        self.isa, self.rng, self.tid = isa, rng, tid
        self.noal, self.mt, self.variant, self.deep = noal, mt, variant, deep
        self.nmax = nmax
        self.want = want or []

    # -- configuration ----------------------------------------------------------------------------
    def configure(self, noal=None):
        from amoco.config import conf
        conf.Cas.noaliasing = bool(self.noal if noal is None else noal)
        conf.Cas.memtrace = bool(self.mt)
        conf.Cas.complexity = 0
        self.isa.set_variant(self.variant)
        self.isa.reset_sf()

    def decode_all(self, k):
        out = []
        pc = self.isa.pc()
        for b in self.code[:k]:
            self.isa.reset_globals()
            i = self.isa.decode(b)
            if i is None:
                raise RuntimeError("instruction no longer decodes")
            out.append(i)
        self.isa.reset_globals()
        return out

    # -- observation ------------------------------------------------------------------------------
    def observe_regs(self, s):
        out = []
        for r in self.obsregs:
            try:
                v = s(r)
            except Exception as e:
                out.append({"n": str(r.ref), "w": r.size, "c": 2, "v": [0], "x": exc_name(e)})
                continue
            if ser.kind(v) == "cst" and v.size == r.size:
                out.append({"n": str(r.ref), "w": r.size, "c": 1, "v": lim(v.v, r.size)})
            else:
                out.append({"n": str(r.ref), "w": r.size, "c": 0, "v": [0]})
        return out

    def observe_mem(self, s, cands):
        from amoco.cas.expressions import mem, cst
        out = []
        psz = self.psz
        for a in cands:
            try:
                v = s[mem(cst(a, psz), 8)]
            except Exception as e:
                out.append({"a": lim(a, psz), "c": 2, "v": 0, "x": exc_name(e)})
                continue
            if ser.kind(v) == "cst":
                out.append({"a": lim(a, psz), "c": 1, "v": v.v & 0xFF})
            else:
                out.append({"a": lim(a, psz), "c": 0, "v": 0})
        return out

    def touched(self, s):
        """addresses (zone of constant addresses) whose content is not the raw byte sigma0 holds there"""
        out = set()
        z = s.mmap._zones.get(None)
        if z is None:
            return out
        for o in z._map:
            lo, hi = o.vaddr, o.end
            val = o.data.val
            if isinstance(val, (bytes, bytearray)):
                for j, b in enumerate(val):
                    a = lo + j
                    if self.mem0.get(a) != b:
                        out.add(a)
                    if len(out) > 4096:
                        return out
            else:
                for a in range(lo, min(hi, lo + 64)):
                    out.add(a)
        return out

    def accesses(self, m, trees):
        """symbolic pointer accesses of the map m: every object of every memory zone, every pointer key of
        the map and every mem leaf of the trees, as (base group, base tree, displacement, length)"""
        acc = []
        groups = {}

        def gid(bt):
            key = json.dumps(strip(bt), sort_keys=True)
            if key not in groups:
                groups[key] = len(groups) + 1
            return groups[key]

        none = {"k": "none", "w": self.psz, "sf": 0}
        for base, z in m.mmap._zones.items():
            bt = none if base is None else ser.tree(base)
            w = self.psz if base is None else base.size
            for o in z._map:
                acc.append({"z": gid(bt), "base": bt, "dv": ser.bits(o.vaddr, w), "n": max(1, o.end - o.vaddr)})
        leaves = []
        for t in trees:
            mem_leaves(t, leaves)
        for lf in leaves:
            a = lf.get("a", {})
            if a.get("k") != "ptr":
                continue
            bt = a["base"]
            if bt.get("k") == "cst":
                # constant base: the absolute address is base + displacement, zone of constant addresses
                w = bt["w"]
                v = (ser.unbits(bt["v"]) + ser.unbits(a["dv"])) & ((1 << w) - 1)
                acc.append({"z": gid(none), "base": none, "dv": ser.bits(v, w), "n": max(1, lf["w"] // 8)})
            else:
                acc.append({"z": gid(bt), "base": bt, "dv": a["dv"], "n": max(1, lf["w"] // 8)})
        return acc

    # -- the routes -------------------------------------------------------------------------------
    def route_concrete(self, k, exact):
        """returns (raised, state)"""
        self.configure(noal=True if exact else None)
        try:
            seq = self.decode_all(k)
            s = self.isa.build_state(self.plan, self.regobjs)
            for i in seq:
                i(s)
            return "", s
        except Exception as e:
            return exc_name(e), None

    def route_symbolic(self, k):
        """returns (raised, map, applied state, eval'd map)"""
        from amoco.cas.mapper import mapper
        self.configure()
        try:
            seq = self.decode_all(k)
            m = mapper()
            for i in seq:
                i(m)
        except Exception as e:
            return "build:" + exc_name(e), None, None, None
        try:
            s0 = self.isa.build_state(self.plan, self.regobjs)
            sb = s0 >> m
        except Exception as e:
            return "apply:" + exc_name(e), m, None, None
        try:
            s0 = self.isa.build_state(self.plan, self.regobjs)
            se = m.eval(s0)
        except Exception as e:
            se = "eval:" + exc_name(e)
        return "", m, sb, se

    # -- one case ---------------------------------------------------------------------------------
    def run(self):
        isa, rng = self.isa, self.rng
        self.configure()
        n = rng.randrange(1, self.nmax + 1)
        self.code, self.mnem = [], []
        for j in range(n):
            want = self.want[j] if j < len(self.want) else None
            if want is None and isa.mn_sem and rng.random() < 0.85:
                want = rng.choice(isa.mn_sem)
            d = isa.draw_instruction(rng, want)
            if d is None:
                continue
            self.code.append(d[0])
            self.mnem.append(str(d[1]))
        if not self.code:
            return None
        n = len(self.code)
        # registers met in operands (bound too, when the env namespace is too large to bind everything)
        extra = []
        try:
            from amoco.cas.expressions import symbols_of
            for i in self.decode_all(n):
                for o in i.operands:
                    if ser.is_exp(o):
                        try:
                            extra += [x for x in symbols_of(o) if x._is_reg]
                        except Exception:
                            pass
        except Exception:
            pass
        self.psz = isa.pointer_size()
        self.plan = isa.plan_state(rng, extra, overlap=(not self.noal) and rng.random() < 0.5)
        bases = isa.base_registers(extra)
        self.regobjs = dict((str(r.ref), r) for r in bases)
        self.mem0 = {}
        for start, data in self.plan["mem"]:
            for j, b in enumerate(data):
                self.mem0[start + j] = b
        self.obsregs = None
        # run every prefix on every route, keep the final objects for observation
        runs = []
        for k in range(1, n + 1):
            ra, sa = self.route_concrete(k, exact=False)
            if not self.noal:
                rx, sx = self.route_concrete(k, exact=True)
            else:
                rx, sx = ra, None
            rb, m, sb, se = self.route_symbolic(k)
            runs.append((k, ra, sa, rx, sx, rb, m, sb, se))
            if ra or rb or rx:
                break
        # observed registers: cpu.registers as shipped + every register some prefix map writes
        obs, seen = [], set()
        written = []
        for run in runs:
            m = run[6]
            if m is None:
                continue
            try:
                for loc, _v in m:
                    if loc._is_reg:
                        written.append(loc)
            except Exception:
                pass
        for r in isa.registers() + written:
            if str(r.ref) in seen:
                continue
            seen.add(str(r.ref))
            obs.append(r)
        self.obsregs = obs[:120]
        cands = set()
        for (k, ra, sa, rx, sx, rb, m, sb, se) in runs:
            for s in (sa, sx, sb):
                if s is not None:
                    cands |= self.touched(s)
        ncand = len(cands)
        cands = sorted(cands)[:MAXCAND]
        steps = []
        for (k, ra, sa, rx, sx, rb, m, sb, se) in runs:
            st = {"k": k, "ra": ra, "rb": rb, "rx": rx, "deep": 0}
            st["A"] = self.observe_regs(sa) if sa is not None else []
            st["mA"] = self.observe_mem(sa, cands) if sa is not None else []
            st["X"] = self.observe_regs(sx) if sx is not None else []
            st["mX"] = self.observe_mem(sx, cands) if sx is not None else []
            st["B"] = self.observe_regs(sb) if sb is not None else []
            st["mB"] = self.observe_mem(sb, cands) if sb is not None else []
            if isinstance(se, str):
                st["re"] = se
                st["E"] = []
            else:
                st["re"] = ""
                st["E"] = self.observe_regs(se) if se is not None else []
            st["map"] = []
            st["acc"] = []
            st["accok"] = 1
            if m is not None:
                items = []
                try:
                    for loc, v in m:
                        items.append({"loc": ser.tree(loc), "val": ser.tree(v)})
                except Exception:
                    items = []
                trees = [x["val"] for x in items] + [x["loc"] for x in items]
                if self.noal:
                    try:
                        st["acc"] = self.accesses(m, trees)
                    except Exception:
                        st["acc"] = []
                        st["accok"] = 0
                if self.deep and tree_size(items) <= MAXTREE:
                    st["map"] = items
                    st["deep"] = 1
            steps.append(st)
        return {"t": self.tid, "isa": isa.name, "variant": self.variant, "en": 1 if isa.data_endian == 1 else 0,
                "noal": 1 if self.noal else 0, "mt": 1 if self.mt else 0,
                "regs0": [{"n": nm, "w": w, "v": lim(v, w)} for nm, w, v in self.plan["regs"]],
                "mem0": [{"s": s, "b": b} for s, b in self.plan["mem"]],
                "seq": self.mnem, "code": [list(b) for b in self.code], "ncand": ncand,
                "steps": steps}


def make_cases(args):
    """worker: (isa name, seed, first trace id, number of cases, deep ratio, configs) -> list of traces"""
    name, seed, tid0, ncases, deep_every, configs, wants = args
    c02isa.quiet()
    rng = random.Random(seed)
    isa = c02isa.Isa(name)
    out = []
    vs = [v[0] for v in isa.variants]
    for j in range(ncases):
        noal, mt = configs[j % len(configs)]
        variant = vs[(j // len(configs)) % len(vs)]
        deep = 1 if deep_every and (j % deep_every == 0) else 0
        want = wants[j] if wants and j < len(wants) else None
        c = Case(isa, rng, tid0 + j, noal, mt, variant, deep, want=want)
        try:
            t = c.run()
        except Exception as e:     # the harness itself (not amoco under a route) failed: keep it visible
            t = {"t": tid0 + j, "isa": name, "harness_error": "%s: %s" % (type(e).__name__, e)}
        if t is not None:
            out.append(t)
    return out
