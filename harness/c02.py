"""C02, code -> spec (T): drive real ISA semantics through the two routes and record what amoco returns.

  route A   concrete, step by step:  s = fresh copy of sigma0;  i_1(s); ...; i_k(s)
  route X   the same with the no-aliasing switch forced on (all addresses of a concrete run are constants,
            so this is the exact concrete machine); recorded only when the case runs with aliasing allowed
  route B   symbolic map of the prefix, then applied:  m = mapper(); i_1(m); ...; i_k(m);  sb = sigma0 >> m
  route E   the other application operator:  m.eval(sigma0)   (registers only)

for every prefix k of a random instruction sequence (1..8 instructions built from the shipped specs of the
ISA).  Every run uses freshly decoded instruction objects, a freshly built sigma0 (new constant objects) and
starts from sf=False on the architectural registers and the selected decode-mode globals, so that no route
sees state left by another one.  Nothing is judged here: the recorded trace is validated by TLC
(specs/LockstepTrace.tla)."""
import json
import random
import signal

from . import ser, c02isa

CPU_LIMIT = 20        # seconds of CPU time one route of one prefix may take (a hang is an observation, not a harness crash)


class RouteTimeout(Exception):
    pass


def _on_timer(signum, frame):
    raise RouteTimeout("route exceeded %d s of CPU time" % CPU_LIMIT)


class limit(object):
    """CPU-time limit around one route (ITIMER_VIRTUAL: only this process' own user time counts)"""

    def __enter__(self):
        try:
            self.old = signal.signal(signal.SIGVTALRM, _on_timer)
            signal.setitimer(signal.ITIMER_VIRTUAL, CPU_LIMIT)
            self.on = True
        except (ValueError, AttributeError):      # not in the main thread
            self.on = False
        return self

    def __exit__(self, *a):
        if self.on:
            signal.setitimer(signal.ITIMER_VIRTUAL, 0)
            signal.signal(signal.SIGVTALRM, self.old)
        return False

MAXCAND = 48          # touched memory bytes observed per case (first ones, sorted by address)
MAXTREE = 1500        # nodes: larger symbolic maps are recorded without their trees (clause RefEval skipped)


def lim(v, w):
    return ser.limbs(v, w)


def exc_name(e):
    return type(e).__name__


def strip(t):
    """tree without flags / identities (used to group syntactically equal pointer bases)"""
    if isinstance(t, dict):
        return dict((k, strip(v)) for k, v in t.items() if k not in ("sf", "id"))
    if isinstance(t, list):
        return [strip(x) for x in t]
    return t


def tree_size(t):
    if isinstance(t, dict):
        return 1 + sum(tree_size(v) for v in t.values())
    if isinstance(t, list):
        return sum(tree_size(x) for x in t)
    return 0


def mem_leaves(t, out):
    """every mem node of a serialised tree (plain-data walk)"""
    if isinstance(t, dict):
        if t.get("k") == "mem":
            out.append(t)
        for v in t.values():
            mem_leaves(v, out)
    elif isinstance(t, list):
        for x in t:
            mem_leaves(x, out)


def expr_size(e, limit, depth=0):
    """number of nodes of an amoco expression seen as a TREE (shared sub-terms counted every time, as a
    serialisation would expand them), cut off at `limit`: nested `mods` of loads grow exponentially, and
    a map that large is recorded without its trees.  Attribute reads only."""
    if limit <= 0 or depth > 150:
        return 1 << 30
    if not ser.is_exp(e):
        return 1
    n = 1
    k = ser.kind(e)
    subs = []
    if k == "slc":
        subs = [e.x]
    elif k == "comp":
        subs = list(e.parts.values())
    elif k == "tst":
        subs = [e.tst, e.l, e.r]
    elif k == "op":
        subs = [e.l, e.r]
    elif k == "uop":
        subs = [e.r]
    elif k == "ptr":
        subs = [e.base]
    elif k == "mem":
        subs = [e.a]
        for (l, v) in (e.mods or []):
            subs.append(l)
            subs.append(v)
    elif k == "vec":
        subs = list(e.l)
    for x in subs:
        n += expr_size(x, limit - n, depth + 1)
        if n > limit:
            return 1 << 30
    return n


class Case(object):
    """one instruction sequence + one start state + one configuration"""

    def __init__(self, isa, rng, tid, noal, mt, variant, deep, nmax=8, want=None):
        self.isa, self.rng, self.tid = isa, rng, tid
        self.noal, self.mt, self.variant, self.deep = noal, mt, variant, deep
        self.nmax = nmax
        self.want = want or []

    # -- configuration ----------------------------------------------------------------------------
    def configure(self, noal=None):
        from amoco.config import conf
        conf.Cas.noaliasing = bool(self.noal if noal is None else noal)
        conf.Cas.memtrace = bool(self.mt)
        conf.Cas.complexity = 0
        self.isa.set_variant(self.variant)
        self.isa.reset_sf()

    def decode_all(self, k):
        out = []
        pc = self.isa.pc()
        for b in self.code[:k]:
            self.isa.reset_globals()
            i = self.isa.decode(b)
            if i is None:
                raise RuntimeError("instruction no longer decodes")
            out.append(i)
        self.isa.reset_globals()
        return out

    # -- observation ------------------------------------------------------------------------------
    def observe_regs(self, s):
        out = []
        for r in self.obsregs:
            try:
                v = s(r)
            except Exception as e:
                out.append({"n": str(r.ref), "w": r.size, "c": 2, "v": [0], "x": exc_name(e)})
                continue
            if ser.kind(v) == "cst" and v.size == r.size:
                out.append({"n": str(r.ref), "w": r.size, "c": 1, "v": lim(v.v, r.size)})
            else:
                out.append({"n": str(r.ref), "w": r.size, "c": 0, "v": [0]})
        return out

    def observe_mem(self, s, cands):
        from amoco.cas.expressions import mem, cst
        out = []
        psz = self.psz
        for a in cands:
            try:
                v = s[mem(cst(a, psz), 8)]
            except Exception as e:
                out.append({"a": lim(a, psz), "c": 2, "v": 0, "x": exc_name(e)})
                continue
            if ser.kind(v) == "cst":
                out.append({"a": lim(a, psz), "c": 1, "v": v.v & 0xFF})
            else:
                out.append({"a": lim(a, psz), "c": 0, "v": 0})
        return out

    def touched(self, s):
        """addresses (zone of constant addresses) whose content is not the raw byte sigma0 holds there"""
        out = set()
        z = s.mmap._zones.get(None)
        if z is None:
            return out
        for o in z._map:
            lo, hi = o.vaddr, o.end
            val = o.data.val
            if isinstance(val, (bytes, bytearray)):
                for j, b in enumerate(val):
                    a = lo + j
                    if self.mem0.get(a) != b:
                        out.add(a)
                    if len(out) > 4096:
                        return out
            else:
                for a in range(lo, min(hi, lo + 64)):
                    out.add(a)
        return out

    def accesses(self, m, trees):
        """symbolic pointer accesses of the map m: every object of every memory zone, every pointer key of
        the map and every mem leaf of the trees, as (base group, base tree, displacement, length)"""
        acc = []
        groups = {}

        def gid(bt):
            key = json.dumps(strip(bt), sort_keys=True)
            if key not in groups:
                groups[key] = len(groups) + 1
            return groups[key]

        none = {"k": "none", "w": self.psz, "sf": 0}
        for base, z in m.mmap._zones.items():
            bt = none if base is None else ser.tree(base)
            w = self.psz if base is None else base.size
            for o in z._map:
                acc.append({"z": gid(bt), "base": bt, "dv": ser.bits(o.vaddr, w), "n": max(1, o.end - o.vaddr)})
        leaves = []
        for t in trees:
            mem_leaves(t, leaves)
        for lf in leaves:
            a = lf.get("a", {})
            if a.get("k") != "ptr":
                continue
            bt = a["base"]
            if bt.get("k") == "cst":
                # constant base: the absolute address is base + displacement, zone of constant addresses
                w = bt["w"]
                v = (ser.unbits(bt["v"]) + ser.unbits(a["dv"])) & ((1 << w) - 1)
                acc.append({"z": gid(none), "base": none, "dv": ser.bits(v, w), "n": max(1, lf["w"] // 8)})
            else:
                acc.append({"z": gid(bt), "base": bt, "dv": a["dv"], "n": max(1, lf["w"] // 8)})
        return acc

    # -- the routes -------------------------------------------------------------------------------
    def route_concrete(self, k, exact):
        """returns (raised, state)"""
        self.configure(noal=True if exact else None)
        try:
            with limit():
                seq = self.decode_all(k)
                s = self.isa.build_state(self.plan, self.regobjs)
                for i in seq:
                    i(s)
            self.gA = self.isa.globals_snapshot()
            return "", s
        except Exception as e:
            self.gA = self.isa.globals_snapshot()
            return exc_name(e), None

    def route_symbolic(self, k):
        """returns (raised, map, applied state, eval'd map)"""
        from amoco.cas.mapper import mapper
        self.configure()
        try:
            with limit():
                seq = self.decode_all(k)
                m = mapper()
                for i in seq:
                    i(m)
            self.gB = self.isa.globals_snapshot()
        except Exception as e:
            self.gB = self.isa.globals_snapshot()
            return "build:" + exc_name(e), None, None, None
        try:
            with limit():
                s0 = self.isa.build_state(self.plan, self.regobjs)
                sb = s0 >> m
        except Exception as e:
            return "apply:" + exc_name(e), m, None, None
        try:
            with limit():
                s0 = self.isa.build_state(self.plan, self.regobjs)
                se = m.eval(s0)
        except Exception as e:
            se = "eval:" + exc_name(e)
        return "", m, sb, se

    # -- one case ---------------------------------------------------------------------------------
    def draw(self):
        """choose the instruction sequence and the start state (everything random happens here)"""
        isa, rng = self.isa, self.rng
        self.configure()
        n = len(self.want) if self.want else rng.randrange(1, self.nmax + 1)
        self.code, self.mnem = [], []
        for j in range(n):
            want = self.want[j] if j < len(self.want) else None
            if want is None and isa.mn_sem and rng.random() < 0.85:
                want = rng.choice(isa.mn_sem)
            d = isa.draw_instruction(rng, want)
            if d is None:
                continue
            self.code.append(d[0])
            self.mnem.append(str(d[1]))
        if not self.code:
            return False
        extra = self.operand_regs()[0]
        self.plan = isa.plan_state(rng, extra, overlap=(not self.noal) and rng.random() < 0.5)
        return True

    def operand_regs(self):
        """registers met in the operands of the sequence (bound too, when the env namespace is too large
        to bind everything), and their names per instruction"""
        extra, per = [], []
        try:
            from amoco.cas.expressions import symbols_of
            for i in self.decode_all(len(self.code)):
                names = []
                for o in i.operands:
                    if ser.is_exp(o):
                        try:
                            for x in symbols_of(o):
                                if x._is_reg:
                                    extra.append(x)
                                    names.append(str(x.ref))
                        except Exception:
                            pass
                per.append(sorted(set(names)))
        except Exception:
            pass
        return extra, per

    @classmethod
    def from_trace(cls, isa, t, deep=None):
        """the case recorded in trace t (same bytes, same start state, same configuration)"""
        c = cls(isa, None, t["t"], t["noal"], t["mt"], t["variant"], t.get("deepflag", 0) if deep is None else deep)
        c.code = [bytes(b) for b in t["code"]]
        c.mnem = list(t["seq"])
        c.plan = {"regs": [[r["n"], r["w"], ser.unlimbs(r["v"])] for r in t["regs0"]],
                  "mem": [[m["s"], list(m["b"])] for m in t["mem0"]]}
        return c

    def run(self):
        if not self.draw():
            return None
        return self.execute()

    def execute(self):
        isa = self.isa
        self.configure()
        n = len(self.code)
        extra, opnames = self.operand_regs()
        self.psz = isa.pointer_size()
        bases = isa.base_registers(extra)
        self.regobjs = dict((str(r.ref), r) for r in bases)
        for o in isa.arch_objects():
            if o._is_reg and str(o.ref) not in self.regobjs:
                self.regobjs[str(o.ref)] = o
        self.mem0 = {}
        for start, data in self.plan["mem"]:
            for j, b in enumerate(data):
                self.mem0[start + j] = b
        self.obsregs = None
        # run every prefix on every route, keep the final objects for observation
        runs = []
        glob = {}
        for k in range(1, n + 1):
            ra, sa = self.route_concrete(k, exact=False)
            ga = self.gA
            if not self.noal:
                rx, sx = self.route_concrete(k, exact=True)
            else:
                rx, sx = ra, None
            rb, m, sb, se = self.route_symbolic(k)
            glob[k] = (ga, self.gB)
            runs.append((k, ra, sa, rx, sx, rb, m, sb, se))
            if ra or rb or rx:
                break
        # observed registers: cpu.registers as shipped + every register some prefix map writes
        obs, seen = [], set()
        written = []
        for run in runs:
            m = run[6]
            if m is None:
                continue
            try:
                for loc, _v in m:
                    if loc._is_reg:
                        written.append(loc)
            except Exception:
                pass
        for r in isa.registers() + written:
            if str(r.ref) in seen:
                continue
            seen.add(str(r.ref))
            obs.append(r)
        self.obsregs = obs[:120]
        cands = set()
        for (k, ra, sa, rx, sx, rb, m, sb, se) in runs:
            for s in (sa, sx, sb):
                if s is not None:
                    cands |= self.touched(s)
        ncand = len(cands)
        cands = sorted(cands)[:MAXCAND]
        steps = []
        for (k, ra, sa, rx, sx, rb, m, sb, se) in runs:
            st = {"k": k, "ra": ra, "rb": rb, "rx": rx, "deep": 0, "gA": glob[k][0], "gB": glob[k][1]}

            def obs(route, fn, *a):
                # reading a value back is an API call too: it may raise or hang, which is then what the route did
                try:
                    with limit():
                        return fn(*a)
                except Exception as e:
                    if not st[route]:
                        st[route] = "observe:" + exc_name(e)
                    return []
            st["A"] = obs("ra", self.observe_regs, sa) if sa is not None else []
            st["mA"] = obs("ra", self.observe_mem, sa, cands) if sa is not None else []
            st["X"] = obs("rx", self.observe_regs, sx) if sx is not None else []
            st["mX"] = obs("rx", self.observe_mem, sx, cands) if sx is not None else []
            st["B"] = obs("rb", self.observe_regs, sb) if sb is not None else []
            st["mB"] = obs("rb", self.observe_mem, sb, cands) if sb is not None else []
            if isinstance(se, str):
                st["re"] = se
                st["E"] = []
            else:
                st["re"] = ""
                st["E"] = obs("re", self.observe_regs, se) if se is not None else []
            if st["ra"] or st["rb"] or st["rx"]:
                for f in ("A", "mA", "X", "mX", "B", "mB", "E"):
                    st[f] = []
            st["map"] = []
            st["acc"] = []
            st["accok"] = 1
            if m is not None and (self.noal or self.deep):
                items = []
                small = True
                try:
                    budget = MAXTREE * 4
                    for loc, v in m:
                        budget -= expr_size(loc, budget) + expr_size(v, budget)
                        if budget <= 0:
                            small = False
                            break
                    if small:
                        for loc, v in m:
                            items.append({"loc": ser.tree(loc), "val": ser.tree(v)})
                except Exception:
                    items, small = [], False
                trees = [x["val"] for x in items] + [x["loc"] for x in items]
                if self.noal:
                    if small:
                        try:
                            st["acc"] = self.accesses(m, trees)
                        except Exception:
                            st["acc"] = []
                            st["accok"] = 0
                    else:
                        st["accok"] = 0
                if self.deep and small and tree_size(items) <= MAXTREE:
                    st["map"] = items
                    st["deep"] = 1
            steps.append(st)
        return {"t": self.tid, "isa": isa.name, "variant": self.variant, "en": 1 if isa.data_endian == 1 else 0,
                "noal": 1 if self.noal else 0, "mt": 1 if self.mt else 0,
                "regs0": [{"n": nm, "w": w, "v": lim(v, w)} for nm, w, v in self.plan["regs"]],
                "mem0": [{"s": s, "b": b} for s, b in self.plan["mem"]],
                "seq": self.mnem, "code": [list(b) for b in self.code], "ncand": ncand,
                "opnds": opnames, "deepflag": 1 if self.deep else 0,
                "steps": steps}


def make_cases(args):
    """worker: (isa name, seed, first trace id, number of cases, deep ratio, configs) -> list of traces"""
    name, seed, tid0, ncases, deep_every, configs, wants = args
    c02isa.quiet()
    rng = random.Random(seed)
    isa = c02isa.Isa(name)
    out = []
    vs = [v[0] for v in isa.variants]
    for j in range(ncases):
        noal, mt = configs[j % len(configs)]
        variant = vs[(j // len(configs)) % len(vs)]
        deep = 1 if deep_every and (j % deep_every == 0) else 0
        want = wants[j] if wants and j < len(wants) else None
        c = Case(isa, rng, tid0 + j, noal, mt, variant, deep, want=want)
        try:
            t = c.run()
        except Exception as e:     # the harness itself (not amoco under a route) failed: keep it visible
            t = {"t": tid0 + j, "isa": name, "harness_error": "%s: %s" % (type(e).__name__, e)}
        if t is not None:
            out.append(t)
    return out


def rerun_cases(traces, deep=None):
    """re-execute recorded cases (same bytes / start state / configuration) on the amoco that is importable
    now; returns new traces with the same ids"""
    c02isa.quiet()
    out = []
    isas = {}
    for t in traces:
        name = t["isa"]
        try:
            if name not in isas:
                isas[name] = c02isa.Isa(name)
            c = Case.from_trace(isas[name], t, deep)
            nt = c.execute()
        except Exception as e:
            nt = {"t": t["t"], "isa": name, "harness_error": "%s: %s" % (type(e).__name__, e)}
        out.append(nt)
    return out
