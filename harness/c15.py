"""C15 replayers: load TLC-generated programs with amoco's loaders and read the memory image back.

For a generated ELF image (specs/LoaderGen.tla) the behaviour carries the file bytes, the page size to configure,
and TLC's Image(bytes): for every PT_LOAD segment its virtual address and its p_memsz bytes.  This module
  * sets conf.System.pagesize, calls amoco.system.core.load_program(bytes),
  * reads every segment range through task.state.mmap.read and flattens the answer to one cell per byte
    (0..255 for a raw byte; -1 unmapped / no value; -2 some other expression; ("ext", name, k) for byte k of an
    external-symbol expression),
  * reads the program counter from task.state and fetches the instruction at the entry point,
and compares with the behaviour (equality only).
"""
from . import c14

UNMAPPED = -1
SYMBOLIC = -2


def flatten(items):
    cells = []
    for it in items:
        if isinstance(it, (bytes, bytearray)):
            cells.extend(it)
            continue
        n = it.size // 8
        if getattr(it, "_is_ext", False):
            cells.extend(("ext", str(it.ref), k) for k in range(n))
        elif getattr(it, "etype", 1) == 0 or not getattr(it, "_is_def", True):
            cells.extend([UNMAPPED] * n)
        elif getattr(it, "_is_cst", False):
            v = it.v & ((1 << it.size) - 1)
            cells.extend((v >> (8 * k)) & 0xFF for k in range(n))     # constants are stored little-endian by the loaders
        else:
            cells.extend([SYMBOLIC] * n)
    return cells


def read_range(task, va, n):
    """cells of [va, va+n) as the task's memory answers"""
    try:
        return flatten(task.state.mmap.read(va, n))[:n]
    except MemoryError:
        return [UNMAPPED] * n


def pc_value(task):
    pc = task.cpu.PC()
    v = task.state(pc)
    if getattr(v, "_is_cst", False):
        return v.v & ((1 << v.size) - 1)
    return None


def set_pagesize(ps):
    from amoco.config import conf
    conf.System.pagesize = ps


def load(data, cpu=None):
    from amoco.system.core import load_program
    return load_program(bytes(data), cpu)


def classify(cells, want, fs):
    """first differing byte of a segment -> (clause, index, got, want)"""
    for i, (g, w) in enumerate(zip(cells, want)):
        if g != w:
            if i < fs:
                return ("file-byte-unmapped" if g == UNMAPPED else "file-byte", i, g, w)
            return ("bss-unmapped" if g == UNMAPPED else "bss-not-zero", i, g, w)
    if len(cells) != len(want):
        return ("short-read", min(len(cells), len(want)), None, None)
    return None


DEVNAME = {"elf": "bss:no-zero-fill", "pe": "tail:space-padded"}


def compare_image(task, image, out, fmt, asis=None):
    """asis: what the named known deviation of the format (TLC computed it) leaves in each segment, or None"""
    for j, seg in enumerate(image):
        fs = seg["fs"]
        va = c14.dval(seg["va"])
        want = seg["mem"]
        cells = read_range(task, va, len(want))
        c = classify(cells, want, fs)
        if c is not None:
            clause, i, g, w = c
            if asis is not None and cells == asis[j]:
                clause = DEVNAME[fmt]        # byte for byte what the deviation model predicts
            out.append(("C15:%s:%s" % (fmt, clause),
                        "segment %d at %#x (+%d bytes, %d file-backed): byte %d (address %#x) reads %r, the file maps %r"
                        % (seg["k"], va, len(want), fs, i, va + i, g, w)))


def replay_elf(beh):
    out = []
    set_pagesize(beh["ps"])
    try:
        task = load(beh["bytes"])
    except Exception as ex:
        out.append(("C15:elf:load:raises:" + type(ex).__name__, "load_program raised %r" % (ex,)))
        return out
    if task is None:
        out.append(("C15:elf:load:none", "load_program returned no task for a loadable image"))
        return out
    try:
        compare_image(task, beh["image"], out, "elf", beh.get("asis"))
        entry = c14.dval(beh["entry"])
        pc = pc_value(task)
        if pc != entry:
            out.append(("C15:elf:pc", "program counter is %r after loading, the entry point is %#x" % (pc, entry)))
        try:
            i = task.read_instruction(entry)
        except Exception as ex:
            out.append(("C15:elf:fetch:raises:" + type(ex).__name__, "read_instruction(%#x) raised %r" % (entry, ex)))
            i = None
        if i is not None and hasattr(i, "bytes"):
            want = beh["atentry"][:len(i.bytes)]
            got = list(i.bytes)[:len(want)]       # bytes past the end of the segment are not defined by the file
            if got != want:
                key = "C15:elf:fetch"
                if got == beh.get("asis_atentry", [])[:len(got)]:
                    key = "C15:elf:fetch:no-zero-fill"     # the bytes the deviation model leaves there
                out.append((key, "instruction fetched at %#x has bytes %s, the file places %s there (%d file-backed)"
                            % (entry, bytes(got).hex(), bytes(want).hex(), beh["nfile"])))
    except Exception as ex:
        out.append(("C15:elf:observe:raises:" + type(ex).__name__, "reading the loaded task raised %r" % (ex,)))
    return out


def signature(beh):
    return (beh["cls"], beh["ps"], tuple(beh["rels"]))


def replay_image(beh, fmt):
    """a generated PE / Mach-O file through load_program: sections/segments, program counter, fetch at the entry"""
    out = []
    set_pagesize(4096)
    exp = beh["expect"]
    try:
        task = load(beh["bytes"])
    except Exception as ex:
        out.append(("C15:%s:load:raises:%s" % (fmt, type(ex).__name__), "load_program raised %r" % (ex,)))
        return out
    if task is None:
        key = "C15:%s:load:none" % fmt
        if fmt == "macho" and not any(c14.dval(c["cmd"]) == 0xC for c in exp["cmds"]):
            key += ":no-dylib"
        out.append((key, "load_program returned no task for a loadable image"))
        return out
    try:
        compare_image(task, beh["image"], out, fmt, beh.get("asis"))
        entry = c14.dval(exp["entry"])
        pc = pc_value(task)
        if pc != entry:
            out.append(("C15:%s:pc" % fmt, "program counter is %r after loading, the entry point is %#x" % (pc, entry)))
        if beh["atentry"]:
            try:
                i = task.read_instruction(entry)
            except Exception as ex:
                out.append(("C15:%s:fetch:raises:%s" % (fmt, type(ex).__name__), "read_instruction(%#x) raised %r" % (entry, ex)))
                i = None
            if i is not None and hasattr(i, "bytes"):
                want = beh["atentry"][:len(i.bytes)]
                got = list(i.bytes)[:len(want)]
                if got != want:
                    first = next(k for k, (g, w) in enumerate(zip(got, want)) if g != w)
                    key = "C15:%s:fetch" % fmt
                    if fmt == "pe" and first >= beh.get("nfile", 16) and all(g == 32 for g in got[max(beh.get("nfile", 16), 0):]):
                        key = "C15:pe:fetch:space-padded"      # the tail bytes are the spaces of the deviation
                    out.append((key, "instruction fetched at %#x has bytes %s, the file places %s there"
                                % (entry, bytes(got).hex(), bytes(want).hex())))
    except Exception as ex:
        out.append(("C15:%s:observe:raises:%s" % (fmt, type(ex).__name__), "reading the loaded task raised %r" % (ex,)))
    return out


def replay_image_chunk(args):
    from . import tlc
    spool, lo, hi, fmt = args
    c14.quiet()
    res = {"n": 0, "fails": [], "sigs": set(), "sample": None}
    for beh in tlc.iter_spool_range(spool, lo, hi):
        if fmt == "macho" and not beh["is64"]:
            continue                      # only the x86-64 Mach-O loader exists: 32-bit images are not accepted inputs
        res["n"] += 1
        seen = set()
        for key, what in replay_image(beh, fmt):
            if key in seen:
                continue
            seen.add(key)
            if len(res["fails"]) < 200:
                res["fails"].append({"key": key, "what": what, "replayer": "c15.replay_image:" + fmt, "behaviour": beh})
        res["sigs"].add(tuple((s["fs"] < len(s["mem"]), s["fs"] == 0) for s in beh["image"]) + (beh.get("plus", None), beh.get("align", 0)))
        if res["sample"] is None:
            res["sample"] = {"format": fmt, "size": len(beh["bytes"]),
                             "sections": [{"va": s["va"], "size": len(s["mem"]), "file_backed": s["fs"], "mem_head": s["mem"][:12]} for s in beh["image"]],
                             "entry": beh["expect"]["entry"], "atentry": beh["atentry"]}
    return res


def replay_stream(beh):
    """raw / HEX / SREC input through load_program(bytes, cpu) (the raw loader)"""
    from . import c14hex
    import amoco.arch.x86.cpu_x86 as cpu
    fmt = beh["fmt"]
    out, drifts = [], []
    data = bytes(beh["lines"][0]) if fmt == "raw" else c14hex.build(beh["lines"])
    try:
        task = load(data, cpu)
    except Exception as ex:
        out.append(("C15:%s:load:raises:%s" % (fmt, type(ex).__name__), "load_program raised %r" % (ex,)))
        return out, drifts
    if task is None:
        out.append(("C15:%s:load:none" % fmt, "load_program returned no task"))
        return out, drifts
    want_cls = {"hex": "HEX", "srec": "SREC", "raw": "shellcode"}[fmt]
    if type(task.bin).__name__ != want_cls:
        out.append(("C15:%s:identified-as:%s" % (fmt, type(task.bin).__name__), "the input was loaded as %s" % type(task.bin).__name__))
        return out, drifts
    try:
        for k, blk in enumerate(beh["finals"]):
            a = c14.dval(blk["a"])
            cells = read_range(task, a, len(blk["d"]))
            if cells != blk["d"]:
                i = next(i for i, (g, w) in enumerate(zip(cells, blk["d"])) if g != w)
                key = "C15:%s:block" % fmt + (":mixed-02-04" if beh.get("mixed") else "")
                out.append((key, "data block %d at %#x: byte %d reads %r, the file places %r there" % (k, a, i, cells[i], blk["d"][i])))
                break
        e = beh["entry"]
        pc = pc_value(task)
        if e["kind"] == "csip":
            drifts.append("hex: a CS:IP start address (record type 03) is not turned into a program counter")
        elif pc != c14.dval(e["v"]):
            out.append(("C15:%s:pc" % fmt, "program counter is %r after loading, the start address is %#x" % (pc, c14.dval(e["v"]))))
        # a raw input handed over as a stream that has already been read from (cursor at `pre`): same image at 0
        if fmt == "raw":
            from amoco.system.core import DataIO, shellcode
            from amoco.system.raw import RawExec
        for how, pre in [(h, k) for k in (beh.get("pre") or []) for h in ("read", "seek")] if fmt == "raw" else []:
            if True:
                d = DataIO(data)
                if how == "read":
                    d.read(pre)
                else:
                    d.seek(pre)
                t2 = RawExec(shellcode(d), cpu)
                for k, blk in enumerate(beh["finals"]):
                    cells = read_range(t2, c14.dval(blk["a"]), len(blk["d"]))
                    if cells != blk["d"]:
                        i = next(i for i, (g, w) in enumerate(zip(cells, blk["d"])) if g != w)
                        out.append(("C15:raw:block:stream-cursor", "raw task built from a stream after %s(%d): byte %d reads %r, the file places %r there"
                                    % (how, pre, i, cells[i], blk["d"][i])))
                        break
                if pc_value(t2) != 0:
                    out.append(("C15:raw:pc:stream-cursor", "raw task built from a stream after %s(%d): program counter %r" % (how, pre, pc_value(t2))))
        # relocation history: after relocate(v) the image starts at v (TLC computed where every block must be) and pc = v
        for step, r in enumerate(beh.get("relocs", [])):
            v = c14.dval(r["v"])
            try:
                task.relocate(v)
            except Exception as ex:
                out.append(("C15:%s:relocate:raises:%s" % (fmt, type(ex).__name__), "relocate(%#x) raised %r" % (v, ex)))
                break
            bad = False
            for k, blk in enumerate(r["finals"]):
                a = c14.dval(blk["a"])
                cells = read_range(task, a, len(blk["d"]))
                if cells != blk["d"]:
                    i = next(i for i, (g, w) in enumerate(zip(cells, blk["d"])) if g != w)
                    key = "C15:%s:relocate:block" % fmt + (":mixed-02-04" if beh.get("mixed") else "")
                    out.append((key, "relocation %d to %#x: data block %d expected at %#x: byte %d reads %r, the file places %r there"
                                % (step + 1, v, k, a, i, cells[i], blk["d"][i])))
                    bad = True
                    break
            pc = pc_value(task)
            if pc != v:
                out.append(("C15:%s:relocate:pc" % fmt, "relocation %d to %#x: program counter is %r" % (step + 1, v, pc)))
            if bad:
                break
    except Exception as ex:
        out.append(("C15:%s:observe:raises:%s" % (fmt, type(ex).__name__), "reading the loaded task raised %r" % (ex,)))
    return out, drifts


def replay_stream_chunk(args):
    from . import tlc
    spool, lo, hi = args
    c14.quiet()
    res = {"n": 0, "fails": [], "drifts": {}, "sigs": set(), "sample": None}
    for beh in tlc.iter_spool_range(spool, lo, hi):
        res["n"] += 1
        fails, drifts = replay_stream(beh)
        for d in drifts:
            res["drifts"][d] = res["drifts"].get(d, 0) + 1
        seen = set()
        for key, what in fails:
            if key in seen:
                continue
            seen.add(key)
            if len(res["fails"]) < 200:
                res["fails"].append({"key": key, "what": what, "replayer": "c15.replay_stream", "behaviour": beh})
        res["sigs"].add((beh["fmt"], tuple(r["type"] for r in beh["recs"]), len(beh["blocks"]), beh["entry"]["kind"], beh["mixed"]))
        if res["sample"] is None:
            res["sample"] = {"fmt": beh["fmt"], "lines": [bytes(l).decode("latin1") for l in beh["lines"]],
                             "finals": beh["finals"], "entry": beh["entry"]}
    return res


def replay_chunk(args):
    from . import tlc
    spool, lo, hi = args
    c14.quiet()
    res = {"n": 0, "fails": [], "sigs": set(), "sample": None, "bad_model": 0}
    for beh in tlc.iter_spool_range(spool, lo, hi):
        res["n"] += 1
        if not beh.get("refines", True):
            res["bad_model"] += 1
        seen = set()
        for key, what in replay_elf(beh):
            if key in seen:
                continue
            seen.add(key)
            if len(res["fails"]) < 200:
                res["fails"].append({"key": key, "what": what, "replayer": "c15.replay_elf", "behaviour": beh})
        res["sigs"].add(signature(beh))
        if res["sample"] is None:
            res["sample"] = {"cls": beh["cls"], "ps": beh["ps"], "rels": beh["rels"], "size": len(beh["bytes"]),
                             "segments": [{"va": s["va"], "memsz": len(s["mem"]), "mem_head": s["mem"][:16]} for s in beh["image"]],
                             "entry": beh["entry"], "atentry": beh["atentry"]}
    set_pagesize(4096)
    return res


def replay_pe_chunk(args):
    return replay_image_chunk(tuple(args) + ("pe",))


def replay_macho_chunk(args):
    return replay_image_chunk(tuple(args) + ("macho",))
