"""C07 harness: dumb plumbing between TLC (specs/X86Len*.tla), amoco's x86/x64 decoders and the reference
disassemblers. Nothing here computes an expected length or displacement:

  * templates come from TLC (X86LenGen*.cfg); concretise() only picks members of the byte classes TLC
    chose and fills free bytes from the seeded rng;
  * decode() calls cpu_x86 / cpu_x64 `disassemble` and projects the result by reading attributes
    (length, spec.format, operands[0]._is_cst / .v / .size);
  * the references' answers are plain data (vendored corpus/x86len/*.gz or live harness/c07ref.py);
  * every record [bytes, references, amoco, template] is judged by TLC (specs/X86LenTrace.tla).
"""
import gzip
import json
import multiprocessing as mp
import multiprocessing.pool
import os
import random

from . import tlc, c07ref

CORPUS = os.path.join(tlc.VERIF, "corpus", "x86len")
ISA = {32: "x86", 64: "x64"}


def limbs64(v):
    v &= (1 << 64) - 1
    return [(v >> (16 * i)) & 0xFFFF for i in range(4)]


# ---------------------------------------------------------------------------------------------------
# vendored corpus

def load_table():
    out = []
    with gzip.open(os.path.join(CORPUS, "table.jsonl.gz"), "rt") as f:
        for line in f:
            e = json.loads(line)
            out.append((e["m"], bytes.fromhex(e["b"]), e["l"], int(e["d"], 16) if "d" in e else None, e.get("src", "g")))
    return out


def load_sweeps():
    out = []
    with gzip.open(os.path.join(CORPUS, "sweeps.jsonl.gz"), "rt") as f:
        for line in f:
            e = json.loads(line)
            out.append({"m": e["m"], "buf": bytes.fromhex(e["buf"]), "kind": e["kind"], "ref": e["ref"],
                        "d": dict((int(k), int(v, 16)) for k, v in e["d"].items())})
    return out


# ---------------------------------------------------------------------------------------------------
# templates -> byte strings

def concretise(tpl, idx, inst, rng, seed):
    """tpl: a template printed by TLC. slots: {"c": [byte values]} (a class chosen by TLC) or {"any": n}.
    instance 0 walks the class members systematically (so that every member of every class is used as the
    templates sharing the class go by), later instances pick at random. -> 15 bytes"""
    out = bytearray()
    for k, sl in enumerate(tpl["slots"]):
        if "c" in sl:
            c = sl["c"]
            if inst == 0:
                out.append(c[(idx * 7919 + seed * 104729 + k * 31) % len(c)])
            else:
                out.append(c[rng.randrange(len(c))])
        else:
            for _ in range(sl["any"]):
                out.append(rng.randrange(256))
    while len(out) < 15:
        out.append(rng.randrange(256))
    return bytes(out[:15])


# ---------------------------------------------------------------------------------------------------
# amoco

_CPUS = {}


def _cpu(mode):
    c = _CPUS.get(mode)
    if c is None:
        if mode == 32:
            from amoco.arch.x86 import cpu_x86 as c
        else:
            from amoco.arch.x64 import cpu_x64 as c
        _CPUS[mode] = c
    return c


def decode(mode, b):
    """-> dict(al, ab, ad, as, fmt, exc). Reads attributes only."""
    cpu = _cpu(mode)
    try:
        i = cpu.disassemble(b)
    except Exception as e:  # an observation (C17's subject), for C07: amoco does not decode the string
        # the decoder keeps a pending-prefix instruction in a private attribute which an escaping exception
        # leaves set; drop it so that the next string is decoded on its own (soundness rule 5)
        try:
            cpu.disassemble._disassembler__i = None
        except Exception:
            pass
        return {"al": -1, "ab": 0, "ad": 0, "as": 0, "fmt": None, "exc": "%s: %s" % (type(e).__name__, e)}
    if i is None:
        return {"al": -1, "ab": 0, "ad": 0, "as": 0, "fmt": None, "exc": None}
    ab, ad, asz = 0, 0, 0
    ops = i.operands
    if len(ops) >= 1:
        o = ops[0]
        if getattr(o, "_is_cst", False) and isinstance(getattr(o, "v", None), int):
            ab, asz = 1, o.size
            ad = o.v & ((1 << o.size) - 1)
    return {"al": i.length, "ab": ab, "ad": ad, "as": asz, "fmt": i.spec.format, "exc": None}


def decode_chunk(items):
    return [decode(m, b) for (m, b) in items]


def sweep_chunk(items):
    """items: list of (mode, buf, ref) with ref[o] = agreed reference length of the window at o, 0 if the
    window is outside the property. Walk the boundaries amoco and the references share, from offset 0,
    until the first window outside the property or the first disagreement (which is recorded).
    -> list of lists of (offset, decode dict)"""
    out = []
    for mode, buf, ref in items:
        steps = []
        o = 0
        while o < len(ref):
            if not ref[o]:
                break
            a = decode(mode, buf[o:o + 15])
            steps.append((o, a))
            if a["al"] != ref[o]:      # amoco stopped decoding or places the next boundary elsewhere: the
                break                  # recorded step carries it, TLC judges it
            o += ref[o]
        out.append(steps)
    return out


def chunks(seq, n):
    n = max(1, n)
    k = (len(seq) + n - 1) // n
    return [seq[i:i + k] for i in range(0, len(seq), k)] if seq else []


# ---------------------------------------------------------------------------------------------------
# records and TLC judgement

def record(t, mode, b, live, rl, rd, a, tl):
    r = {"t": t, "m": mode, "b": list(b), "live": live, "rl": rl, "rb": 0 if rd is None else 1,
         "rd": limbs64(rd or 0), "tl": tl}
    if a is None:
        r.update({"al": -2, "ab": 0, "ad": [0, 0, 0, 0], "as": 0})
    else:
        r.update({"al": a["al"], "ab": a["ab"], "ad": limbs64(a["ad"]), "as": a["as"]})
    return r


def _judge_shard(args):
    path, tag, dev = args
    return tlc.run("X86LenTrace", "X86LenTrace.cfg" if dev is None else dev, workers=1, env={"TRACE_FILE": path},
                   tag=tag, timeout=3000, xmx="3g")


def judge(records, tag, nshards=None, cfg=None):
    """-> (verdicts {t: printed verdict}, [TLCResult]); raises MachineryError when a record got no verdict"""
    if not records:
        return {}, []
    wd = tlc.workdir("c07" + tag)
    shards = tlc.shard(records, nshards or tlc.NCPU)
    jobs = []
    for k, sh in enumerate(shards):
        p = os.path.join(wd, "r%d.ndjson" % k)
        tlc.write_ndjson(p, sh)
        jobs.append((p, "c07%s%d" % (tag, k), cfg))
    with mp.pool.ThreadPool(len(jobs)) as tp:
        results = tp.map(_judge_shard, jobs)
    verdicts = {}
    total = 0
    for res in results:
        total += res.distinct
        for v in res.printed:
            verdicts[v["t"]] = v
    tlc.cleanup(wd)
    if total != len(records):
        raise tlc.MachineryError("X86LenTrace judged %d of %d records (%s)" % (total, len(records), tag))
    return verdicts, results
