"""C18 harness: real lsweep / code.block / cfg.graph driven over raw byte buffers, projected to plain data.

Nothing in this module decides anything. It
  * concretises: an abstract instruction class chosen by TLC ("a 2-byte control-flow instruction") is
    turned into real bytes of an ISA by rejection sampling with the seeded rng (class_table),
  * performs API calls: RawExec (the raw task loader), lsweep.sequence / iterblocks / getblock,
    block.__getitem__ / cut / support / raw / length, cfg.node, graph.add_vertex / add_edge,
  * projects what amoco returns by reading attributes (addresses, lengths, type, misc, bytes,
    support._map, edges) into the NDJSON traces that specs/CfgTrace.tla validates.
"""
import contextlib
import importlib
import logging
import os
import random
import signal
import struct

REPO = os.environ.get("VERIF_REPO", "/repo")

# every cpu module of the pinned tree that imports (DESIGN.md section 4, ISA scope); name -> module path
ISAS = {
    "armv7": "arm.cpu_armv7", "armv8": "arm.cpu_armv8", "dwarf": "dwarf.cpu", "ebpf": "eBPF.cpu",
    "bpf": "eBPF.cpu_bpf", "mips": "mips.cpu_r3000", "mipsle": "mips.cpu_r3000LE", "msp430": "msp430.cpu",
    "pic18": "pic.cpu_pic18f46k22", "ppc32": "ppc32.cpu", "rv32i": "riscv.cpu_rv32i", "rv64i": "riscv.cpu_rv64i",
    "sparc": "sparc.cpu_v8", "sh2": "superh.cpu_sh2", "tricore": "tricore.cpu", "v850": "v850.cpu_v850e2s",
    "w65c02": "w65c02.cpu", "wasm": "wasm.cpu", "x64": "x64.cpu_x64", "x86": "x86.cpu_x86",
    "z80": "z80.cpu_z80", "gb": "z80.cpu_gb",
}
# ISAs the TLC-generated graph histories are replayed on: (name, unit = byte length of a model length 1)
G_DELAY = [("sparc", 4), ("mips", 4), ("mipsle", 4), ("sh2", 2)]
G_FIXED = [("rv32i", 4), ("armv7", 4), ("ppc32", 4), ("rv64i", 4), ("armv8", 4)]
G_VAR = [("x86", 1), ("x64", 1), ("z80", 1), ("w65c02", 1), ("msp430", 2)]


_cpu_cache = {}


def quiet():
    logging.disable(logging.CRITICAL)


class Timeout(BaseException):
    """an amoco call did not return within its CPU budget (observed like an exception)"""


TIMEOUTS = [0]      # per worker process: calls that ran out of CPU budget
MAX_TIMEOUTS = 3    # after that many the worker stops driving amoco (what it has is enough to fail the check)


def _on_alarm(signum, frame):
    TIMEOUTS[0] += 1
    raise Timeout()


@contextlib.contextmanager
def cpu_limit(seconds):
    """bound the CPU time of the amoco calls made inside (a looping call is an observation, not a hang)"""
    old = signal.signal(signal.SIGVTALRM, _on_alarm)
    signal.setitimer(signal.ITIMER_VIRTUAL, seconds)
    try:
        yield
    finally:
        signal.setitimer(signal.ITIMER_VIRTUAL, 0)
        signal.signal(signal.SIGVTALRM, old)


def cpu_of(isa):
    if isa not in _cpu_cache:
        _cpu_cache[isa] = importlib.import_module("amoco.arch." + ISAS[isa])
    return _cpu_cache[isa]


def mkprog(cpu, buf):
    """the raw task loader on a byte buffer (what load_program does for an unrecognised format)"""
    from amoco.system.raw import RawExec
    from amoco.system.core import shellcode, DataIO
    return RawExec(shellcode(DataIO(bytes(buf))), cpu)


def ival(a):
    """address as a plain int (attribute read on cst), -1 for None"""
    if a is None:
        return -1
    return int(getattr(a, "value", a))


def flags_of(i):
    from amoco.arch.core import type_control_flow
    cf = 1 if i.type == type_control_flow else 0
    dl = 1 if i.misc.get("delayed", False) else 0
    return cf, dl


def exc_sig(e):
    """exception type + innermost amoco / grandalf frames (qualified function names), innermost first"""
    t = e.__traceback__
    frames = []
    while t is not None:
        co = t.tb_frame.f_code
        if "amoco" in co.co_filename or "grandalf" in co.co_filename:
            frames.append(getattr(co, "co_qualname", co.co_name))
        t = t.tb_next
    return [type(e).__name__] + list(reversed(frames[-6:]))


def in_decoder(e):
    """did the exception come out of an ISA decoder (any frame under amoco/arch/)? Decoding is C17's subject."""
    t = e.__traceback__
    while t is not None:
        fn = t.tb_frame.f_code.co_filename.replace("\\", "/")
        if "/amoco/arch/" in fn:
            return True
        t = t.tb_next
    return False


# --- concretisation ---------------------------------------------------------------------------------
def _sparc_annulled():
    """SPARC Bicc / FBfcc with the annul bit set (format 2: 00 a cond(4) op2(3) disp22), several conditions:
    `be,a`, `bne,a`, `bleu,a`, `ba,a`, ... - delayed control-flow instructions whose delay slot belongs to the block"""
    out = []
    for op2 in (2, 6):
        for cond in (1, 9, 4, 8, 3, 12):
            for disp in (2, 0x3FFFF0):
                out.append(((1 << 29) | (cond << 25) | (op2 << 22) | disp).to_bytes(4, "big"))
    return out


# encodings added to the sampled class tables when they decode to the stated class (spec-derived, not sampled)
EXTRA_ENCODINGS = {"sparc": [((4, "d"), _sparc_annulled())]}


def class_table(isa, rng, tries=4000, per=12):
    """(byte length, flag) -> list of byte strings of that class, found by decoding seeded random
    byte strings with the ISA's own disassembler; only encodings that decode to the same length when
    followed by other bytes are kept."""
    cpu = cpu_of(isa)
    dis = cpu.disassemble
    maxlen = dis.maxlen
    tab = {}
    for _ in range(tries):
        raw = bytes(rng.randrange(256) for _ in range(maxlen))
        try:
            i = dis(raw)
        except Exception:
            continue
        if i is None or i.length <= 0 or len(i.bytes) != i.length or i.bytes != raw[:i.length]:
            continue
        cf, dl = flags_of(i)
        fl = "d" if dl else ("c" if cf else "n")
        key = (i.length, fl)
        lst = tab.setdefault(key, [])
        if len(lst) >= per:
            continue
        enc = raw[:i.length]
        ok = True
        for pad in (b"\x00" * maxlen, b"\xff" * maxlen):
            try:
                j = dis((enc + pad)[:maxlen])
            except Exception:
                ok = False
                break
            if j is None or j.length != i.length or flags_of(j) != (cf, dl):
                ok = False
                break
        if ok and enc not in lst:
            lst.append(enc)
    for key, encs in EXTRA_ENCODINGS.get(isa, []):
        for enc in encs:
            try:
                i = dis(enc)
            except Exception:
                continue
            if i is None or i.length != len(enc):
                continue
            cf, dl = flags_of(i)
            if (i.length, "d" if dl else ("c" if cf else "n")) == key and enc not in tab.setdefault(key, []):
                tab[key].append(enc)
    return tab


TABLES = {}     # (isa, seed) -> class table; filled once by the parent (table_job) and inherited / passed to the jobs


def table_job(args):
    """worker: the class table of one ISA for this seed (list form, picklable)"""
    quiet()
    isa, seed = args
    try:
        tab = class_table(isa, random.Random("%s/%d/tab" % (isa, seed)))
    except Exception as e:
        return isa, None, "<".join(exc_sig(e))
    return isa, tab, ""


def get_table(isa, seed, tables=None):
    if tables is not None and isa in tables:
        return tables[isa]
    key = (isa, seed)
    if key not in TABLES:
        TABLES[key] = class_table(isa, random.Random("%s/%d/tab" % (isa, seed)))
    return TABLES[key]


def elf_text(path):
    """(offset, size) of the .text section of an ELF file (input selection only), or None"""
    try:
        with open(path, "rb") as f:
            d = f.read()
        if d[:4] != b"\x7fELF":
            return None
        is64 = d[4] == 2
        en = "<" if d[5] == 1 else ">"
        if is64:
            shoff, = struct.unpack_from(en + "Q", d, 0x28)
            shentsize, shnum, shstrndx = struct.unpack_from(en + "HHH", d, 0x3A)
        else:
            shoff, = struct.unpack_from(en + "I", d, 0x20)
            shentsize, shnum, shstrndx = struct.unpack_from(en + "HHH", d, 0x2E)
        secs = []
        for k in range(shnum):
            o = shoff + k * shentsize
            if is64:
                name, typ, flg, addr, off, size = struct.unpack_from(en + "IIQQQQ", d, o)
            else:
                name, typ, flg, addr, off, size = struct.unpack_from(en + "IIIIII", d, o)
            secs.append((name, typ, flg, off, size))
        stro = secs[shstrndx][3]
        for name, typ, flg, off, size in secs:
            n = d[stro + name:d.index(b"\0", stro + name)]
            if n == b".text" and size > 0:
                return off, size
    except Exception:
        return None
    return None


SAMPLES = {
    "x86": ["x86/flow.elf", "x86/loop_simple.elf", "x86/prefixes.elf", "x86/test_full.elf", "x86/blocks.raw"],
    "x64": ["x64/flow.elf64", "x64/loop_simple.elf64", "x64/merge.elf64", "x64/cxx.elf64"],
    "armv7": ["arm/sc.bin", "arm/hw", "arm/sc_ascii.bin"],
    "sparc": ["sparc/saverestore", "sparc/solaris-sed.elf"],
    "rv32i": ["riscv/TA.elf.signed"],
    "ebpf": ["ebpf/bpf_patched_prog"],
    "wasm": ["wasm/change.wasm"],
}


def sample_windows(isa, rng, n, size):
    """byte windows cut from the repository's sample files of that ISA (code sections when ELF)"""
    out = []
    files = SAMPLES.get(isa, [])
    if not files:
        return out
    for k in range(n):
        rel = files[rng.randrange(len(files))]
        path = os.path.join(REPO, "tests", "samples", rel)
        try:
            with open(path, "rb") as f:
                d = f.read()
        except OSError:
            continue
        span = elf_text(path) or (0, len(d))
        off, sz = span
        if sz <= size:
            w = d[off:off + sz]
        else:
            al = 4 if isa in ("armv7", "sparc", "rv32i") else (8 if isa == "ebpf" else 1)
            o = off + (rng.randrange(0, sz - size) // al) * al
            w = d[o:o + size]
        if w:
            out.append(("sample:" + rel, w))
    return out


def encoded_buffer(tab, rng, ninstr, maxbytes):
    """a buffer made of valid encodings, control-flow / delayed classes over-represented"""
    keys = sorted(tab)
    if not keys:
        return b""
    special = [k for k in keys if k[1] != "n"]
    buf = b""
    for _ in range(ninstr):
        if special and rng.random() < 0.35:
            k = special[rng.randrange(len(special))]
        else:
            k = keys[rng.randrange(len(keys))]
        enc = tab[k][rng.randrange(len(tab[k]))]
        if len(buf) + len(enc) > maxbytes:
            break
        buf += enc
    return buf


# --- projections ------------------------------------------------------------------------------------
def block_rec(b):
    """code.block -> plain record (attribute reads + the block API under observation)"""
    if b is None:
        return {"ok": 0}
    ia = [ival(i.address) for i in b.instr]
    il = [int(i.length) for i in b.instr]
    sup = b.support
    return {"ok": 1, "a": ival(b.address), "len": int(b.length), "lo": ival(sup[0]), "hi": ival(sup[1]),
            "ia": ia, "il": il, "raw": list(b.raw())}


def graph_state(g):
    def lay(z):
        if z is None:
            return []
        return [[ival(m.vaddr), int(len(m.data))] for m in z._map]

    def naddr(n):
        ins = getattr(n.data, "instr", None)
        if ins:
            return ival(ins[0].address)
        return -1

    def mapped(n):
        a = naddr(n)
        return 1 if a >= 0 and node_at(g, a) is n else 0

    ed = sorted(set((naddr(e.v[0]), naddr(e.v[1]), mapped(e.v[0]), mapped(e.v[1])) for e in g.E()))
    return {"lay": lay(g.support), "ovl": lay(g.overlay), "hasovl": 0 if g.overlay is None else 1,
            "ed": [list(x) for x in ed]}


def node_at(g, addr):
    for m in g.support._map:
        if ival(m.vaddr) == addr:
            return m.data.val
    return None


# --- T: sweep traces --------------------------------------------------------------------------------
def sweep_trace(tid, isa, src, buf, start, rng, nops=6):
    """one linear sweep from `start`: sequence, iterblocks, getblock, slices and cuts"""
    from amoco.sa import lsweep
    cpu = cpu_of(isa)
    p = mkprog(cpu, buf)
    z = lsweep(p)
    loc = cpu.cst(start, cpu.PC().size)
    t = {"t": tid, "kind": "sweep", "isa": isa, "src": src, "start": start, "buf": list(buf), "exc": "",
         "seq": [], "ib": [], "blocks": [], "gb": {"ok": 0}, "ops": []}
    try:
        with cpu_limit(10):
            _sweep_body(t, z, cpu, loc, start, rng, nops)
    except (Exception, Timeout) as e:
        sig = exc_sig(e)
        if in_decoder(e) and not isinstance(e, Timeout):
            # a decoder exception ends the sweep: C17's subject, recorded, not judged here
            return {"t": tid, "kind": "aborted", "isa": isa, "src": src, "start": start, "sig": "<".join(sig[:4])}
        t.update({"exc": type(e).__name__, "seq": [], "ib": [], "blocks": [], "gb": {"ok": 0}, "ops": []})
    return t


def _sweep_body(t, z, cpu, loc, start, rng, nops):
    seq = list(z.sequence(loc))
    t["seq"] = [[ival(i.address), int(i.length)] + list(flags_of(i)) for i in seq]
    t["ib"] = [list(i.bytes) for i in seq]
    blocks = list(z.iterblocks(loc))
    t["blocks"] = [block_rec(b) for b in blocks]
    t["gb"] = block_rec(z.getblock(start))
    ops = []
    if blocks:
        for _ in range(nops):
            bi = rng.randrange(len(blocks))
            rec = t["blocks"][bi]
            n = len(rec["ia"])
            if n == 0:
                continue
            pos = [a - rec["ia"][0] for a in rec["ia"]] + [rec["len"]]
            fresh = z.getblock(rec["ia"][0])
            if fresh is None:
                continue
            x = rng.random()
            if x < 0.5:
                i0 = rng.randrange(0, n)
                i1 = rng.randrange(i0 + 1, n + 1)
                sta, sto = pos[i0], pos[i1]
                if rng.random() < 0.12 and rec["len"] > n:      # off an instruction boundary
                    sta = rng.randrange(0, rec["len"])
                    sto = rng.randrange(sta, rec["len"] + 1)
                r = fresh[sta:sto]
                ops.append({"op": "slice", "b": bi + 1, "sta": sta, "sto": sto, "res": block_rec(r)})
            else:
                at = rec["ia"][rng.randrange(n)]
                if rng.random() < 0.12:
                    at = rec["ia"][0] + rng.randrange(0, rec["len"] + 2)
                nl = fresh.cut(cpu.cst(at, cpu.PC().size))
                ops.append({"op": "cut", "b": bi + 1, "at": at, "nl": int(nl), "res": block_rec(fresh)})
    t["ops"] = ops


def sweep_job(args):
    """worker: all sweep traces of one ISA"""
    quiet()
    isa, seed, nbuf, bufsize, tid0, all_starts = args[:6]
    tables = args[6] if len(args) > 6 else None
    rng = random.Random("%s/%d/sweep" % (isa, seed))
    out = []
    try:
        tab = get_table(isa, seed, tables)
    except Exception as e:
        return {"isa": isa, "traces": [], "error": "class_table: " + "<".join(exc_sig(e))}
    bufs = []
    for k in range(nbuf):
        m = k % 3
        if m == 0:
            bufs.append(("random", bytes(rng.randrange(256) for _ in range(bufsize))))
        elif m == 1:
            b = encoded_buffer(tab, rng, bufsize, bufsize)
            bufs.append(("encoded", b) if b else ("random", bytes(rng.randrange(256) for _ in range(bufsize))))
        else:
            sw = sample_windows(isa, rng, 1, bufsize)
            if sw:
                bufs.append(sw[0])
            else:
                b = encoded_buffer(tab, rng, bufsize, bufsize)
                bufs.append(("encoded", b) if b else ("random", bytes(rng.randrange(256) for _ in range(bufsize))))
    for key, encs in EXTRA_ENCODINGS.get(isa, []):
        # every spec-derived encoding once, each followed by an arbitrary instruction (its delay slot) and another one
        plain = sorted(tab)
        buf = b""
        for enc in encs[:12]:
            buf += enc
            for _ in range(2):
                k = plain[rng.randrange(len(plain))]
                buf += tab[k][rng.randrange(len(tab[k]))]
        for o in range(0, len(buf), 36):
            bufs.append(("spec-derived", buf[o:o + 36]))
    tid = tid0
    for src, buf in bufs:
        if all_starts is True:
            starts = range(len(buf))
        else:
            starts = sorted(rng.sample(range(len(buf)), min(len(buf), int(all_starts))))
        for s in starts:
            if TIMEOUTS[0] >= MAX_TIMEOUTS:
                break
            tid += 1
            rs = "%s/%d/%d/%d" % (isa, seed, tid, s)
            t = sweep_trace(tid, isa, src, buf, s, random.Random(rs))
            t["rs"] = rs
            out.append(t)
    return {"isa": isa, "traces": out, "classes": sorted("%d%s" % k for k in tab)}


# --- G: TLC behaviours on a real cfg.graph ----------------------------------------------------------
class Host(object):
    """an ISA able to host model streams: class table + unit"""

    def __init__(self, isa, unit, seed, tables=None):
        self.isa = isa
        self.unit = unit
        self.cpu = cpu_of(isa)
        self.tab = get_table(isa, seed, tables)

    def can(self, L, F):
        return all((l * self.unit, f) in self.tab for l, f in zip(L, F))

    def assemble(self, L, F, rng):
        buf = b""
        for l, f in zip(L, F):
            lst = self.tab[(l * self.unit, f)]
            buf += lst[rng.randrange(len(lst))]
        return buf


def run_history(tid, isa, cpu, buf, steps, dom, meta=None):
    """steps: [("add", address) | ("link", x, y) | ("readd", n)] on a fresh cfg.graph; blocks come from
    lsweep.getblock on the buffer. Returns the graph trace."""
    from amoco.sa import lsweep
    from amoco import cfg
    p = mkprog(cpu, buf)
    z = lsweep(p)
    pcs = cpu.PC().size
    t = {"t": tid, "kind": "graph", "isa": isa, "dom": 1 if dom else 0, "buf": list(buf)}
    if meta:
        t["meta"] = meta
    try:
        with cpu_limit(20):
            S = list(z.sequence(cpu.cst(0, pcs)))
    except (Exception, Timeout) as e:
        return {"t": tid, "kind": "aborted", "isa": isa, "sig": "<".join(exc_sig(e)[:4])}
    t["S"] = [[ival(i.address), int(i.length)] + list(flags_of(i)) for i in S]
    g = cfg.graph()
    nodes = []
    out = []
    for st in steps:
        r = {"op": st[0], "exc": "", "sig": []}
        try:
            with cpu_limit(5):
                if not _history_step(st, r, z, g, nodes, cfg):
                    continue
        except (Exception, Timeout) as e:
            r["exc"] = type(e).__name__
            r["sig"] = exc_sig(e)
        r.update(graph_state(g))
        out.append(r)
        if r["exc"]:
            break
    t["steps"] = out
    return t


def _history_step(st, r, z, g, nodes, cfg):
    """one API call on the real graph; False when the step does not apply (nothing is logged)"""
    if st[0] == "add":
        try:
            b = z.getblock(st[1])
        except Exception as e:
            if in_decoder(e):
                return False      # a decoder exception (C17's subject): there is no block to insert
            raise
        if b is None or not b.instr:
            return False
        r["bd"] = [ival(i.address) for i in b.instr] + [ival(b.instr[-1].address) + int(b.instr[-1].length)]
        n = cfg.node(b)
        nodes.append(n)
        g.add_vertex(n)
    elif st[0] == "addrun":
        # any contiguous run of the stream (no sweep yields it): a block built from the sweep's instructions
        import itertools
        from amoco import code
        try:
            ins = list(itertools.islice(z.sequence(z.prog.cpu.cst(st[1], z.prog.cpu.PC().size)), st[2]))
        except Exception as e:
            if in_decoder(e):
                return False
            raise
        if len(ins) != st[2]:
            return False
        b = code.block(ins)
        r["op"] = "add"
        r["bd"] = [ival(i.address) for i in b.instr] + [ival(b.instr[-1].address) + int(b.instr[-1].length)]
        n = cfg.node(b)
        nodes.append(n)
        g.add_vertex(n)
    elif st[0] == "link":
        r["x"], r["y"] = st[1], st[2]
        nx, ny = node_at(g, st[1]), node_at(g, st[2])
        if nx is None or ny is None or nx.c is None or ny.c is None:
            return False      # only between vertices of the graph that are mapped in the support
        g.add_edge(cfg.link(nx, ny))
    elif st[0] == "readd":
        r["n"] = st[1]
        g.add_vertex(nodes[st[1] - 1])
    return True


PROBES = [
    # (isa, buffer, block start addresses inserted in this order): canonical witnesses of the named deviations
    ("x86", "9090c3", (0, 1)),                              # SplitSelfLoop: a block split in two
    ("x86", "90c383c001c3", (2, 0)),                        # HistCopySlice: a short block right before a longer one
    ("x86", "9090c3", (0, 0)),                              # EmptyOldEdge: a second node object for a mapped address
    ("x86", "90909090", (2, 0)),                            # FirstBlockSwallow: the lowest block covers a mapped one
    ("x86", "90909090", (0, 2, 3, 1)),                      # CutPathSwallow: a splitting block covers mapped ones
    ("sparc", "10800002010000000100000001000000", (4, 0, 12)),   # AnonSplitEdge: split of a trimmed tail
]


def probe_trace():
    """the canonical histories run on the tree under test; specs/CfgTrace.tla (kind "probe") decides from
    them which of the named deviations of specs/CfgOps.tla this tree has"""
    quiet()
    hists = []
    for isa, hx, starts in PROBES:
        t = run_history(0, isa, cpu_of(isa), bytes.fromhex(hx), [("add", a) for a in starts], True)
        if t["kind"] == "graph":
            hists.append({"isa": isa, "steps": t["steps"]})
    return {"t": 0, "kind": "probe", "hists": hists}


def replay_chunk(args):
    """worker: replay TLC behaviours of a spool byte range on real graphs; returns graph traces.
    hosts: list of (isa, unit) eligible for this generator; which: 'one' (rotate) or 'all'."""
    quiet()
    from . import tlc
    path, lo, hi, seed, stride, offset, hosts, which, tid0, tag = args[:10]
    tables = args[10] if len(args) > 10 else None
    wide = tag.startswith("wide")
    rng = random.Random("%s/%d/%d" % (tag, seed, lo))
    H = []
    for isa, unit in hosts:
        try:
            H.append(Host(isa, unit, seed, tables))
        except Exception:
            continue
    traces = []
    stats = {"behaviours": 0, "unhosted": 0, "mismatch": 0, "branches": {}}
    tid = tid0
    for idx, beh in enumerate(tlc.iter_spool_range(path, lo, hi)):
        if stride > 1 and (idx % stride) != offset:
            continue
        if TIMEOUTS[0] >= MAX_TIMEOUTS:
            stats["truncated"] = 1
            break
        L, F, h = beh["L"], beh["F"], beh["h"]
        el = [x for x in H if x.can(L, F)]
        if not el:
            stats["unhosted"] += 1
            continue
        stats["behaviours"] += 1
        for r in h:
            if "br" in r:
                stats["branches"][r["br"]] = stats["branches"].get(r["br"], 0) + 1
        chosen = el if which == "all" else [el[(idx + seed) % len(el)]]
        for host in chosen:
            buf = host.assemble(L, F, rng)
            # model instruction index -> address run: by the model's own byte lengths (concretised by unit)
            addr = [0]
            for l in L:
                addr.append(addr[-1] + l * host.unit)
            steps = []
            for r in h:
                if r["op"] == "add" and wide:
                    steps.append(("addrun", addr[r["s"] - 1], r["e"] - r["s"]))
                elif r["op"] == "add":
                    steps.append(("add", addr[r["s"] - 1]))
                elif r["op"] == "link":
                    steps.append(("link", r["x"] * host.unit, r["y"] * host.unit))
                else:
                    steps.append(("readd", r["n"]))
            tid += 1
            t = run_history(tid, host.isa, host.cpu, buf, steps, not wide,
                            meta={"L": L, "F": F, "br": [r.get("br", r["op"]) for r in h], "gen": tag})
            if t["kind"] != "graph":
                stats["aborted"] = stats.get("aborted", 0) + 1     # the sweep of the assembled buffer ended in a decoder exception
                continue
            got = [[x[1] // host.unit if x[1] % host.unit == 0 else -1, "d" if x[3] else ("c" if x[2] else "n")] for x in t["S"]]
            if got != [[l, f] for l, f in zip(L, F)]:
                stats["mismatch"] += 1
                continue
            traces.append(t)
    return {"traces": traces, "stats": stats}


# --- T: random long histories on real graphs -------------------------------------------------------
def history_job(args):
    """worker: random insertion histories (many blocks, links, re-insertions) over encoded / sample buffers"""
    quiet()
    isa, seed, ntr, ninstr, tid0, wide = args[:6]
    tables = args[6] if len(args) > 6 else None
    rng = random.Random("%s/%d/hist/%d" % (isa, seed, 1 if wide else 0))
    cpu = cpu_of(isa)
    pcs = cpu.PC().size
    try:
        tab = get_table(isa, seed, tables)
    except Exception as e:
        return {"isa": isa, "traces": [], "error": "<".join(exc_sig(e))}
    from amoco.sa import lsweep
    out = []
    tid = tid0
    for k in range(ntr):
        if TIMEOUTS[0] >= MAX_TIMEOUTS:
            break
        buf = b""
        if k % 3 == 2:
            sw = sample_windows(isa, rng, 1, ninstr * 3)
            if sw:
                buf = sw[0][1]
        if not buf:
            buf = encoded_buffer(tab, rng, ninstr, ninstr * 6)
        if not buf:
            continue
        try:
            S = list(lsweep(mkprog(cpu, buf)).sequence(cpu.cst(0, pcs)))
        except Exception:
            continue
        if len(S) < 2:
            continue
        if wide:
            starts = list(range(len(buf)))
        else:
            starts = [ival(i.address) for i in S]
        rng.shuffle(starts)
        nadd = min(len(starts), rng.randrange(3, 11))
        steps = []
        inserted = []
        for a in starts[:nadd]:
            steps.append(("add", a))
            inserted.append(a)
            if rng.random() < 0.35 and inserted:
                # link two inserted starts (only performed if both are still block starts in the support)
                steps.append(("link", rng.choice(inserted), rng.choice(inserted)))
        tid += 1
        out.append(run_history(tid, isa, cpu, buf, steps, not wide, meta={"gen": "random-wide" if wide else "random"}))
    return {"isa": isa, "traces": out}
