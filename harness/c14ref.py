"""C14 T-ref and T for ELF: the vendored llvm-readobj dumps (corpus/readobj) and the sample files' bytes go to
TLC (specs/ElfRef.tla), which
  * validates the reference dump against Report(bytes)   (binds Elf.tla to the format as a reference tool reads it),
  * prints Report(bytes) and the query answers, with which the harness compares what amoco reports for the file.
"""
import hashlib
import json
import os
from concurrent.futures import ThreadPoolExecutor

from . import tlc, c14

CORPUS = os.path.join(tlc.VERIF, "corpus", "readobj")
SAMPLES = os.path.join(os.environ.get("VERIF_REPO", "/repo"), "tests", "samples")


def digits(v, w=8):
    return [(v >> (8 * i)) & 0xFF for i in range(w)]


def codes(s):
    return [ord(c) for c in s]


def ref_to_wire(ref):
    """plain-integer dump -> the digit form ElfRef.tla reads"""
    return {
        "ident": ref["ident"],
        "eh": {k: digits(v) for k, v in ref["eh"].items()},
        "ph": [{k: digits(v) for k, v in p.items()} for p in ref["ph"]],
        "sh": [dict([(k, digits(v)) for k, v in s.items() if k != "name"] + [("name", codes(s["name"]))]) for s in ref["sh"]],
        "symtabs": [{"secname": codes(sec), "syms": [dict([(k, digits(v)) for k, v in y.items() if k != "name"] +
                                                             [("name", codes(y["name"]))]) for y in syms]}
                    for sec, syms in sorted(ref["symtabs"].items())],
    }


def pe_ref_to_wire(ref):
    return {"lfanew": ref["lfanew"],
            "coff": {k: digits(v) for k, v in ref["coff"].items()},
            "opt": {k: digits(v) for k, v in ref["opt"].items()},
            "dirs": [{k: digits(v) for k, v in d.items()} for d in ref["dirs"]],
            "secs": [dict([(k, digits(v)) for k, v in s.items() if k != "Name"] + [("Name", s["Name"])]) for s in ref["secs"]]}


def load_corpus(fmt="elf"):
    out = []
    for name in json.load(open(os.path.join(CORPUS, "INDEX.json"))):
        ref = json.load(open(os.path.join(CORPUS, name)))
        if ref.get("format") != fmt:
            continue
        path = os.path.join(CORPUS, ref["file"]) if ref["origin"] == "extra" else os.path.join(SAMPLES, ref["file"])
        out.append((ref, path))
    return out


def run_shard(args):
    module, cfg, lines, tag = args
    wd = tlc.workdir(tag)
    tf = os.path.join(wd, "files.ndjson")
    tlc.write_ndjson(tf, lines)
    res = tlc.run(module, cfg, env={"TRACE_FILE": tf}, workers=1, tag=tag, timeout=1800, xss="256m", xmx="3g")
    tlc.cleanup(wd)
    return res


QUICK_ELF = ("x86/prefixes.elf", "x86/flow.elf", "x64/flow.elf64", "x64/test_full.elf64", "sparc/saverestore",
             "arm/sc", "arm/sc.o", "riscv/TA.elf.signed")


def validate(ctx, fmt, module, cfg, compare, max_bytes=400000, shards=6, only=None, noref=(), strict_only=False):
    """returns the list of (ref, data, tlc record) for the files of the corpus (+ the sample files listed in noref, for
    which no reference dump exists: they get no T-ref verdict, only TLC's report of their bytes)"""
    items = []
    for rel in noref:
        path = os.path.join(SAMPLES, rel)
        if os.path.exists(path) and not (strict_only and rel not in only):
            items.append(({"file": rel, "origin": "samples", "noref": True}, open(path, "rb").read()))
    for ref, path in load_corpus(fmt):
        if only is not None and (strict_only or ref["origin"] != "extra") and ref["file"] not in only:
            continue
        if not os.path.exists(path):
            ctx.count("corpus_files_missing", 1)
            continue
        data = open(path, "rb").read()
        if hashlib.sha256(data).hexdigest() != ref["sha256"]:
            # the sample changed since the corpus was built: the vendored dump does not describe it any more
            ctx.count("corpus_files_stale", 1)
            continue
        if len(data) > max_bytes:
            ctx.count("corpus_files_too_big", 1)
            continue
        items.append((ref, data))
    if not items:
        if only is not None and strict_only:
            return []
        raise tlc.MachineryError("no usable reference file for format " + fmt)
    # biggest first, round-robin over the shards
    order = sorted(range(len(items)), key=lambda i: -len(items[i][1]))
    buckets = [[] for _ in range(min(shards, len(items)))]
    for n, i in enumerate(order):
        ref, data = items[i]
        if ref.get("noref"):
            buckets[n % len(buckets)].append({"t": i, "bytes": list(data), "hasref": False, "ref": {}})
            continue
        buckets[n % len(buckets)].append({"t": i, "bytes": list(data), "hasref": True,
                                          "ref": ref_to_wire(ref) if fmt == "elf" else compare(ref)})
    jobs = [(module, cfg, b, "c14ref_%s_%d" % (fmt, k)) for k, b in enumerate(buckets)]
    with ThreadPoolExecutor(len(jobs)) as ex:
        results = list(ex.map(run_shard, jobs))
    recs = {}
    for res in results:
        ctx.add_tlc(res, "T-ref:" + cfg)
        for r in res.printed:
            recs[r["t"]] = r
    out = []
    for i, (ref, data) in enumerate(items):
        if i not in recs:
            raise tlc.MachineryError("no verdict for reference file %s" % ref["file"])
        r = recs[i]
        if ref.get("noref"):
            if "expect" not in r:
                ctx.count("samples_not_recognised_by_spec_" + fmt, 1)
                continue
            out.append((ref, data, r))
            continue
        if r["verdict"] != "ok":
            # the reference tool and the specification disagree about what the file encodes: the oracle cannot be
            # trusted for this format until that is resolved (never reported as a property verdict)
            raise tlc.MachineryError("reference dump of %s rejected by %s: clause %s" % (ref["file"], module, r["verdict"]))
        ctx.count("reference_dumps_validated_" + fmt, 1)
        out.append((ref, data, r))
    return out


def run_elf(ctx, quick=False, only=None):
    c14.quiet()
    n = 0
    for ref, data, r in validate(ctx, "elf", "ElfRef", "ElfRef.cfg", None, only=only or (QUICK_ELF if quick else None),
                                 shards=4 if quick else 6, strict_only=only is not None):
        out, drifts = [], []
        try:
            p = c14.open_elf(data)
        except Exception as ex:
            ctx.fail("C14:elf:open:raises:" + type(ex).__name__, "%s: Elf() raised %r" % (ref["file"], ex), {"file": ref["file"]})
            continue
        try:
            c14.compare_report(p, r["expect"], out)
            c14.compare_queries(p, r["expect"], r["queries"], out, drifts)
        except Exception as ex:
            out.append(("C14:elf:report:raises:" + type(ex).__name__, "reading the parsed object raised %r" % (ex,)))
        seen = set()
        for key, what in out:
            if key in seen:
                continue
            seen.add(key)
            ctx.fail(key, "sample %s: %s" % (ref["file"], what), {"source": "T:samples", "format": "elf", "file": ref["file"]})
        for d in drifts:
            ctx.drift(d)
        n += 1
        ctx.case(key=("elf-sample", ref["file"]))
    ctx.trace(n)
    ctx.count("elf_samples_checked", n)


def run_pe(ctx, quick=False, only=None):
    """T-ref for the PE dumps + T: the PE samples through amoco (CoST.exe has no reference dump: llvm-readobj rejects it)"""
    from . import c14pe
    c14.quiet()
    n = 0
    for ref, data, r in validate(ctx, "pe", "PeRef", "PeRef.cfg", pe_ref_to_wire, shards=3, max_bytes=600000,
                                 noref=("x86/CoST.exe",), only=only, strict_only=only is not None):
        out, drifts = [], []
        try:
            p = c14pe.open_pe(data)
        except Exception as ex:
            ctx.fail("C14:pe:open:raises:" + type(ex).__name__, "%s: PE() raised %r" % (ref["file"], ex), {"file": ref["file"]})
            continue
        try:
            if c14pe.compare_report(p, r["expect"], out):
                c14pe.compare_queries(p, r["expect"], r["queries"], out, drifts)
        except Exception as ex:
            out.append(("C14:pe:report:raises:" + type(ex).__name__, "reading the parsed object raised %r" % (ex,)))
        seen = set()
        for key, what in out:
            if key not in seen:
                seen.add(key)
                ctx.fail(key, "sample %s: %s" % (ref["file"], what), {"source": "T:samples", "format": "pe", "file": ref["file"]})
        for d in drifts:
            ctx.drift(d)
        n += 1
        ctx.case(key=("pe-sample", ref["file"]))
    ctx.trace(n)
    ctx.count("pe_samples_checked", n)


def macho_ref_to_wire(ref):
    def cmd(c):
        kind = "seg" if "seg" in c else "main" if "entryoff" in c else "thread" if "pc" in c else "other"
        d = {"kind": kind, "cmd": digits(c["cmd"], 4) if "cmd" in c else [], "cmdsize": digits(c["cmdsize"], 4)}
        if kind == "seg":
            d["seg"] = dict([(k, digits(v & 0xFFFFFFFFFFFFFFFF)) for k, v in c["seg"].items() if k != "segname"] + [("segname", c["seg"]["segname"])])
            d["sects"] = [dict([(k, digits(v)) for k, v in sc.items() if k not in ("sectname", "segname")] +
                               [("sectname", sc["sectname"]), ("segname", sc["segname"])]) for sc in c["sects"]]
        elif kind == "main":
            d["entryoff"] = digits(c["entryoff"])
        elif kind == "thread":
            d["pc"] = digits(c["pc"])
        return d
    return {"is64": ref["is64"], "hdr": {k: digits(v, 4) for k, v in ref["hdr"].items()}, "cmds": [cmd(c) for c in ref["cmds"]],
            "syms": [dict([(k, digits(v)) for k, v in y.items() if k != "name"] + [("name", codes(y["name"]))]) for y in ref["syms"]]}


def run_macho(ctx, quick=False, only=None):
    from . import c14macho
    c14.quiet()
    n = 0
    for ref, data, r in validate(ctx, "macho", "MachORef", "MachORef.cfg", macho_ref_to_wire, shards=2, only=only, strict_only=only is not None):
        out, drifts = [], []
        try:
            p = c14macho.open_macho(data)
        except Exception as ex:
            key = "C14:macho:open:raises:" + type(ex).__name__ + (":" + str(ex) if type(ex).__name__ == "StructureError" else "")
            ctx.fail(key, "%s: MachO() raised %r" % (ref["file"], ex), {"file": ref["file"]})
            continue
        try:
            if c14macho.compare_report(p, r["expect"], out):
                c14macho.compare_queries(p, r["expect"], r["queries"], out, drifts)
        except Exception as ex:
            out.append(("C14:macho:report:raises:" + type(ex).__name__, "reading the parsed object raised %r" % (ex,)))
        seen = set()
        for key, what in out:
            if key not in seen:
                seen.add(key)
                ctx.fail(key, "sample %s: %s" % (ref["file"], what), {"source": "T:samples", "format": "macho", "file": ref["file"]})
        for d in drifts:
            ctx.drift(d)
        n += 1
        ctx.case(key=("macho-sample", ref["file"]))
    ctx.trace(n)
    ctx.count("macho_samples_checked", n)
