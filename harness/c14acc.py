"""Phases of the C14 / C15 checks run concurrently (each is mostly a TLC subprocess); a phase records what it
would tell the framework context into an Acc and the main thread replays the recordings in a fixed order, so that
the evidence and the verdict do not depend on scheduling."""


class Acc(object):
    def __init__(self, tier, seed):
        self.tier = tier
        self.seed = seed
        self.ops = []
        self.extra = {}

    def _rec(name):
        def f(self, *a, **k):
            self.ops.append((name, a, k))
        return f

    add_tlc = _rec("add_tlc")
    case = _rec("case")
    trace = _rec("trace")
    sample = _rec("sample")
    fail = _rec("fail")
    drift = _rec("drift")
    note = _rec("note")
    count = _rec("count")
    assume = _rec("assume")

    def apply(self, ctx):
        for name, a, k in self.ops:
            getattr(ctx, name)(*a, **k)
        for k, v in self.extra.items():
            if isinstance(v, list):
                ctx.extra.setdefault(k, []).extend(v)
            else:
                ctx.extra[k] = v


def run_phases(ctx, phases):
    """phases: list of (name, fn(acc)); fn may raise MachineryError.  Runs them in threads, applies in order."""
    from concurrent.futures import ThreadPoolExecutor
    accs = [Acc(ctx.tier, ctx.seed) for _ in phases]
    with ThreadPoolExecutor(len(phases)) as ex:
        futs = [ex.submit(fn, acc) for (name, fn), acc in zip(phases, accs)]
        errs = []
        for f in futs:
            try:
                f.result()
            except Exception as e:      # re-raised below, after every phase has finished
                errs.append(e)
    if errs:
        raise errs[0]
    for acc in accs:
        acc.apply(ctx)
