"""Phases of the C14 / C15 checks run concurrently (each is mostly a TLC subprocess); a phase records what it
would tell the framework context into an Acc and the main thread replays the recordings in a fixed order, so that
the evidence and the verdict do not depend on scheduling."""


class Acc(object):
    def __init__(self, tier, seed):
        self.tier = tier
        self.seed = seed
        self.ops = []
        self.extra = {}

    def _rec(name):
        def f(self, *a, **k):
            self.ops.append((name, a, k))
        return f

    add_tlc = _rec("add_tlc")
    case = _rec("case")
    trace = _rec("trace")
    sample = _rec("sample")
    fail = _rec("fail")
    drift = _rec("drift")
    note = _rec("note")
    count = _rec("count")
    assume = _rec("assume")

    def apply(self, ctx):
        for name, a, k in self.ops:
            getattr(ctx, name)(*a, **k)
        for k, v in self.extra.items():
            if isinstance(v, list):
                ctx.extra.setdefault(k, []).extend(v)
            else:
                ctx.extra[k] = v


def run_phases(ctx, phases):
    """phases: list of (name, fn(acc)); fn may raise MachineryError.  Runs them in threads, applies in order."""
    from concurrent.futures import ThreadPoolExecutor
    accs = [Acc(ctx.tier, ctx.seed) for _ in phases]
    with ThreadPoolExecutor(len(phases)) as ex:
        futs = [ex.submit(fn, acc) for (name, fn), acc in zip(phases, accs)]
        errs = []
        for f in futs:
            try:
                f.result()
            except Exception as e:      # re-raised below, after every phase has finished
                errs.append(e)
    if errs:
        raise errs[0]
    for acc in accs:
        acc.apply(ctx)


def replay_saved(ctx, path):
    """./check <ID> --replay <path>: re-execute a saved failing case against the current tree.
    A generated case carries the behaviour TLC emitted (inputs and TLC's expectations); it is stepped through amoco again
    with the same replayer.  A sample case names the file; the caller re-runs the sample pipeline (TLC included) for it."""
    import json
    from . import c14, c14hex, c14pe, c14macho, c15
    case = json.load(open(path)).get("case") or {}
    if "behaviour" not in case:
        return case.get("file")
    c14.quiet()
    name = case["replayer"]
    beh = case["behaviour"]
    if name == "c14.replay_elf":
        fails = c14.replay_elf(beh)["fails"]
    elif name == "c14hex.replay_stream":
        fails = c14hex.replay_stream(beh)["fails"]
    elif name == "c14pe.replay_pe":
        fails = c14pe.replay_pe(beh)["fails"]
    elif name == "c14macho.replay_macho":
        fails = c14macho.replay_macho(beh)["fails"]
    elif name == "c15.replay_elf":
        fails = c15.replay_elf(beh)
    elif name == "c15.replay_stream":
        fails = c15.replay_stream(beh)[0]
    elif name.startswith("c15.replay_image:"):
        fails = c15.replay_image(beh, name.split(":")[1])
    else:
        raise ValueError("unknown replayer " + name)
    seen = set()
    for key, what in fails:
        if key not in seen:
            seen.add(key)
            ctx.fail(key, "replayed case: " + what, case)
    ctx.case(key=("replay", path))
    ctx.trace(1)
    ctx.sample({"replayed": path, "replayer": name, "failures": sorted(seen)})
    ctx.states = ctx.states or 1
    ctx.transitions = ctx.transitions or 1
    ctx.rule = "re-execution of one saved case (behaviour generated and annotated by TLC in an earlier run)"
    return None
