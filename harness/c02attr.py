"""Attribution of C02 failures to known findings that are *named by a patch*.

A deviation of amoco that lives in cas/mapper.py (e.g. "map items keyed by a pointer lose the endianness of
the store") shows up under every big-endian ISA, in registers and memory, several instructions after its cause:
it cannot be keyed by input.  It is named instead by the smallest patch that removes it (proposed_fixes/*.diff):
a failing case is attributed to the finding F iff the SAME case, re-executed on a scratch copy of the tree
under verification with only F's patch applied, is accepted by TLC (or, when several listed deviations hit one
case, with a set of patches each of which is necessary).  A case that still fails with every listed patch
applied is not explained by them: its residual failure is reported with its own narrow key.

Scratch copies live under .work/ and are rebuilt at every invocation (nothing derived from /repo is cached)."""
import glob
import json
import os
import shutil
import subprocess
import sys
import threading
from concurrent.futures import ThreadPoolExecutor

from . import tlc

FIXDIR = os.path.join(tlc.VERIF, "proposed_fixes")
# patches that define named deviations of C02: everything proposed for the mapper / expression core
PATTERNS = ("C02-*.diff", "C09-*.diff", "C19-*.diff")


def repo():
    return os.environ.get("VERIF_REPO", "/repo")


def list_fixes():
    out = []
    for pat in PATTERNS:
        for p in sorted(glob.glob(os.path.join(FIXDIR, pat))):
            out.append((os.path.basename(p)[:-5], p))
    return out


class Trees(object):
    """scratch copies of the amoco package, one per set of applied patches"""

    def __init__(self, tag="c02fix"):
        self.root = tlc.workdir(tag)
        self.made = {}
        self.skipped = {}
        self.applicable = None
        self.lock = threading.RLock()

    def _copy(self, name):
        d = os.path.join(self.root, name)
        os.makedirs(d)
        shutil.copytree(os.path.join(repo(), "amoco"), os.path.join(d, "amoco"),
                        ignore=shutil.ignore_patterns("__pycache__", "*.pyc"))
        return d

    def _apply(self, d, path):
        p = subprocess.run(["patch", "-p1", "-s", "-f", "-N", "--fuzz=3", "-r", "-", "-i", path], cwd=d,
                           stdout=subprocess.PIPE, stderr=subprocess.STDOUT)
        return p.returncode == 0

    def applicable_fixes(self):
        """the listed patches that apply to the tree under verification (one already applied upstream, or
        one that no longer matches, is not a deviation of this tree)"""
        with self.lock:
            if self.applicable is None:
                self.applicable = []
                d = self._copy("probe")
                for slug, path in list_fixes():
                    # already in the tree (the reverse patch applies cleanly)?  then it names no deviation of this tree;
                    # an insertion-only patch would otherwise "apply" a second time
                    r = subprocess.run(["patch", "-p1", "-s", "-f", "-R", "--dry-run", "--fuzz=0", "-r", "-", "-i", path],
                                       cwd=d, stdout=subprocess.PIPE, stderr=subprocess.STDOUT)
                    if r.returncode == 0:
                        continue
                    p = subprocess.run(["patch", "-p1", "-s", "-f", "-N", "--dry-run", "--fuzz=3", "-r", "-", "-i", path],
                                       cwd=d, stdout=subprocess.PIPE, stderr=subprocess.STDOUT)
                    if p.returncode == 0:
                        self.applicable.append((slug, path))
                shutil.rmtree(d, ignore_errors=True)
            return self.applicable

    def tree(self, slugs):
        """path of a copy with the patches `slugs` applied in name order.  Two listed patches may repair the
        same lines (one subsumes the other): a patch that no longer applies on top of the earlier ones is
        skipped and recorded in self.skipped - the earlier patch already changed that code."""
        key = tuple(sorted(slugs))
        fixes = dict(self.applicable_fixes())
        with self.lock:
            if key in self.made:
                return self.made[key]
            d = self._copy("t%d" % len(self.made))
            applied = []
            for s in key:
                if s in fixes and self._apply(d, fixes[s]):
                    applied.append(s)
                else:
                    self.skipped.setdefault(key, []).append(s)
            self.made[key] = d if applied else None
            return self.made[key]

    def cleanup(self):
        tlc.cleanup(self.root)


def run_child(tree, job, tag):
    """re-execute the job in a fresh interpreter that imports amoco from `tree`"""
    inp = os.path.join(tree, "job_%s.json" % tag)
    outp = os.path.join(tree, "out_%s.json" % tag)
    with open(inp, "w") as f:
        json.dump(job, f)
    env = dict(os.environ)
    env["PYTHONPATH"] = tree + os.pathsep + tlc.VERIF
    env["PYTHONHASHSEED"] = "0"
    env["PYTHONDONTWRITEBYTECODE"] = "1"
    p = subprocess.run([sys.executable, "-m", "harness.c02child", inp, outp], cwd=tlc.VERIF, env=env,
                       stdout=subprocess.PIPE, stderr=subprocess.STDOUT, timeout=3000)
    if p.returncode != 0 or not os.path.exists(outp):
        raise tlc.MachineryError("c02child failed in %s: %s" % (tree, p.stdout.decode("utf-8", "replace")[-2000:]))
    with open(outp) as f:
        return json.load(f)


def explain(items, fails_in, trees):
    """items: {id: item}; fails_in(slugs, ids) -> set of ids that still fail with exactly `slugs` applied (thread
    safe).  returns {id: sorted list of slugs that explain it (each necessary), or None if unexplained}.
    All patches together and every single patch are tried concurrently on all failing items; only items that need
    several patches at once go through the (sequential) minimisation."""
    fixes = [s for s, _ in trees.applicable_fixes()]
    ids = set(items)
    out = dict((i, None) for i in ids)
    if not fixes or not ids:
        return out
    with ThreadPoolExecutor(min(8, len(fixes) + 1)) as ex:
        fall = ex.submit(fails_in, fixes, ids)
        fone = dict((s, ex.submit(fails_in, [s], ids)) for s in fixes)
        still = fall.result()
        bad1 = dict((s, f.result()) for s, f in fone.items())
    rest = set()
    for i in ids - still:
        ok = [s for s in fixes if i not in bad1[s]]
        if ok:
            out[i] = [ok[0]]
        else:
            rest.add(i)
    # several deviations at once: drop every patch whose removal keeps the case accepted
    if rest:
        need = dict((i, list(fixes)) for i in rest)
        for s in fixes:
            bysets = {}
            for i in rest:
                if s in need[i]:
                    bysets.setdefault(tuple(need[i]), []).append(i)
            for cur, members in bysets.items():
                trial = [x for x in cur if x != s]
                if not trial:
                    continue
                bad = fails_in(trial, set(members))
                for i in members:
                    if i not in bad:
                        need[i] = trial
        for i in rest:
            out[i] = sorted(need[i])
    return out
