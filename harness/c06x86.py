"""C06, x86 part: forms from TLC (specs/X86Gen.tla) -> concrete vectors -> native execution (harness/x86run.c)
and amoco (cpu_x64 / cpu_x86) -> validation by specs/X86Trace.tla.

Python (a) concretises the classes TLC chose into pre-states with the seeded rng (inputs only; a vector whose
accesses leave the scratch area is rejected by the specification itself), (b) runs the processor and amoco and
projects what they produced to plain data, (c) never computes an expected value: every verdict is X86Trace's."""
import gzip
import importlib
import json
import multiprocessing as mp
import multiprocessing.pool
import os
import random
import subprocess

from . import tlc
from .ser import limbs, unlimbs

VERIF = tlc.VERIF
ENC = os.path.join(VERIF, "corpus", "x86enc", "enc.json.gz")
CORPUS = os.path.join(VERIF, "corpus", "x86cpu", "vectors.jsonl.gz")
RUNNER = os.path.join(VERIF, ".work", "bin", "x86run")
RUNNER_SRC = os.path.join(VERIF, "harness", "x86run.c")
DATA = 0x10002000
NEXT = 0x10000800
MEMN = 64
M64 = (1 << 64) - 1
FLAGBITS = {"cf": 0, "pf": 2, "af": 4, "zf": 6, "sf": 7, "of": 11, "df": 10}
STATUS = ["cf", "pf", "af", "zf", "sf", "of"]
R64 = ["rax", "rcx", "rdx", "rbx", "rsp", "rbp", "rsi", "rdi", "r8", "r9", "r10", "r11", "r12", "r13", "r14", "r15"]
R32 = ["eax", "ecx", "edx", "ebx", "esp", "ebp", "esi", "edi"]
SHIFTS = ("shl", "shr", "sar", "rol", "ror", "rcl", "rcr")


def load_enc():
    with gzip.open(ENC, "rb") as f:
        return json.loads(f.read().decode())


def form_key(rec):
    f = rec["f"]
    if f["mn"] == "jcc":
        return "jcc %d %d/%d" % (f["cc"], f["o1"]["v"], f["ssz"])
    return rec["asm"]


def form_bytes(rec, enc):
    if rec["f"]["mn"] == "jcc":
        return bytes(rec["jb"])
    h = enc["enc"].get(rec["asm"])
    return bytes.fromhex(h) if h else None


# --------------------------------------------------------------------------------------------
# concretisation of TLC's classes (inputs only)
def _cls_val(c, sz, rng):
    if c == "zero":
        return 0
    if c == "one":
        return 1
    if c == "ones":
        return (1 << sz) - 1
    if c == "min":
        return 1 << (sz - 1)
    if c == "max":
        return (1 << (sz - 1)) - 1
    if c == "small":
        return rng.randrange(0, 130) & ((1 << sz) - 1)
    return rng.getrandbits(sz)


def _put_reg(regs, o, sz, v):
    if o["h"]:
        n = o["n"] - 4
        regs[n] = (regs[n] & ~0xFF00) | ((v & 0xFF) << 8)
    else:
        m = (1 << sz) - 1
        regs[o["n"]] = (regs[o["n"]] & ~m & M64) | (v & m)


def _get_reg(regs, o, sz):
    if o["h"]:
        return (regs[o["n"] - 4] >> 8) & 0xFF
    return regs[o["n"]] & ((1 << sz) - 1)


def _place_mem(regs, mem, o, n, offc, rng):
    """make the memory operand o address n bytes inside the scratch area; returns the offset"""
    if o["rip"]:
        return o["d"] - (DATA - NEXT)
    if o["b"] < 0 and o["x"] < 0:
        return o["d"] - DATA
    off = {"first": 0, "odd": 1 if n < MEMN else 0, "last": MEMN - n}.get(offc)
    if off is None:
        off = rng.randrange(0, MEMN - n + 1)
    target = DATA + off - o["d"]
    if o["x"] >= 0:
        idx = rng.getrandbits(64)
        regs[o["x"]] = idx
        target -= o["sc"] * idx
    if o["a32"]:
        regs[o["b"]] = (rng.getrandbits(32) << 32) | (target & 0xFFFFFFFF)
    else:
        regs[o["b"]] = target & M64
    return off


def opsize(f, which):
    mn, sz = f["mn"], f["sz"]
    if which == 1:
        return 8 if mn == "setcc" else sz
    if mn in ("movzx", "movsx", "movsxd"):
        return f["ssz"]
    return sz


def concretise(rec, rng, enc):
    """one vector for the form rec (or None when the form has no bytes)"""
    f = rec["f"]
    code = form_bytes(rec, enc)
    if code is None:
        return None
    cls = rec["cls"]
    mn, sz = f["mn"], f["sz"]
    va, vb = rng.choice(cls["vals"])
    flc = rng.choice(cls["fls"])
    offc = rng.choice(cls["offs"])
    regs = [rng.getrandbits(64) for _ in range(16)]
    mem = [rng.getrandbits(8) for _ in range(MEMN)]
    fl = 0
    if flc == "ones":
        fl = sum(1 << FLAGBITS[n] for n in STATUS)
    elif flc == "rand":
        fl = sum(1 << FLAGBITS[n] for n in STATUS if rng.random() < 0.5)
    if mn in ("std", "cld") and rng.random() < 0.5:
        fl |= 1 << FLAGBITS["df"]
    o1, o2, o3 = f["o1"], f["o2"], f["o3"]
    esz = sz if sz else 64

    def setop(o, n_bits, c):
        if o["k"] == "r":
            _put_reg(regs, o, n_bits, _cls_val(c, n_bits, rng))
        elif o["k"] == "m":
            nb = n_bits // 8
            off = _place_mem(regs, mem, o, nb, offc, rng)
            if 0 <= off <= MEMN - nb:
                v = _cls_val(c, n_bits, rng)
                mem[off:off + nb] = list(v.to_bytes(nb, "little"))
    # data operands
    if mn == "lea":
        setop(o1, sz, va)
        _place_mem(regs, mem, o2, 1, offc, rng)
        if rng.random() < 0.5 and o2["b"] >= 0 and not o2["rip"]:
            regs[o2["b"]] = rng.getrandbits(64)     # lea does not access memory: any address will do
    elif mn in ("mul", "imul", "div", "idiv") and o2["k"] == "n":
        _put_reg(regs, {"n": 0, "h": 0}, esz, _cls_val(va, esz, rng))
        setop(o1, sz, vb if not (mn in ("div", "idiv") and vb == "zero" and rng.random() < 0.8) else "rand")
        if mn in ("div", "idiv") and rng.random() < 0.8 and sz > 8:
            # keep most quotients representable: high half small relative to the divisor
            d = _get_reg(regs, o1, sz) if o1["k"] == "r" else None
            if mn == "div":
                hi = (d >> 1) if d else 0
            else:
                a = regs[0] & ((1 << sz) - 1)
                hi = ((1 << sz) - 1) if (a >> (sz - 1)) & 1 else 0
            _put_reg(regs, {"n": 2, "h": 0}, sz, hi)
        elif mn in ("div", "idiv") and sz == 8 and rng.random() < 0.8:
            regs[0] = (regs[0] & ~0xFF00) | ((rng.getrandbits(8) & 0x3F) << 8 if mn == "div" else (0xFF00 if regs[0] & 0x80 else 0))
    else:
        if o1["k"] in ("r", "m"):
            setop(o1, opsize(f, 1), va)
        if o2["k"] in ("r", "m") and not (o2["k"] == "r" and o1["k"] == "r" and o2["n"] == o1["n"] and o2["h"] == o1["h"]):
            setop(o2, opsize(f, 2), vb)
        if o3["k"] == "r":
            setop(o3, sz, "rand")
    if mn == "cmpxchg" and rng.random() < 0.5:
        # accumulator equal to the destination
        if o1["k"] == "r":
            _put_reg(regs, {"n": 0, "h": 0}, sz, _get_reg(regs, o1, sz))
        else:
            ea_off = None
            o = o1
            if o["rip"]:
                ea_off = o["d"] - (DATA - NEXT)
            elif o["b"] < 0:
                ea_off = o["d"] - DATA
            else:
                base = regs[o["b"]]
                idx = regs[o["x"]] * o["sc"] if o["x"] >= 0 else 0
                a = (base + idx + o["d"]) & (0xFFFFFFFF if o["a32"] else M64)
                ea_off = a - DATA
            nb = sz // 8
            if 0 <= ea_off <= MEMN - nb:
                _put_reg(regs, {"n": 0, "h": 0}, sz, int.from_bytes(bytes(mem[ea_off:ea_off + nb]), "little"))
    if o2["k"] == "cl" or o3["k"] == "cl":
        regs[1] = (regs[1] & ~0xFF & M64) | (rng.choice(cls["cnts"]) & 0xFF)
    if mn in ("bt", "bts", "btr", "btc") and o2["k"] == "r" and rng.random() < 0.5:
        _put_reg(regs, o2, sz, rng.randrange(0, 2 * sz))
    if mn in ("bsf", "bsr") and rng.random() < 0.4:
        b = 1 << rng.randrange(0, sz)
        if o2["k"] == "r":
            _put_reg(regs, o2, sz, b | (rng.getrandbits(sz) if rng.random() < 0.5 else 0))
    # stack
    if mn == "push":
        nb = sz // 8
        keep = regs[4]
        regs[4] = DATA + rng.choice([nb, MEMN, rng.randrange(nb, MEMN + 1)])
        if o1["k"] == "m" and o1["b"] == 4:
            regs[4] = keep
    if mn == "pop":
        nb = sz // 8
        regs[4] = DATA + rng.choice([0, MEMN - nb, rng.randrange(0, MEMN - nb + 1)])
    br = f["o1"]["v"] if mn == "jcc" else 0
    return {"k": form_key(rec), "f": f, "hex": code.hex(), "len": len(code), "br": br,
            "r": regs, "fl": fl, "m": bytes(mem).hex()}


# --------------------------------------------------------------------------------------------
# the processor
def have_runner():
    if os.path.exists(RUNNER) and os.access(RUNNER, os.X_OK):
        return True
    try:
        if os.uname().machine != "x86_64":
            return False
        os.makedirs(os.path.dirname(RUNNER), exist_ok=True)
        p = subprocess.run(["gcc", "-O1", "-o", RUNNER, RUNNER_SRC], stdout=subprocess.PIPE, stderr=subprocess.PIPE)
        return p.returncode == 0 and os.path.exists(RUNNER)
    except Exception:
        return False


def native(vectors):
    """run the vectors on the host processor; returns a list of cpu results (or None where the runner failed)"""
    lines = []
    for i, v in enumerate(vectors):
        lines.append("%d %s %d %x %s %s" % (i, v["hex"], v["br"], v["fl"], " ".join("%x" % x for x in v["r"]), v["m"]))
    p = subprocess.run([RUNNER], input=("\n".join(lines) + "\n").encode(), stdout=subprocess.PIPE, stderr=subprocess.PIPE)
    if p.returncode != 0:
        raise tlc.MachineryError("x86run failed rc=%s %s" % (p.returncode, p.stderr.decode()[:300]))
    out = [None] * len(vectors)
    for ln in p.stdout.decode().splitlines():
        t = ln.split()
        i = int(t[0])
        sig = int(t[1])
        if sig != 0:
            out[i] = {"sig": sig}
        else:
            out[i] = {"sig": 0, "fl": int(t[2], 16), "r": [int(x, 16) for x in t[3:19]], "m": t[19], "rip": int(t[20])}
    return out


def native_parallel(vectors, nproc):
    if not vectors:
        return []
    parts = tlc.shard(vectors, nproc)
    with mp.pool.ThreadPool(len(parts)) as tp:
        res = tp.map(native, parts)
    return [x for part in res for x in part]


# --------------------------------------------------------------------------------------------
# amoco
_cpus = {}


def quiet():
    from amoco.logger import Log
    Log.__init__.__defaults__[0].setLevel(1000)


def cpu_of(mode):
    if mode not in _cpus:
        quiet()
        _cpus[mode] = importlib.import_module({"x64": "amoco.arch.x64.cpu_x64", "x86": "amoco.arch.x86.cpu_x86"}[mode])
    return _cpus[mode]


def known_bits(e, depth=0):
    """(value, mask) of the bits of expression e that are constants, reading only cst / comp / slc structure"""
    from . import ser
    k = ser.kind(e)
    if k == "cst":
        return e.v & ((1 << e.size) - 1), (1 << e.size) - 1
    if depth > 8:
        return 0, 0
    if k == "comp":
        v = m = 0
        for (lo, hi), p in e.parts.items():
            pv, pm = known_bits(p, depth + 1)
            v |= (pv & ((1 << (hi - lo)) - 1)) << lo
            m |= (pm & ((1 << (hi - lo)) - 1)) << lo
        return v, m
    if k == "slc":
        pv, pm = known_bits(e.x, depth + 1)
        return (pv >> e.pos) & ((1 << e.size) - 1), (pm >> e.pos) & ((1 << e.size) - 1)
    return 0, 0


def amoco_run(v, mode):
    """decode v's bytes with cpu_x64 / cpu_x86, apply to v's pre-state, project the post-state"""
    from amoco.cas.mapper import mapper
    from amoco.cas.expressions import cst, mem
    cpu = cpu_of(mode)
    w = 64 if mode == "x64" else 32
    code = bytes.fromhex(v["hex"])
    start = NEXT - len(code)
    if mode == "x64":
        regs = [getattr(cpu, n) for n in R64]
        pc, flagsreg = cpu.rip, cpu.rflags
    else:
        regs = [getattr(cpu, n) for n in R32]
        pc, flagsreg = cpu.eip, cpu.eflags
    for r in regs + [pc, flagsreg]:
        r.sf = False
    res = {"mode": mode, "dec": 0, "raised": "", "mn": "", "r": [], "fl": {}, "mem": [], "rip": -1, "out": 0}
    m = mapper()
    for i, r in enumerate(regs):
        m[r] = cst(v["r"][i] & ((1 << w) - 1), w)
    m[flagsreg] = cst(0x202 | v["fl"], w)
    m[pc] = cst(start, w)
    m.mmap.write(cst(DATA, w), bytes.fromhex(v["m"]))
    try:
        ins = cpu.disassemble(code, address=start)
    except Exception as ex:
        res["raised"] = "decode:%s: %s" % (type(ex).__name__, str(ex)[:60])
        return res
    if ins is None or ins.length != len(code):
        return res
    res["dec"] = 1
    res["mn"] = str(ins.mnemonic)
    if ("i_%s" % ins.mnemonic) not in cpu.uarch:
        # no semantics function: instruction.__call__ only logs a warning and leaves the state untouched
        res["raised"] = "nosem"
        return res
    try:
        ins(m)
    except Exception as ex:
        res["raised"] = "%s: %s" % (type(ex).__name__, str(ex)[:60])
        return res
    try:
        for r in regs:
            val, msk = known_bits(m(r))
            full = (1 << w) - 1
            if msk == full:
                res["r"].append(limbs(val, 64))
            elif msk == 0:
                res["r"].append([])
            else:
                res["r"].append(limbs(val & msk, 64) + limbs(msk, 64))
        for n in STATUS + ["df"]:
            val, msk = known_bits(m(getattr(cpu, n)))
            res["fl"][n] = (val & 1) if msk & 1 else -1
        val, msk = known_bits(m(pc))
        res["rip"] = ((val - start) & ((1 << w) - 1)) if msk == (1 << w) - 1 else -1
        if res["rip"] >= 1 << (w - 1):
            res["rip"] -= 1 << w
        if not -4096 < res["rip"] < 4096:
            res["rip"] = -1 if res["rip"] == -1 else 99999
        for k in range(MEMN):
            val, msk = known_bits(m(mem(cst(DATA + k, w), 8)))
            res["mem"].append(val if msk == 0xFF else -1)
        out = 0
        for key, z in m.mmap._zones.items():
            for o in z._map:
                if key is not None:
                    out += o.end - o.vaddr
                else:
                    out += max(0, min(o.end, DATA) - o.vaddr) + max(0, o.end - max(o.vaddr, DATA + MEMN))
        res["out"] = out
    except Exception as ex:
        res["raised"] = "observe:%s: %s" % (type(ex).__name__, str(ex)[:60])
    return res


def ia32_ok(v):
    """the bytes and their meaning are the same in IA-32 mode: decided on the form (no REX-only register, no 64-bit
    operand, no RIP-relative / absolute operand, no stack or accumulator-size defaults that depend on the mode) and
    on the pre-state (address registers below 2^32)"""
    f = v["f"]
    if f["sz"] == 64 or f["mn"] in ("push", "pop", "movsxd", "cdqe", "cqo", "jcc") or f["mn"] in ("inc", "dec") and f["o1"]["k"] == "r" and False:
        return False
    code = bytes.fromhex(v["hex"])
    i = 0
    while i < len(code) and code[i] in (0x66, 0x67, 0xF2, 0xF3):
        if code[i] == 0x67:
            return False
        i += 1
    if i < len(code) and 0x40 <= code[i] <= 0x4F:
        return False
    for o in (f["o1"], f["o2"], f["o3"]):
        if o["k"] == "r" and (o["n"] >= 8 or (f_size_for(f, o) == 8 and not o["h"] and o["n"] >= 4)):
            return False
        if o["k"] == "m":
            if o["rip"] or o["a32"] or (o["b"] < 0 and o["x"] < 0):
                return False
            for n in (o["b"], o["x"]):
                if n >= 8 or (n >= 0 and v["r"][n] >> 32):
                    return False
            if f["mn"] != "lea":
                pass
    return True


def f_size_for(f, o):
    if o is f["o1"]:
        return opsize(f, 1)
    if o is f["o2"]:
        return 8 if f["mn"] in SHIFTS else opsize(f, 2)
    return f["sz"]


# --------------------------------------------------------------------------------------------
# traces for X86Trace
def flrec(bits):
    return dict((n, (bits >> FLAGBITS[n]) & 1) for n in STATUS + ["df"])


def to_trace(t, v, cpu, ams):
    if "mem" in cpu:          # already in trace format (replay files)
        c = cpu
    elif cpu["sig"] != 0:
        c = {"sig": cpu["sig"], "r": [], "fl": flrec(0), "mem": [], "rip": -1}
    else:
        c = {"sig": 0, "r": [limbs(x, 64) for x in cpu["r"]], "fl": flrec(cpu["fl"]), "mem": list(bytes.fromhex(cpu["m"])),
             "rip": cpu["rip"]}
    return {"t": t, "f": v["f"], "len": v["len"],
            "pre": {"r": [limbs(x, 64) for x in v["r"]], "fl": flrec(v["fl"]), "mem": list(bytes.fromhex(v["m"]))},
            "cpu": c,
            "ams": [{"mode": a["mode"], "dec": a["dec"], "raised": a["raised"], "r": a["r"] if a["r"] else [[]] * 16,
                     "fl": a["fl"] if a["fl"] else flrec(0), "mem": a["mem"] if a["mem"] else [-1] * MEMN, "rip": a["rip"],
                     "out": a["out"]} for a in ams]}


def amoco_chunk(args):
    vectors, modes = args
    out = []
    for v in vectors:
        ams = [amoco_run(v, "x64")] if "x64" in modes else []
        if "x86" in modes and ia32_ok(v):
            ams.append(amoco_run(v, "x86"))
        out.append(ams)
    return out


def _validate(args):
    path, tag = args
    return tlc.run("X86Trace", "X86Trace.cfg", workers=1, env={"TRACE_FILE": path}, tag=tag, timeout=6000, xmx="3g")


def validate(ctx, traces, kind):
    if not traces:
        return {}
    wd = tlc.workdir("c06x86_" + kind)
    # wide multiplications / divisions are far more expensive: spread them
    cost = lambda tr: (40 if tr["f"]["mn"] in ("mul", "imul", "div", "idiv") and tr["f"]["sz"] == 64 else
                       10 if tr["f"]["mn"] in ("mul", "imul", "div", "idiv") else 1)
    order = sorted(range(len(traces)), key=lambda i: -cost(traces[i]))
    nsh = max(1, min(tlc.NCPU, len(traces) // 60 or 1))
    shards = [[] for _ in range(nsh)]
    for k, i in enumerate(order):
        shards[k % nsh].append(traces[i])
    jobs = []
    for i, sh in enumerate(shards):
        p = os.path.join(wd, "tr%d.ndjson" % i)
        tlc.write_ndjson(p, sh)
        jobs.append((p, "c06x86T%s_%d" % (kind, i)))
    with mp.pool.ThreadPool(len(jobs)) as tp:
        results = tp.map(_validate, jobs)
    verdicts = {}
    for res in results:
        ctx.add_tlc(res, "T:X86Trace(%s)" % kind)
        for v in res.printed:
            verdicts[v["t"]] = v
    for tr in traces:
        if tr["t"] not in verdicts:
            raise tlc.MachineryError("no verdict for x86 vector %s (%s)" % (tr["t"], kind))
    tlc.cleanup(wd)
    return verdicts


def form_label(f):
    """operand form of a vector, for finding keys: sizes and operand kinds"""
    def k(o):
        if o["k"] == "r":
            return "r8h" if o["h"] else "r"
        return {"m": "m", "i": "i", "cl": "cl", "n": ""}[o["k"]]
    ks = "".join(x for x in (k(f["o1"]), ",", k(f["o2"]), ",", k(f["o3"])) if x).strip(",").replace(",,", ",")
    return "%d:%s" % (f["sz"], ks.strip(","))


CCNAMES = ["O", "NO", "B", "AE", "E", "NE", "BE", "A", "S", "NS", "P", "NP", "L", "GE", "LE", "G"]


def mnemonic_of(f):
    if f["mn"] in ("setcc", "cmovcc", "jcc"):
        return "%s.%s" % (f["mn"][:-2].upper() + "cc", CCNAMES[f["cc"]])
    return f["mn"].upper()


def clause_of(b, f, am):
    """name of a deviating output for finding keys: dst / src / src2 for the form's own registers, the architectural
    name for implicit ones, the flag name, mem, rip, out, raised:<exception type>, nosem"""
    if b == "raised":
        r = am.get("raised", "")
        return "nosem" if r == "nosem" else "raised:" + r.split(":")[0 if not r.startswith(("decode:", "observe:")) else 1].strip()
    if b in R64:
        i = R64.index(b)
        for name, o in (("dst", f["o1"]), ("src", f["o2"]), ("src2", f["o3"])):
            if o["k"] == "r" and (o["n"] - 4 if o["h"] else o["n"]) == i:
                return name
        return b
    return b


HINTS = {
    "pf": "PF is the inverse of the processor's (parity8 looks the folded nibble up in 0x6996, the table of ODD parity)",
    "sf": "SF is computed as `x < 0` on a value that is read as unsigned, so it is always 0",
    "nosem": "the instruction decodes but has no semantics function: nothing changes, not even rip",
}


def report(ctx, vectors, traces, verdicts, source):
    """turn X86Trace verdicts into ctx.fail / ctx.drift; a disagreement between the specification and the processor
    is a broken oracle (MachineryError)"""
    broken = []
    st = {"compared": 0, "skipped": {}, "unknown_outputs": 0, "undecoded": 0, "x86_mode": 0}
    for v, tr in zip(vectors, traces):
        vd = verdicts[tr["t"]]
        f = v["f"]
        if vd["sc"]:
            broken.append("%s [%s] %s" % (v["k"], v["hex"], vd["sc"]))
            continue
        if vd["skip"]:
            st["skipped"][vd["skip"]] = st["skipped"].get(vd["skip"], 0) + 1
            continue
        st["compared"] += 1
        ctx.case(key=("x86", source[:1], mnemonic_of(f), f["sz"], form_label(f)), n=0)
        for a, am in zip(vd["am"], tr["ams"]):
            mode = a["mode"]
            if mode == "x86":
                st["x86_mode"] += 1
            if a["undec"]:
                st["undecoded"] += 1
                ctx.drift("%s: %s [%s] not decoded by amoco (outside the statement: nothing to apply)" % (mode, v["k"], v["hex"]))
                continue
            st["unknown_outputs"] += len(a["unk"])
            for b in sorted(a["bad"]):
                cl = clause_of(b, f, am)
                key = "C06:%s:%s:%d:%s" % (mode, mnemonic_of(f), f["sz"], cl)
                ctx.fail(key, "%s `%s` (bytes %s): amoco's %s differs from what the processor (and specs/X86.tla) produce%s"
                         % (mode, v["k"], v["hex"], cl, ("; " + HINTS[cl]) if cl in HINTS else ""),
                         {"isa": mode, "source": source, "vector": {k_: v[k_] for k_ in ("k", "f", "hex", "len", "br", "r", "fl", "m")},
                          "cpu": tr["cpu"], "amoco": am, "verdict": a})
    if broken:
        raise tlc.MachineryError("specs/X86.tla disagrees with the processor on %d vectors (%s), e.g. %s"
                                 % (len(broken), source, "; ".join(broken[:5])))
    return st


def repro(isa, hexbytes, kv):
    """python -m harness.c06repro x64|x86 <hexbytes> [rax=.. rbx=..] [r=<16 hex values, rax..r15, comma separated>]
    [fl=<rflags & 0xCD5>] [mem=<64 scratch bytes at 0x10002000, hex>]: amoco's result next to the processor's"""
    regs = [0] * 16
    if "r" in kv:
        regs = [int(x, 16) for x in kv["r"].split(",")]
    for k_, val in kv.items():
        if k_ in R64:
            regs[R64.index(k_)] = int(val, 0)
    v = {"hex": hexbytes, "len": len(hexbytes) // 2, "br": 0, "r": regs, "fl": int(kv.get("fl", "0"), 0),
         "m": kv.get("mem", bytes(range(1, MEMN + 1)).hex()), "f": None}
    a = amoco_run(v, isa)
    show = lambda l: ("%#x" % unlimbs(l[:4])) if len(l) == 4 else ("<unknown>" if not l else "<partly known>")
    print("%s %s: %s%s" % (isa, hexbytes, a["mn"] if a["dec"] else "<not decoded>", (" RAISED " + a["raised"]) if a["raised"] else ""))
    names = R64 if isa == "x64" else R32
    for i, n in enumerate(names):
        if a["r"] and (len(a["r"][i]) != 4 or unlimbs(a["r"][i]) != (regs[i] & ((1 << (64 if isa == "x64" else 32)) - 1))):
            print("  amoco %s: %#x -> %s" % (n, regs[i], show(a["r"][i])))
    print("  amoco flags:", a["fl"], " rip delta:", a["rip"])
    if have_runner() and isa == "x64":
        c = native([v])[0]
        if c["sig"]:
            print("  cpu: signal", c["sig"])
        else:
            for i, n in enumerate(R64):
                if c["r"][i] != regs[i]:
                    print("  cpu   %s: %#x -> %#x" % (n, regs[i], c["r"][i]))
            print("  cpu   flags:", flrec(c["fl"]), " rip delta:", c["rip"])


# --------------------------------------------------------------------------------------------
# the vendored processor executions
def load_corpus():
    meta = {}
    lines = []
    with gzip.open(CORPUS, "rb") as f:
        for ln in f:
            d = json.loads(ln.decode())
            if "meta" in d:
                meta = d["meta"]
            else:
                lines.append(d)
    return meta, lines


def corpus_vector(d, forms, enc):
    """(vector, cpu result) of a corpus line; None when the form is not one TLC enumerates today"""
    rec = forms.get(d["k"])
    if rec is None:
        return None
    code = form_bytes(rec, enc)
    if code is None:
        return None
    f = rec["f"]
    regs = [int(x, 16) for x in d["r"]]
    v = {"k": d["k"], "f": f, "hex": code.hex(), "len": len(code), "br": f["o1"]["v"] if f["mn"] == "jcc" else 0,
         "r": regs, "fl": d["fl"], "m": d["m"]}
    c = d["c"]
    if c["sig"]:
        cpu = {"sig": c["sig"]}
    else:
        r = list(regs)
        for i, x in c["r"].items():
            r[int(i)] = int(x, 16)
        m = bytearray(bytes.fromhex(d["m"]))
        for off, hx in c["m"]:
            b = bytes.fromhex(hx)
            m[off:off + len(b)] = b
        cpu = {"sig": 0, "fl": c["fl"], "r": r, "m": bytes(m).hex(), "rip": c["rip"]}
    return v, cpu
