"""child process of the C02 attribution step: re-execute recorded cases / behaviours on the amoco found on
PYTHONPATH (a scratch copy of the tree with ONE proposed fix applied) and write what is observed.
usage: python -m harness.c02child IN.json OUT.json"""
import json
import sys

from . import c02, c02gen, c02isa


def main(inp, outp):
    with open(inp) as f:
        job = json.load(f)
    c02isa.quiet()
    out = {"T": c02.rerun_cases(job.get("T", []), deep=job.get("deep")), "G": []}
    for g in job.get("G", []):
        try:
            o = c02gen.replay(g["behaviour"], g["seed"], g["mt"])
            out["G"].append({"id": g["id"], "fails": o["fails"]})
        except Exception as e:
            out["G"].append({"id": g["id"], "fails": [{"clause": "Harness", "what": "%s: %s" % (type(e).__name__, e)}]})
    with open(outp, "w") as f:
        json.dump(out, f)


if __name__ == "__main__":
    main(sys.argv[1], sys.argv[2])
