"""Reproduce a C02 finding by hand:  both routes for one instruction sequence on one seeded concrete state.

  PYTHONPATH=/repo:/verif /venv/bin/python -m harness.c02repro ISA VARIANT NOALIASING MEMTRACE HEX[,HEX...] [SEED]

prints, for every prefix, the registers / touched bytes on which route A (concrete, step by step), route B
(state >> map) and route E (map.eval(state)) are different constants, and exceptions raised on one route only."""
import random
import sys

from . import c02, c02isa


def main(argv):
    name, variant, noal, mt, code = argv[0], argv[1], int(argv[2]), int(argv[3]), argv[4]
    seed = int(argv[5]) if len(argv) > 5 else 0
    c02isa.quiet()
    isa = c02isa.Isa(name)
    c = c02.Case(isa, random.Random(seed), 1, noal, mt, variant, 0)
    c.code = [bytes.fromhex(x) for x in code.split(",")]
    c.configure()
    ins = c.decode_all(len(c.code))
    c.mnem = [str(i.mnemonic) for i in ins]
    print("sequence:", " ; ".join(str(i) for i in ins))
    extra = c.operand_regs()[0]
    c.plan = isa.plan_state(c.rng, extra, overlap=False)
    t = c.execute()
    bad = 0
    for st in t["steps"]:
        k = st["k"]
        if st["ra"] or st["rb"] or st["rx"] or st["re"]:
            print("prefix %d (%s): raised  A=%r  B=%r  E=%r" % (k, c.mnem[k - 1], st["ra"], st["rb"], st["re"]))
            if bool(st["ra"]) != bool(st["rb"]):
                bad += 1
            continue
        for ref, got, nm in ((st["A"], st["B"], "B"), (st["A"], st["E"], "E")):
            for x, y in zip(ref, got):
                if x["c"] == 1 and y["c"] == 1 and x["v"] != y["v"]:
                    bad += 1
                    print("prefix %d (%s): %s  A=%#x  %s=%#x" % (k, c.mnem[k - 1], x["n"], c02.ser.unlimbs(x["v"]), nm, c02.ser.unlimbs(y["v"])))
        for x, y in zip(st["mA"], st["mB"]):
            if x["c"] == 1 and y["c"] == 1 and x["v"] != y["v"]:
                bad += 1
                print("prefix %d (%s): byte @%#x  A=%#x  B=%#x" % (k, c.mnem[k - 1], c02.ser.unlimbs(x["a"]), x["v"], y["v"]))
    print("differences:", bad)
    return 1 if bad else 0


if __name__ == "__main__":
    sys.exit(main(sys.argv[1:]))
