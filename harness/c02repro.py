"""Reproduce a C02 finding by hand:  both routes for one instruction sequence on one seeded concrete state.

  PYTHONPATH=/repo:/verif /venv/bin/python -m harness.c02repro ISA VARIANT NOALIASING MEMTRACE HEX[,HEX...] [SEED]

prints, for every prefix, the registers / touched bytes on which route A (concrete, step by step), route B
(state >> map) and route E (map.eval(state)) are different constants, and exceptions raised on one route only."""
import random
import sys

from . import c02, c02isa


def one(isa, variant, noal, mt, code, seed, quiet=False):
    c = c02.Case(isa, random.Random(seed), 1, noal, mt, variant, 0)
    c.code = [bytes.fromhex(x) for x in code.split(",")]
    c.configure()
    ins = c.decode_all(len(c.code))
    c.mnem = [str(i.mnemonic) for i in ins]
    extra = c.operand_regs()[0]
    c.plan = isa.plan_state(c.rng, extra, overlap=False)
    t = c.execute()
    def show(i):
        try:
            return str(i)
        except Exception:            # some formatters raise (C17's subject): fall back to the mnemonic
            return str(i.mnemonic)
    lines = ["sequence: " + " ; ".join(show(i) for i in ins) + "   (state seed %d)" % seed]
    bad = 0
    for st in t["steps"]:
        k = st["k"]
        if st.get("gA") != st.get("gB"):
            bad += 1
            lines.append("prefix %d (%s): decode-mode globals differ  A=%s  B=%s" % (k, c.mnem[k - 1], st["gA"], st["gB"]))
        if st["ra"] or st["rb"] or st["rx"] or st["re"]:
            lines.append("prefix %d (%s): raised  A=%r  B=%r  E=%r" % (k, c.mnem[k - 1], st["ra"], st["rb"], st["re"]))
            if bool(st["ra"]) != bool(st["rb"]):
                bad += 1
            continue
        for ref, got, nm in ((st["A"], st["B"], "B"), (st["A"], st["E"], "E")):
            for x, y in zip(ref, got):
                if x["c"] == 1 and y["c"] == 1 and x["v"] != y["v"]:
                    bad += 1
                    lines.append("prefix %d (%s): %s  A=%#x  %s=%#x" % (k, c.mnem[k - 1], x["n"], c02.ser.unlimbs(x["v"]), nm, c02.ser.unlimbs(y["v"])))
        for x, y in zip(st["mA"], st["mB"]):
            if x["c"] == 1 and y["c"] == 1 and x["v"] != y["v"]:
                bad += 1
                lines.append("prefix %d (%s): byte @%#x  A=%#x  B=%#x" % (k, c.mnem[k - 1], c02.ser.unlimbs(x["a"]), x["v"], y["v"]))
    return bad, lines


def main(argv):
    name, variant, noal, mt, code = argv[0], argv[1], int(argv[2]), int(argv[3]), argv[4]
    c02isa.quiet()
    isa = c02isa.Isa(name)
    seeds = [int(argv[5])] if len(argv) > 5 else range(60)      # some defects need a particular operand value
    bad, lines = 0, []
    for seed in seeds:
        bad, lines = one(isa, variant, noal, mt, code, seed)
        if bad:
            break
    print("\n".join(lines))
    print("differences:", bad)
    return 1 if bad else 0


if __name__ == "__main__":
    sys.exit(main(sys.argv[1:]))
