# C04 finding: armv7 Thumb + big-endian instruction fetch hides every 16-bit spec
# run: PYTHONPATH=/repo:/verif /venv/bin/python -m harness.c04repro
import amoco.arch.arm.cpu_armv7 as cpu
from amoco.arch.arm.v7 import env, spec_thumb
from amoco.arch.core import DecodeError, InstructionError
env.internals.update(isetstate=1, ibigend=1)
data = bytes.fromhex("46080000")          # MOV r0, r1 fetched big-endian
acc = []
for s in spec_thumb.ISPECS:
    try:
        s.decode(data, -1, iclass=cpu.disassemble.iclass)
        acc.append(s.format)
    except (DecodeError, InstructionError):
        pass
print("specs accepting 46 08:", acc)                      # ['16[ 010001 10 D Rm(4) Rd(3) ]']
print("disassemble ->", cpu.disassemble(data))            # None (expected: mov r0, r1)
