"""Code -> spec binding for C01/C12/C13 through the guarded hooks of amoco/_verif_hooks.py.

Used as a pytest plugin (`-p harness.c01hook`) when the repository's own test-suite is run with
AMOCO_VERIF=1, and by the ISA driver below: every top-level call of oper / slicer / composer is recorded
as (operator, operand trees before, result tree or exception, operand trees after). The events are
validated by TLC with specs/ExprOpTrace.tla. Serialisation reads attributes only (harness/ser.py).
"""
import hashlib
import json
import os
import random

from . import ser

MAX_EVENTS = int(os.environ.get("AMOCO_VERIF_MAXEV", "6000"))
MAX_JSON = 6000


class Recorder(object):
    def __init__(self, path, seed=0):
        self.path = path
        self.seen = set()
        self.n = 0
        self.dropped = 0
        self.f = open(path, "w")
        self.rng = random.Random(seed)

    def sink(self, event, args, res, tok):
        try:
            name, phase = event.split(":")
            if phase == "pre":
                if self.n >= MAX_EVENTS:
                    return None
                return self.pre(name, args)
            if tok is not None:
                self.post(name, args, res, tok)
        except Exception as e:  # observing must never disturb the observed code
            self.dropped += 1
        return None

    def pre(self, name, args):
        if name == "oper":
            ops = [a for a in args[1:] if a is not None]
            head = {"ev": "oper", "s": args[0]}
        elif name == "slicer":
            ops = [args[0]]
            head = {"ev": "slicer", "pos": args[1], "n": args[2]}
        else:
            ops = list(args[0])
            head = {"ev": "composer"}
        if not all(ser.is_exp(o) for o in ops):
            return None
        before = [ser.tree(o) for o in ops]
        js = json.dumps([head, before], sort_keys=True)
        if len(js) > MAX_JSON:
            self.dropped += 1
            return None
        h = hashlib.md5(js.encode()).hexdigest()
        if h in self.seen:
            return None
        self.seen.add(h)
        return (head, ops, before)

    def post(self, name, args, res, tok):
        head, ops, before = tok
        e = dict(head)
        e["ops"] = before
        e["ops2"] = [ser.tree(o) for o in ops]
        if isinstance(res, BaseException):
            e["raised"] = type(res).__name__
            e["res"] = {"k": "bot", "w": 0, "sf": 0}
        elif ser.is_exp(res):
            e["raised"] = ""
            e["res"] = ser.tree(res)
        else:
            return
        if len(json.dumps(e["res"])) > 2 * MAX_JSON:
            self.dropped += 1
            return
        regs = {}
        for t in before:
            collect_regs(t, regs)
        collect_regs(e["res"], regs)
        e["envs"] = make_envs(regs, self.rng)
        self.n += 1
        e["t"] = self.n
        self.f.write(json.dumps(e, separators=(",", ":")) + "\n")

    def close(self):
        self.f.close()


def collect_regs(t, out):
    if not isinstance(t, dict):
        return
    if t.get("k") in ("reg", "ext"):
        out[t["n"]] = t["w"]
    for k, v in t.items():
        if isinstance(v, dict):
            collect_regs(v, out)
        elif isinstance(v, list):
            for x in v:
                if isinstance(x, dict):
                    collect_regs(x, out)


def make_envs(regs, rng, n=3):
    envs = []
    for k in range(n):
        e = {}
        for name in sorted(regs):
            w = regs[name]
            if w <= 0:
                continue
            m = (1 << w) - 1
            x = rng.random()
            if k == 0:
                v = rng.choice((0, 1, m, m >> 1, (m >> 1) + 1))
            else:
                v = rng.getrandbits(w) if x < 0.7 else rng.choice((0, 1, m, m >> 1, (m >> 1) + 1, 2 & m))
            e[name] = ser.bits(v, w)
        envs.append({"regs": [{"n": nm, "v": e[nm]} for nm in sorted(e)]})
    return envs


# ---- pytest plugin ---------------------------------------------------------------------------------
_REC = None


def pytest_configure(config):
    global _REC
    path = os.environ.get("AMOCO_VERIF_TRACE")
    if not path:
        return
    try:
        import amoco._verif_hooks as h
    except ImportError:
        return
    _REC = Recorder(path, int(os.environ.get("VERIF_SEED", "0") or 0))
    h.sink = _REC.sink


def pytest_unconfigure(config):
    global _REC
    if _REC is not None:
        import amoco._verif_hooks as h
        h.sink = None
        _REC.close()
        _REC = None


# ---- ISA driver: symbolic execution of decoded instructions -------------------------------------------
def isa_driver(path, seed, isas, ninstr):
    """decode words built from shipped specs (random free bits) and apply them to a symbolic mapper, with
    the recorder installed; returns number of events"""
    import importlib
    import amoco._verif_hooks as h
    from amoco.cas.mapper import mapper
    rec = Recorder(path, seed)
    h.sink = rec.sink
    rng = random.Random(seed)
    try:
        for modname in isas:
            try:
                cpu = importlib.import_module(modname)
            except Exception:
                continue
            d = cpu.disassemble
            specs = []

            def walk(t):
                if isinstance(t, tuple):
                    for sub in t[1].values():
                        walk(sub)
                else:
                    specs.extend(t)
            for tr in d.specs:
                walk(tr)
            if not specs:
                continue
            for _ in range(ninstr):
                s = rng.choice(specs)
                nb = max(s.size // 8, 1)
                w = (rng.getrandbits(s.size) & ~s.mask) | s.fix
                b = w.to_bytes(nb, "little")
                try:
                    e = d.endian()
                except Exception:
                    e = 1
                if e == -1:
                    b = b[::-1]
                b = b + bytes(rng.getrandbits(8) for _ in range(12))
                try:
                    i = d(b)
                    if i is None:
                        continue
                    m = mapper()
                    i(m)
                except Exception:
                    continue  # crashes are C17's subject
    finally:
        h.sink = None
        rec.close()
    return rec.n


if __name__ == "__main__":
    import sys
    print(isa_driver(sys.argv[1], int(sys.argv[2]), sys.argv[4:], int(sys.argv[3])))
