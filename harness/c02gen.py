"""C02, spec -> code (G): behaviours of specs/Lockstep.tla (generator configurations, B = 256) replayed on a real
amoco mapper over neutral registers a, b (16 bit) and p, q (pointers).

Every micro-operation of the behaviour is performed twice through the public API - on a symbolic map m
(route B: afterwards sigma0 >> m) and on a concrete copy of sigma0 (route A) - and after EVERY micro-operation
each register and each memory byte is compared with the concrete state TLC computed and put in the behaviour.
A value that is still symbolic satisfies the comparison ("may stay symbolic, never a different constant")."""
import random

BASE = 0x1000


def _setup(beh, W, mt):
    from amoco.config import conf
    from amoco.cas.expressions import reg
    conf.Cas.noaliasing = bool(beh["noal"])
    conf.Cas.memtrace = bool(mt)
    conf.Cas.complexity = 0
    R = {"a": reg("a", 16), "b": reg("b", 16), "p": reg("p", W), "q": reg("q", W)}
    return R


def _state(beh, R, W):
    from amoco.cas.mapper import mapper
    from amoco.cas.expressions import cst
    s = mapper()
    for r in ("a", "b"):
        s[R[r]] = cst(beh["regs0"][r], 16)
    for r in ("p", "q"):
        s[R[r]] = cst(BASE + beh["regs0"][r], W)
    s.mmap.write(cst(BASE, W), bytes(beh["mem0"]))
    return s


def _expr(e, R, en, X):
    from amoco.cas.expressions import cst, mem
    k = e["k"]
    if k == "reg":
        return R[e["r"]]
    if k == "cst":
        return cst(e["c"], 16)
    if k == "inc":
        return R[e["r"]] + 1
    if k == "ld":
        x = mem(R[e["p"]], 8 * e["n"], disp=e["d"], endian=en)
        return x.zeroextend(16) if e["n"] == 1 else x
    if k == "addld":
        return R[e["r"]] + mem(R[e["p"]], 8, disp=e["d"], endian=en).zeroextend(16)
    if k == "ext":
        return X
    raise ValueError(k)


def _perform(M, op, R, en, X):
    """one micro-operation through the API, the way the i_XXX functions do it: read operands, let a pending
    delayed write land, write"""
    from amoco.cas.expressions import mem
    o = op["op"]
    e = _expr(op["e"], R, en, X)
    if o == "SetReg":
        v = M(e)
        M.update_delayed()
        M[R[op["r"]]] = v
    elif o == "SetSlice":
        v = M(e[0:8])
        M.update_delayed()
        pos = 8 * op["pos"]
        M[R[op["r"]][pos:pos + 8]] = v
    elif o == "Store":
        v = M(e[0:8 * op["n"]])
        M.update_delayed()
        M[mem(R[op["p"]], 8 * op["n"], disp=op["d"], endian=en)] = v
    elif o == "Delayed":
        v = M(e)
        M.update_delayed()
        M.delayed(R[op["r"]], v)
    else:
        raise ValueError(o)


def _observe(s, R, W, nmem):
    from amoco.cas.expressions import mem, cst
    out = {}
    for r in ("a", "b", "p", "q"):
        v = s(R[r])
        out[r] = v.v if v._is_cst else None
    mm = []
    for i in range(nmem):
        v = s[mem(cst(BASE + i, W), 8)]
        mm.append(v.v if v._is_cst else None)
    out["mem"] = mm
    return out


def replay(beh, seed, mt):
    """returns {"n": steps compared, "fails": [...], "skipped": steps outside the claim}"""
    from amoco.cas.mapper import mapper
    from amoco.cas.expressions import reg
    rng = random.Random(seed)
    W = rng.choice((32, 64))
    en = 1 if beh["en"] == "le" else -1
    R = _setup(beh, W, mt)
    X = reg("xin", 16)
    fails = []
    out = {"n": 0, "fails": fails, "skipped": 0, "symbolic": 0, "constant": 0, "dropped": 0, "drift": 0}
    m = mapper()
    sa = _state(beh, R, W)
    nmem = len(beh["mem0"])
    for j, st in enumerate(beh["h"]):
        try:
            _perform(m, st["op"], R, en, X)
            sb = _state(beh, R, W) >> m
            ob = _observe(sb, R, W, nmem)
        except Exception as ex:
            fails.append({"step": j + 1, "route": "B", "clause": "Raised", "what": "%s: %s" % (type(ex).__name__, ex)})
            break
        try:
            _perform(sa, st["op"], R, en, X)
            oa = _observe(sa, R, W, nmem)
        except Exception as ex:
            fails.append({"step": j + 1, "route": "A", "clause": "Raised", "what": "%s: %s" % (type(ex).__name__, ex)})
            break
        if not st["inside"]:
            out["skipped"] += 1
            continue
        out["n"] += 1
        exp = {"a": st["regs"]["a"], "b": st["regs"]["b"], "p": BASE + st["regs"]["p"], "q": BASE + st["regs"]["q"]}
        bad = []
        # per location: b = sigma0 >> m, a = amoco's concrete route, e = the concrete state TLC computed.
        # The property is violated when b is a constant different from the concrete execution: b != e, or
        # b != a with both constants.  When both routes agree on a constant the model rejects (a == b != e)
        # amoco's memory model itself is off (C08/C09's subject): drift, not a C02 failure.
        locs = [(r, oa[r], ob[r], exp[r]) for r in ("a", "b", "p", "q")]
        locs += [("mem+%d" % i, oa["mem"][i], ob["mem"][i], st["mem"][i]) for i in range(nmem)]
        for loc, a, b, e in locs:
            for x in (a, b):
                if x is None:
                    out["symbolic"] += 1
                else:
                    out["constant"] += 1
            if b is None:
                if a is not None and a != e:
                    out["drift"] += 1
                continue
            if b == e and (a is None or a == e):
                continue
            if loc.startswith("mem") and beh["noal"] and not mt and b == beh["mem0"][int(loc[4:])] and (a is None or a == e):
                # named deviation RshiftDropsStores (see specs/LockstepTrace.tla): no-aliasing on, memory
                # tracing off, route B, the byte still holds its sigma0 value
                out["dropped"] += 1
                continue
            if a is not None and a == b:
                out["drift"] += 1
                continue
            bad.append({"step": j + 1, "route": "B", "clause": "Lockstep", "loc": loc, "got": b, "expected": e,
                        "concrete": a if a is not None else -1, "op": st["op"]["op"]})
        if bad:
            fails.extend(bad)
            break
    return out


def replay_chunk(args):
    from . import tlc, c02isa
    path, lo, hi, seed, stride, offset = args
    c02isa.quiet()
    res = {"n": 0, "steps": 0, "skipped": 0, "symbolic": 0, "constant": 0, "dropped": 0, "drift": 0, "fails": [],
           "kinds": set(), "sample": None}
    for idx, beh in enumerate(tlc.iter_spool_range(path, lo, hi)):
        if stride > 1 and (idx % stride) != offset:
            continue
        for mt in (1, 0):
            res["n"] += 1
            o = replay(beh, seed * 7919 + lo + idx, mt)
            res["steps"] += o["n"]
            res["skipped"] += o["skipped"]
            res["symbolic"] += o["symbolic"]
            res["constant"] += o["constant"]
            res["dropped"] += o["dropped"]
            res["drift"] += o["drift"]
            kinds = tuple(s["op"]["op"] + ":" + s["op"]["e"]["k"] for s in beh["h"])
            res["kinds"].add((beh["noal"], beh["en"], mt) + kinds)
            if o["fails"]:
                res["fails"].append({"behaviour": beh, "mt": mt, "seed": seed * 7919 + lo + idx, "fail": o["fails"]})
            elif res["sample"] is None and len(beh["h"]) > 1:
                res["sample"] = {"noal": beh["noal"], "en": beh["en"], "mt": mt, "ops": [s["op"] for s in beh["h"]]}
    res["kinds"] = sorted(res["kinds"])
    return res
