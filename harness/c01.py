"""C01/C12/C13 replayer: perform the API calls of an ExprGen behaviour on real amoco objects and record
what is observed (harness/ser.py projections, attribute reads only). Nothing is judged here: the
recorded trace is validated by TLC with specs/ExprTrace.tla."""
import itertools
import json
import pickle
import random

from . import ser

NLEAVES = 13
REGS = ("a", "b", "c", "d")
MREG = "r"   # the 2W-bit register of the behaviour's persistent mapper


def make_leaves(W):
    from amoco.cas.expressions import reg, cst
    a, b = reg("a", W), reg("b", W)
    c, d = reg("c", W), reg("d", W)
    c.signed()
    d.signed()
    m = (1 << W) - 1
    e = reg("e", W + 2)
    f = reg("f", W + 2)
    f.signed()
    se = e[1:W + 1]
    se.signed()
    sf_ = f[1:W + 1]
    sf_.unsigned()
    return [a, b, c, d, cst(0, W), cst(1, W), cst(m, W), cst(-1, W), cst(1 << (W - 1), W),
            cst((W - 1) & m, W), cst(W & m, W), se, sf_]


def used_regs(calls):
    used = set()
    live = {}
    for idx, c in enumerate(calls):
        ops = [c[k] for k in ("i", "j", "c") if k in c and isinstance(c[k], int)]
        s = set()
        for o in ops:
            if o <= 4:
                s.add(REGS[o - 1])
            elif o in (12, 13):
                s.add("e" if o == 12 else "f")
            elif o > NLEAVES:
                s |= live.get(o, set())
        live[NLEAVES + idx + 1] = s
        used |= s
    return sorted(used)


XREGS = ("e", "f")   # W+2-bit registers under the flagged slices (leaves 12, 13)


def make_envs(W, calls, rng, cap=16):
    regs = used_regs(calls)
    m = (1 << W) - 1
    envs = []
    if regs and not (set(regs) & set(XREGS)) and (1 << (W * len(regs))) <= cap:
        for vals in itertools.product(range(1 << W), repeat=len(regs)):
            e = dict((r, 0) for r in REGS + XREGS)
            e.update(zip(regs, vals))
            envs.append(e)
        exhaustive = True
    else:
        exhaustive = False
        bnd = sorted(set([0, 1, m, m >> 1, (m >> 1) + 1, (W - 1) & m, W & m, 2 & m]))
        seen = set()
        n = 5 if W > 16 else 12
        tries = 0
        while len(envs) < n and tries < 200:
            tries += 1
            e = {}
            for r in REGS:
                x = rng.random()
                e[r] = rng.choice(bnd) if x < 0.6 else (rng.getrandbits(W) if x < 0.9 else rng.getrandbits(min(W, 3)))
            for r in XREGS:
                e[r] = rng.getrandbits(W + 2) if rng.random() < 0.7 else rng.choice((0, (1 << (W + 2)) - 1, 1 << W, 2))
            key = tuple(e[r] for r in regs) if regs else ()
            if key in seen and regs:
                continue
            seen.add(key)
            envs.append(e)
            if not regs:
                break
    return envs, exhaustive


def perform(call, P, M=None, R=None):
    from amoco.cas import expressions as X
    a = call["act"]
    if a == "setsf":
        x = P[call["i"] - 1]
        return x.signed() if call["sf"] == 1 else x.unsigned()
    if a == "mset":
        loc = R[call["pos"]:call["pos"] + call["n"]]
        v = P[call["j"] - 1]
        if call["n"] != v.size:
            v = v[call["lo"]:call["lo"] + call["n"]]
        M[loc] = v
        return M(R[call["pos"]:call["pos"] + call["n"]])
    if a == "mget":
        return M(R)
    if a == "bin":
        l, r = P[call["i"] - 1], P[call["j"] - 1]
        s = call["s"]
        if s == "+":
            return l + r
        if s == "-":
            return l - r
        if s == "*":
            return l * r
        if s == "**":
            return l ** r
        if s == "/":
            return l / r
        if s == "%":
            return l % r
        if s == "&":
            return l & r
        if s == "|":
            return l | r
        if s == "^":
            return l ^ r
        if s == "==":
            return l == r
        if s == "!=":
            return l != r
        if s == "<":
            return l < r
        if s == "<=":
            return l <= r
        if s == ">":
            return l > r
        if s == ">=":
            return l >= r
        if s == "<.":
            return X.oper(X.OP_LTU, l, r)
        if s == ">=.":
            return X.oper(X.OP_GEU, l, r)
        if s == "<<":
            return l << r
        if s == ">>":
            return l >> r
        if s == ".>>":
            return l // r
        if s == ">>>":
            return X.ror(l, r)
        if s == "<<<":
            return X.rol(l, r)
        raise AssertionError(s)
    if a == "un":
        x = P[call["i"] - 1]
        return -x if call["s"] == "-" else ~x
    if a == "slice":
        return P[call["i"] - 1][call["pos"]:call["pos"] + call["n"]]
    if a == "compose":
        return X.composer([P[call["i"] - 1], P[call["j"] - 1]])
    if a == "cond":
        return X.tst(P[call["c"] - 1], P[call["i"] - 1], P[call["j"] - 1])
    if a == "ext":
        x = P[call["i"] - 1]
        return x.signextend(call["w"]) if call["sg"] == 1 else x.zeroextend(call["w"])
    if a == "simplify":
        return P[call["i"] - 1].simplify(bitslice=bool(call["bitslice"]), widening=bool(call["widening"]))
    if a == "pickle":
        return pickle.loads(pickle.dumps(P[call["i"] - 1], pickle.HIGHEST_PROTOCOL))
    if a == "mapw":
        from amoco.cas.mapper import mapper
        x = P[call["i"] - 1]
        m = mapper()
        loc = X.reg("slot%d" % len(P), x.size)
        m[loc] = x
        if call["pk"] == 1:
            m2 = pickle.loads(pickle.dumps(m, pickle.HIGHEST_PROTOCOL))
            call["_same"] = (str(m) == str(m2)) and ser.tree(m[loc]) == ser.tree(m2[loc])
            m = m2
        return m[loc]
    if a == "subst":
        from amoco.cas.mapper import mapper
        m = mapper()
        m[P[0]] = P[call["j"] - 1]
        return m(P[call["i"] - 1])
    raise AssertionError(a)


def shown_flag(x):
    """the sign flag an operand object shows (attribute reads only); 2 when it is a conditional whose own
    flag differs from the flags of its branches - not an unambiguous declaration (Expr!ShownFlag)"""
    if ser.kind(x) == "tst":
        f = 1 if x.sf else 0
        return f if (shown_flag(x.l) == f and shown_flag(x.r) == f) else 2
    return 1 if x.sf else 0


def exc_str(e):
    return "%s: %s" % (type(e).__name__, str(e)[:80])


_QUIET = [False]


def quiet():
    """amoco logs every rejected ill-sized call at ERROR level; the replayer records them itself"""
    if not _QUIET[0]:
        _QUIET[0] = True
        try:
            import logging
            from amoco import logger as L
            L.set_log_all(logging.CRITICAL)
        except Exception:
            pass


def replay(tid, beh, seed, threshold):
    """-> trace record for ExprTrace.tla"""
    quiet()
    from amoco.config import conf
    from amoco.cas.expressions import cst
    from amoco.cas.mapper import mapper
    rng = random.Random(seed)
    W = beh["w"]
    calls = beh["calls"]
    old_thr = conf.Cas.complexity
    conf.Cas.complexity = threshold
    try:
        P = make_leaves(W)
        from amoco.cas.expressions import reg as _reg
        M = mapper()
        R = _reg(MREG, 2 * W)
        envs, exhaustive = make_envs(W, calls, rng)
        uses_m = any(c["act"] in ("mset", "mget") for c in calls)
        for env in envs:
            env[MREG] = (rng.getrandbits(2 * W) if uses_m else 0)
        last = [json.dumps(ser.tree(x), sort_keys=True) for x in P]
        ev = []
        raised = False
        for call in calls:
            e = dict(call)
            if call["act"] == "bin":
                l, r = P[call["i"] - 1], P[call["j"] - 1]
                e["lsf"] = shown_flag(l)
                e["rsf"] = shown_flag(r)
                e["lc"] = 1 if (ser.kind(l) == "cst" and (l.v >> (l.size - 1)) == 0) else 0
                e["rc"] = 1 if (ser.kind(r) == "cst" and (r.v >> (r.size - 1)) == 0) else 0
            try:
                res = perform(call, P, M, R)
                e["raised"] = ""
            except Exception as ex:
                e["raised"] = exc_str(ex)
                e["live"] = []
                ev.append(e)
                raised = True
                break
            if not ser.is_exp(res):
                e["raised"] = "NotAnExpression: %r" % type(res).__name__
                e["live"] = []
                ev.append(e)
                raised = True
                break
            P.append(res)
            if res.size != call["rw"]:
                # the handle does not have the width the call dictates (TLC will report it under C12):
                # later calls would be applied to ill-sized operands, stop here
                e["live"] = [{"h": len(P), "tree": ser.tree(res)}]
                ev.append(e)
                raised = True
                break
            if call["act"] == "pickle":
                o = P[call["i"] - 1]
                same = ser.tree(o) == ser.tree(res) and o.size == res.size
                try:
                    same = same and (str(o) == str(res))
                except Exception:
                    same = False
                e["same"] = 1 if same else 0
            if call["act"] == "mapw":
                e["same"] = 1 if call.pop("_same", True) else 0
                e.pop("_same", None)
            live = []
            for h, x in enumerate(P):
                t = ser.tree(x)
                s = json.dumps(t, sort_keys=True)
                if h == len(P) - 1:
                    last.append(s)
                    live.append({"h": h + 1, "tree": t})
                elif s != last[h]:
                    last[h] = s
                    live.append({"h": h + 1, "tree": t})
            e["live"] = live
            ev.append(e)
        if not raised:
            vals = []
            for env in envs:
                row = []
                for h, x in enumerate(P):
                    if h < NLEAVES:
                        continue
                    try:
                        m = mapper()
                        for r in REGS:
                            m[P[REGS.index(r)]] = cst(env[r], W)
                        m[R] = cst(env[MREG], 2 * W)
                        m[P[11].x] = cst(env["e"], W + 2)
                        m[P[12].x] = cst(env["f"], W + 2)
                        v = m(x)
                        k = ser.kind(v)
                        rec = {"h": h + 1, "k": k if k in ("cst",) else "sym", "w": v.size}
                        if k == "cst":
                            rec["v"] = ser.bits(v.v, v.size)
                        row.append(rec)
                    except Exception as ex:
                        row.append({"h": h + 1, "k": "raised", "w": 0, "what": exc_str(ex)})
                vals.append(row)
            ev.append({"act": "evals", "vals": vals})
            live = []
            for h, x in enumerate(P):
                t = ser.tree(x)
                s = json.dumps(t, sort_keys=True)
                if s != last[h]:
                    last[h] = s
                    live.append({"h": h + 1, "tree": t})
            ev.append({"act": "frame", "raised": "", "live": live})
        return {"t": tid, "w": W, "thr": threshold, "exhaustive_envs": 1 if exhaustive else 0,
                "envs": [dict([(r, ser.bits(env[r], W)) for r in REGS] + [(r, ser.bits(env[r], W + 2)) for r in XREGS]
                              + [(MREG, ser.bits(env[MREG], 2 * W))])
                         for env in envs], "ev": ev}
    finally:
        conf.Cas.complexity = old_thr
