"""C19 pipeline: generate (TLC, specs/Merge.tla generator configs | seeded random driver) -> execute + log
(harness/c19.py: real mappers, real merge()) -> validate (TLC, specs/MergeTrace.tla)."""
import json
import multiprocessing as mp
import multiprocessing.pool
import os
import random

from . import tlc, c19

MOD = "c19"
SPEC = "Merge"

QUIRK_WHAT = {
    "VecMapCopyDiffers": "a map that stores through a vector-valued pointer is not copied faithfully: such a store deletes the "
                         "items of the locations it may write (or keeps its own item at the old position), so use()/eval() - "
                         "hence the assume() copies merge() joins - replay the remaining items to a different memory and the "
                         "merge covers the copy, not the map; likewise c >> mm replays the items of a merged map that stores through a "
                         "vector-valued pointer to a memory that lacks bytes mm holds (m[v]=vec([p,p+2]); m[mem(p+1,8)]=y; m[mem(p,32)]=x; "
                         "m[mem(v,8)]=z: byte p+1 is x[8:16] in m and y in m.assume([]))",
    "VecKeyRewriteOrder": "re-writing a vector-valued pointer key keeps its old position in the map's item list while its "
                          "bytes are written last in memory: every copy of the map (use/eval, hence the assume() copies "
                          "merge() works on) replays the items in list order and no longer holds what the map held, so the "
                          "merge covers the copy, not the map (m[v]=vec([p+2,p+3]); m[mem(v,32)]=a; m[mem(p+5,8)]=b; "
                          "m[mem(v,8)]=c: byte p+5 is a[16:24] in m and b in m.assume([]))",
    "SkipWiderSecondVec": "merge(m1, m2) loses the upper bytes m2 wrote through a VECTOR-VALUED pointer key when both maps have "
                          "an item for that key and m1's is narrower (the vector branch of merge() still joins at m1's size "
                          "and the second loop skips the key; the plain-pointer case was repaired in 03f2317)",
    "VecStoreDropsItem": "a store through a vector-valued pointer deletes the map items of every location it may write "
                         "(mapper._Mem_write: `del self.__map[l]`) without keeping the bytes a narrower store does not "
                         "cover: they stay in the map's memory but no item holds them, and merge() only walks items, so the "
                         "merged map does not cover them (m1[v]=vec([p,p+2]); m1[mem(p,32)]=x; m1[mem(v,8)]=y[0:8]: "
                         "byte p+3 is x[24:32] in m1 and untouched in merge(m1, m2))",
    "StaleItems": "merge() joins the RECORDED value of an item, not what the location holds at the end of its map, and "
                  "creates m1's keys first: when a later item of m2 overlaps an earlier one and m1 has the later key, the "
                  "stale bytes are written last (m1: (p)<-a16; m2: (p+1)<-b8, (p)<-c16: byte p+1 of the merge is "
                  "[a[8:16], b], c[8:16] is not covered)",
    "TopReadAsBottom": "a memory byte merged to unknown (vecw under widening, top under the complexity threshold or for an "
                       "unknown input) reads back through the mapper as the untouched initial memory: _Mem_read "
                       "(mapper.py:220) takes an unknown part of a zone object (not _is_def) for an unwritten one",
    "TopPointerKey": "under a complexity threshold merge() turns a vector-valued pointer key into top: the store is kept under "
                     "an unknown location and the bytes it wrote in the branch read back as untouched in the merged map",
    "SkipWiderSecond": "merge(m1, m2) loses the upper bytes m2 wrote when both maps have an item for the same memory "
                       "location and m1's is narrower: the first loop joins at m1's size and the second loop skips the key "
                       "(merge of (p)<-x[0:16] with (p)<-y gives (p)<-[x[0:16],y[0:16]], bytes p+2..p+3 of m2 are not covered)",
}


def _replay_chunk(args):
    behs, seed, base = args
    return [c19.execute(base + i, beh, seed * 1000003 + base + i) for i, beh in enumerate(behs)]


def _random_chunk(args):
    seed, n, base = args
    rng = random.Random(seed)
    return [c19.execute(base + i, c19.random_behaviour(rng), seed * 1000003 + i) for i in range(n)]


def gen_tlc(seed, cfg, kind, simulate=None, depth=None, limit=None):
    """TLC part of a generator (no ctx: may run in a thread). TLC prints every complete behaviour (in -simulate
    mode: every successor it generates); `limit` of them are drawn uniformly with the seeded rng (reservoir
    sampling over the spool). Returns (TLCResult, total printed, picked behaviours)."""
    wd = tlc.workdir("%sgen_%s" % (MOD, kind))
    spool = os.path.join(wd, "beh.spool")
    res = tlc.run(SPEC, cfg, simulate=simulate, depth=depth, seed=seed if simulate else None,
                  spool=spool, tag=MOD + kind, timeout=3000, workers=2)
    rng = random.Random(seed * 31 + len(kind))
    picked, total = [], 0
    with open(spool, "rb") as f:
        for bl in f:
            if not bl.startswith(b'"'):
                continue
            total += 1
            if limit is None or len(picked) < limit:
                picked.append(bl)
            else:
                j = rng.randrange(total)
                if j < limit:
                    picked[j] = bl
    tlc.cleanup(wd)
    behs = [json.loads(json.loads(bl.decode("utf-8"))) for bl in picked]
    if not behs:
        raise tlc.MachineryError("generator %s produced no behaviour" % cfg)
    return res, total, behs


def replay_generated(ctx, cfg, kind, gen, base=0):
    res, total, behs = gen
    ctx.add_tlc(res, "G:" + cfg)
    ctx.count("behaviours_generated_" + kind, total)
    n = max(1, min(tlc.NCPU, len(behs)))
    jobs = [(behs[i::n], ctx.seed, base + i * 100000) for i in range(n)]
    traces = []
    with mp.Pool(n) as pool:
        for out in pool.imap_unordered(_replay_chunk, jobs):
            traces.extend(out)
    for t in traces:
        t["src"] = kind
    ctx.count("behaviours_" + kind, len(traces))
    return traces


def generate(ctx, cfg, kind, simulate=None, depth=None, limit=None, base=0):
    return replay_generated(ctx, cfg, kind, gen_tlc(ctx.seed, cfg, kind, simulate, depth, limit), base)


def parallel(thunks):
    """run independent TLC jobs (each a no-argument callable) in threads; returns their results in order"""
    with mp.pool.ThreadPool(max(1, len(thunks))) as tp:
        hs = [tp.apply_async(t) for t in thunks]
        return [h.get() for h in hs]


def drive(ctx, n, kind="random"):
    per = max(1, n // tlc.NCPU)
    jobs = [(ctx.seed * 7919 + i, per, i * per) for i in range(tlc.NCPU)]
    traces = []
    with mp.Pool(tlc.NCPU) as pool:
        for out in pool.imap_unordered(_random_chunk, jobs):
            traces.extend(out)
    for t in traces:
        t["src"] = kind
    ctx.count("cases_" + kind, len(traces))
    return traces


def _validate(args):
    path, tag = args
    return tlc.run("MergeTrace", "MergeTrace.cfg", workers=1, env={"TRACE_FILE": path}, tag=tag, timeout=6000, xmx="3g")


def _shape(b):
    f = lambda ops: tuple((o["o"], o.get("r", ""), o.get("off", -1), o.get("n", 0), o.get("e", 0), o.get("k", 0), o.get("d", 0)) for o in ops)
    return (f(b["pre"]), f(b["b1"]), f(b["b2"]), f(b.get("b3", [])), b["w"], b.get("w2", 0), b["t"], b["c1"], b["c2"])


def _nontrivial(b):
    """evidence statistic: both branches write, and some location is written by both or a path condition is present"""
    k = lambda ops: set((o["o"] in ("st", "stv"), o.get("r", ""), o.get("off", -1)) for o in ops)
    return bool(b["b1"]) and bool(b["b2"]) and (bool(k(b["b1"]) & k(b["b2"])) or b["c1"] or b["c2"] or b["pre"])


def validate(ctx, traces, kind):
    flat = []
    for t in traces:
        t2 = t.pop("second", None)
        flat.append(t)
        if t2 is not None:
            t2["src"] = t.get("src", kind)
            flat.append(t2)
    traces = flat
    for i, t in enumerate(traces):
        t["t"] = i + 1
    wd = tlc.workdir("c19val_" + kind)
    order = sorted(range(len(traces)), key=lambda i: -(len(traces[i]["cells"]) + len(traces[i]["regs"])))
    nsh = min(tlc.NCPU, len(traces))
    shards = [[] for _ in range(nsh)]
    for k, i in enumerate(order):
        shards[k % nsh].append(traces[i])
    paths = []
    for i, sh in enumerate(shards):
        p = os.path.join(wd, "tr%d.ndjson" % i)
        tlc.write_ndjson(p, sh)
        paths.append((p, "c19T%s%d" % (kind, i)))
    with mp.pool.ThreadPool(len(paths)) as tp:
        results = tp.map(_validate, paths)
    verdicts = {}
    for res in results:
        ctx.add_tlc(res, "T:MergeTrace(" + kind + ")")
        for v in res.printed:
            if isinstance(v, dict) and "t" in v:
                verdicts[v["t"]] = v
    for t in traces:
        v = verdicts.get(t["t"])
        if v is None:
            raise tlc.MachineryError("no verdict for trace %s (%s)" % (t["t"], kind))
        b = t["beh"]
        ctx.case(key=_shape(b) + (t.get("stage", 1),) if _nontrivial(b) else None)
        ctx.trace()
        ctx.count("valuations_checked", v["nsat"])
        ctx.count("merges_%s" % ("widening" if t["w"] else "threshold" if b["t"] else "plain"))
        if t.get("stage") == 2:
            ctx.count("second_merges_of_a_chain")
        ctx.count("concrete_evaluations_of_the_merged_map", len([e for e in t.get("ev", []) if not e["raised"]]))
        if v["v"] == "ok":
            if _nontrivial(b) and len(ctx.samples) < 4:
                ctx.sample({"source": t.get("src", kind), "behaviour": b, "threshold": t["thr"], "verdict": "ok"}, cap=4)
            continue
        brief = "%s case %s (merge #%s thr=%s na=%s scale=%s): clause %s at %s%s" % (
            t.get("src", kind), json.dumps(b), t.get("stage", 1), t["thr"], t["na"], t["scale"], v["clause"], json.dumps(v["what"]),
            (" raised " + t["raised"] + " in " + t["at"]) if t["raised"] else "")
        rep = {"behaviour": b, "seed_case": t.get("seed_case"), "verdict": v}
        if v["quirks"]:
            ctx.count("failing_cases_explained_by_listed_quirks")
            for q in sorted(v["quirks"]):
                ctx.fail("C19:quirk:" + q, QUIRK_WHAT.get(q, q) + " -- e.g. " + brief, rep)
        elif v["clause"] == "Total":
            key = "C19:Total:%s:%s" % (t["at"], t["raised"].split(":")[0])
            if t["at"] == "merge" and t["raised"].startswith("MemoryError: (T") and t["thr"] > 0:
                key += ":top-pointer"         # write through a pointer the threshold turned into top
            ctx.fail(key, brief, rep)
        else:
            ctx.fail("C19:%s:unexplained" % v["clause"], brief, rep)
    tlc.cleanup(wd)
    return verdicts
