"""Shared by C05 / C11 / C17: the decoder seen as a black box over calls.

  * ISAS            vendored list of the importable ISA modules of the pinned tree, with their decode
                    modes (a module on this list that stops importing is reported by C17)
  * Isa             import + mode selection + the decode call as a fetcher issues it
  * spec_inputs     byte strings built from a shipped ispec: fixed bits + chosen free bits + tail
  * fingerprint     read-only projection of an instruction to plain data (attribute reads only; no
                    str(), no simplify(), no eval() of anything under observation)
  * crash_key       (exception type, innermost amoco frame file:function) of a raised exception

Nothing here decides anything: expected values / verdicts come from TLC (specs/Decoder*.tla).
"""
import hashlib
import importlib
import json
import os
import sys
import traceback

# ---------------------------------------------------------------------------------------------------
# ISA table (DESIGN.md section 4, "ISA scope"): name, cpu module, env module holding `internals`
# (or None), modes = list of (mode name, {internals key: value}).  The first mode is the default one.
ISAS = [
    ("armv7", "amoco.arch.arm.cpu_armv7", "amoco.arch.arm.v7.env",
     [("arm", {"isetstate": 0, "itstate": 0, "endianstate": 0, "ibigend": 0}),
      ("thumb", {"isetstate": 1, "itstate": 0, "endianstate": 0, "ibigend": 0}),
      # big-endian instruction fetch: only C11's mode-switch histories use these ("__switch__")
      ("arm_be", {"isetstate": 0, "itstate": 0, "endianstate": 0, "ibigend": 1, "__switch__": 1}),
      ("thumb_be", {"isetstate": 1, "itstate": 0, "endianstate": 0, "ibigend": 1, "__switch__": 1})]),
    ("armv8", "amoco.arch.arm.cpu_armv8", "amoco.arch.arm.v8.env64",
     [("a64", {"endianstate": 0, "ibigend": 0}),
      ("a64_be", {"endianstate": 0, "ibigend": 1, "__switch__": 1})]),
    ("dwarf", "amoco.arch.dwarf.cpu", None, [("dw", {})]),
    ("eBPF", "amoco.arch.eBPF.cpu", None, [("ebpf", {})]),
    ("bpf", "amoco.arch.eBPF.cpu_bpf", None, [("bpf", {})]),
    ("mips", "amoco.arch.mips.cpu_r3000", None, [("be", {})]),
    ("mipsLE", "amoco.arch.mips.cpu_r3000LE", None, [("le", {})]),
    ("msp430", "amoco.arch.msp430.cpu", None, [("msp430", {})]),
    ("pic18", "amoco.arch.pic.cpu_pic18f46k22", None, [("pic18", {})]),
    ("ppc32", "amoco.arch.ppc32.cpu", None, [("be", {})]),
    ("rv32i", "amoco.arch.riscv.cpu_rv32i", None, [("rv32", {})]),
    ("rv64i", "amoco.arch.riscv.cpu_rv64i", None, [("rv64", {})]),
    ("sparc", "amoco.arch.sparc.cpu_v8", None, [("v8", {})]),
    ("sh2", "amoco.arch.superh.cpu_sh2", None, [("sh2", {})]),
    ("tricore", "amoco.arch.tricore.cpu", None, [("tc", {})]),
    ("v850", "amoco.arch.v850.cpu_v850e2s", None, [("v850", {})]),
    ("w65c02", "amoco.arch.w65c02.cpu", None, [("w65c02", {})]),
    ("wasm", "amoco.arch.wasm.cpu", None, [("wasm", {})]),
    ("x64", "amoco.arch.x64.cpu_x64", "amoco.arch.x64.env", [("m64", {"mode": 64})]),
    ("x86", "amoco.arch.x86.cpu_x86", "amoco.arch.x86.env", [("m32", {"mode": 32}), ("m16", {"mode": 16})]),
    # "z80+gb": the Z80 decoder in a process that has also imported the GameBoy module (they share
    # amoco.arch.z80.env; a configuration a user gets by loading both cpu modules)
    ("z80", "amoco.arch.z80.cpu_z80", None, [("z80", {}), ("z80+gb", {"__preload__": "amoco.arch.z80.cpu_gb"})]),
    ("gb", "amoco.arch.z80.cpu_gb", None, [("gb", {})]),
]
# modules that do not import on the pinned tree (outside every per-ISA quantifier; see DESIGN.md)
NOT_IMPORTABLE = ["amoco.arch.avr.cpu", "amoco.arch.ppc32.cpu_e200", "amoco.arch.superh.cpu_sh4"]


def isa_modes(names=None, switch=False):
    """all (isa, mode) pairs (switch=True: including the modes that exist only for C11's mode-switch
    histories).  VERIF_DEC_ISAS=x86,x64 restricts the list - a development aid for mutation
    experiments only; the registered commands never set it."""
    if names is None and os.environ.get("VERIF_DEC_ISAS"):
        names = os.environ["VERIF_DEC_ISAS"].split(",")
    out = []
    for name, mod, envm, modes in ISAS:
        if names and name not in names:
            continue
        for m, v in modes:
            if switch or not v.get("__switch__"):
                out.append((name, m))
    return out


def switchable_modes(name):
    """modes of an ISA that one process can switch between by writing the decode-mode globals
    (not the co-import modes, which are a property of the process)"""
    ent = [e for e in ISAS if e[0] == name][0]
    ms = [m for m, v in ent[3] if not v.get("__preload__")]
    return ms if len(ms) > 1 and ent[2] is not None else []


def quiet():
    """amoco logs through its own Log class; keep the workers silent (logging is not observed here,
    except by the C17 apply stage which installs its own handler)."""
    from amoco.logger import Log
    # every Log shares one default StreamHandler (default argument of Log.__init__): mute it
    h = Log.__init__.__defaults__[0]
    h.setLevel(1000)


class LogCapture(object):
    """handler attached to amoco.arch.core's logger: records the messages icore.__call__ emits when the
    semantics of a mnemonic are missing (the 'LoggedMissing' outcome of C17's apply stage)"""

    def __init__(self):
        import logging
        from amoco.arch import core

        outer = self

        class H(logging.Handler):
            def emit(self, record):
                try:
                    outer.msgs.append((record.levelname, record.getMessage()))
                except Exception:
                    outer.msgs.append((record.levelname, "?"))

        self.msgs = []
        self.h = H(level=1)
        core.logger.addHandler(self.h)
        if core.logger.level > logging.WARNING or core.logger.level == 0:
            core.logger.setLevel(logging.WARNING)

    def take(self):
        m, self.msgs = self.msgs, []
        return m


def flat_specs(tree):
    f, l = tree
    if f == 0:
        return list(l)
    out = []
    for k in sorted(l.keys()):
        out += flat_specs(l[k])
    return out


class Isa(object):
    """One ISA module in one decode mode.  Drivers create it in a process that serves this ISA only
    (pools with maxtasksperchild=1): importing one cpu module can change another one's tables (importing
    z80.cpu_gb deletes entries of the env.CONDITION table the Z80 decoder uses)."""

    def __init__(self, name, mode=None):
        ent = [e for e in ISAS if e[0] == name]
        if not ent:
            raise KeyError(name)
        self.name, self.modname, self.envname, self.modes = ent[0]
        pre = dict(self.modes)[mode or self.modes[0][0]].get("__preload__")
        if pre:
            importlib.import_module(pre)
        self.cpu = importlib.import_module(self.modname)
        self.env = importlib.import_module(self.envname) if self.envname else None
        self.dis = self.cpu.disassemble
        self.maxlen = self.dis.maxlen
        self.mode = None
        self.set_mode(mode or self.modes[0][0])
        self.needs_code = any(s.pfx == "xdata" for s in self.specs())
        self.has_prefix = any(s.pfx is True for s in self.specs())

    def set_mode(self, mode):
        vals = dict((k, v) for k, v in dict(self.modes)[mode].items() if not k.startswith("__"))
        if self.env is not None:
            self.env.internals.update(vals)
        self.mode = mode

    def reset_mode(self):
        # semantics (C17 apply stage) may write the decode-mode globals: put them back
        self.set_mode(self.mode)

    def specs(self):
        return flat_specs(self.dis.specs[self.dis.iset()])

    def endian(self):
        return self.dis.endian()

    def fresh_disassembler(self):
        """a new disassembler object over the same spec modules (used where C11 wants ONE object whose
        whole call history is known)"""
        from amoco.arch.core import disassembler
        d = self.dis
        mods = self.spec_modules()
        nd = disassembler(mods, d.iclass, d.iset, d.endian)
        nd.maxlen = d.maxlen
        return nd

    def spec_modules(self):
        seen, mods = set(), []
        for t in self.dis.specs:
            ms = []
            for s in flat_specs(t):
                m = sys.modules[s.hook.__module__]
                if m.__name__ not in ms:
                    ms.append(m.__name__)
            # one ISPECS module per iset entry
            for n in ms:
                if n not in seen:
                    seen.add(n)
                    mods.append(sys.modules[n])
        return mods

    def call(self, b, dis=None):
        """the decode call as a fetcher issues it: bytes only, plus the fetch context (address, code)
        that suffix ('&', xdata) specifications are documented to receive"""
        d = dis or self.dis
        if self.needs_code:
            return d(b, address=0, code=b)
        return d(b)

    def pending(self, dis=None):
        return getattr(dis or self.dis, "_disassembler__i", None)


# ---------------------------------------------------------------------------------------------------
# inputs from shipped specifications

FILLINGS = ("zeros", "ones", "random", "boundary")


def spec_bytes(spec, endian, rng, filling):
    """bytes of the fixed-size part of `spec`: fixed bits as shipped, free bits per `filling`"""
    n = spec.mask.size
    fix = spec.fix.ival
    mask = spec.mask.ival
    full = (1 << n) - 1
    free = full & ~mask
    if filling == "zeros":
        v = fix
    elif filling == "ones":
        v = fix | free
    elif filling == "boundary":
        # every maximal run of free bits independently all-0 / all-1 / only lowest / only highest set
        v = fix
        i = 0
        while i < n:
            if (free >> i) & 1:
                j = i
                while j < n and (free >> j) & 1:
                    j += 1
                c = rng.randrange(4)
                run = ((1 << (j - i)) - 1) << i
                if c == 1:
                    v |= run
                elif c == 2:
                    v |= 1 << i
                elif c == 3:
                    v |= 1 << (j - 1)
                i = j
            else:
                i += 1
    else:
        v = fix | (rng.getrandbits(n) & free)
    bs = v.to_bytes(n // 8, "little")
    return bs[::endian] if endian == -1 else bs


def tail_bytes(rng, filling, n):
    if filling == "zeros":
        return bytes(n)
    if filling == "ones":
        return b"\xff" * n
    if filling == "boundary":
        return bytes(rng.choice((0x00, 0xFF, 0x80, 0x7F, 0x01, 0x04, 0x05, 0x24, 0x25, 0x40)) for _ in range(n))
    return bytes(rng.getrandbits(8) for _ in range(n))


def prefix_bytes(isa, rng, k=None):
    """a random run of prefix bytes built from the prefix specs of the ISA (empty if it has none)"""
    ps = [s for s in isa.specs() if s.pfx is True]
    if not ps:
        return b""
    k = rng.choice((1, 1, 1, 2, 2, 3)) if k is None else k
    out = b""
    for _ in range(k):
        out += spec_bytes(rng.choice(ps), isa.endian(), rng, "random")
    return out


def spec_inputs(isa, spec, rng, filling, with_prefix=False):
    """one input reaching `spec`: [prefix run] + fixed part + tail (the tail feeds ModRM/SIB/disp/imm,
    LEB128 operands, xdata suffixes; it is longer than maxlen so that Window is exercised)"""
    head = spec_bytes(spec, isa.endian(), rng, filling)
    tail = tail_bytes(rng, filling, isa.maxlen + 4)
    pre = prefix_bytes(isa, rng) if with_prefix else b""
    return pre + head + tail


def prefix_classes(isa):
    """the prefix specs of the ISA grouped by their setup function (x64: grp1, grp2, 66, 67, REX)"""
    out = {}
    for s in isa.specs():
        if s.pfx is True:
            out.setdefault(s.hook.__name__ + "/" + str(s.mask.ival), []).append(s)
    # one class per (hook, mask): REX (free bits) is its own class, the fixed-byte prefixes group by hook
    byhook = {}
    for k, v in out.items():
        byhook.setdefault(v[0].hook.__name__, []).extend(v)
    return [byhook[k] for k in sorted(byhook)]


def sib_head(spec, endian, rng, mod):
    """fixed part of `spec` with random free bits, except that the free bits of its LAST byte (the ModRM byte
    of the x86-family rows written with /r or /digit) are set to mod=`mod`, rm=100: a memory operand with a
    SIB byte, and a displacement for mod 01 / 10"""
    n = spec.mask.size
    fix, mask = spec.fix.ival, spec.mask.ival
    free = ((1 << n) - 1) & ~mask
    v = fix | (rng.getrandbits(n) & free)
    lo = n - 8
    want = ((mod & 3) << 6) | 0b100
    keep = 0b11000111
    fb = (free >> lo) & 0xFF
    last = (v >> lo) & 0xFF
    last = (last & ~(fb & keep)) | (want & fb & keep)
    v = (v & ~(0xFF << lo)) | (last << lo)
    bs = v.to_bytes(n // 8, "little")
    return bs[::endian] if endian == -1 else bs


def prefixed_sib_inputs(isa, spec, si, rng):
    """for ISAs with prefix specs: `spec` behind one prefix of every prefix class (variable-length rows) or of
    one rotating class (fixed-length rows), with the ModRM filling of sib_head; the mod value rotates so that
    every row sees mod 00, 01 and 10"""
    classes = prefix_classes(isa)
    if not classes:
        return []
    out = []
    pick = range(len(classes)) if spec.size == 0 else [si % len(classes)]
    for j in pick:
        p = spec_bytes(rng.choice(classes[j]), isa.endian(), rng, "random")
        head = sib_head(spec, isa.endian(), rng, (si + j) % 3)
        out.append(("pfx%d" % j, p + head + tail_bytes(rng, "random", isa.maxlen + 4)))
    return out


# ---------------------------------------------------------------------------------------------------
# read-only projection of instructions

_EXP = None


def _exp_class():
    global _EXP
    if _EXP is None:
        from amoco.cas import expressions as X
        _EXP = X
    return _EXP


def _slots(cls):
    names = []
    for c in cls.__mro__:
        for s in getattr(c, "__slots__", ()):
            if not s.startswith("_") and s not in names:
                names.append(s)
    return names


def proj(x, depth=0):
    """plain-data image of a value found in an instruction (attribute reads only)"""
    X = _exp_class()
    if depth > 40:
        return ["deep"]
    if x is None or isinstance(x, (bool, int, str)):
        return x
    if isinstance(x, float):
        return ["float", repr(x)]
    if isinstance(x, (bytes, bytearray)):
        return ["bytes", list(x)]
    if isinstance(x, X.exp):
        out = ["E", type(x).__name__]
        for s in _slots(type(x)):
            try:
                v = getattr(x, s)
            except AttributeError:
                continue
            out.append([s, proj(v, depth + 1)])
        return out
    if isinstance(x, (list, tuple)):
        return ["L", [proj(v, depth + 1) for v in x]]
    if isinstance(x, dict):
        items = [(proj(k, depth + 1), proj(v, depth + 1)) for k, v in x.items()]
        items.sort(key=lambda kv: json.dumps(kv[0], sort_keys=True, default=str))
        return ["D", [[k, v] for k, v in items]]
    if isinstance(x, (set, frozenset)):
        items = [proj(v, depth + 1) for v in x]
        items.sort(key=lambda v: json.dumps(v, sort_keys=True, default=str))
        return ["S", items]
    tn = type(x).__name__
    if tn == "_operator":
        return ["op", getattr(x, "symbol", "?")]
    if tn == "Bits":
        return ["Bits", getattr(x, "size", -1), getattr(x, "ival", -1)]
    if tn == "ispec":
        return ["ispec", x.format, getattr(x.hook, "__module__", None), getattr(x.hook, "__name__", None)]
    if callable(x):
        return ["fn", getattr(x, "__name__", tn)]
    return ["obj", tn]


def is_exp(x):
    return isinstance(x, _exp_class().exp)


def operand_kinds(i):
    """per operand: 'exp' for an amoco expression, else the Python type name"""
    ops = i.operands
    if not isinstance(ops, (list, tuple)):
        return ["!" + type(ops).__name__]
    return ["exp" if is_exp(o) else type(o).__name__ for o in ops]


def instr_data(i, skip=("address",)):
    """everything observable about the instruction as plain data (its instance dictionary)"""
    d = {}
    for k, v in vars(i).items():
        if k in skip:
            continue
        if k == "misc" and isinstance(v, dict):
            # misc is a defaultdict that answers None for undefined keys (arch/core.py: icore), and reading
            # it creates the key: an entry holding None is observably the same as no entry
            v = dict((a, b) for a, b in v.items() if b is not None)
        d[k] = proj(v)
    return d


def _h(data):
    s = json.dumps(data, sort_keys=True, separators=(",", ":"), default=str)
    return hashlib.sha1(s.encode()).hexdigest()[:20]


def fingerprint(i, skip=("address",)):
    return _h(instr_data(i, skip))


def strip_sf(d):
    """the same plain data without the `sf` (signedness flag) entries of expression nodes"""
    if isinstance(d, dict):
        return dict((k, strip_sf(v)) for k, v in d.items())
    if isinstance(d, list):
        if len(d) == 2 and d[0] == "sf" and isinstance(d[1], bool):
            return None
        out = []
        for x in d:
            y = strip_sf(x)
            if y is None and isinstance(x, list) and len(x) == 2 and x[0] == "sf":
                continue
            out.append(y)
        return out
    return d


def outcome(i, exc=None):
    """the observation of one decode call as the trace specs read it"""
    if exc is not None:
        return {"k": "raised", "exc": exc[0], "at": exc[1]}
    if i is None:
        return {"k": "none"}
    bs = i.bytes
    data = instr_data(i)
    return {"k": "instr", "len": i.length, "bytes": list(bs) if isinstance(bs, (bytes, bytearray)) else [-1],
            "mn": i.mnemonic if isinstance(i.mnemonic, str) else "", "fp": _h(data), "fps": _h(strip_sf(data))}


def crash_key(ex):
    """(exception type name, 'file:function' of the innermost frame under amoco/arch if there is one,
    else of the innermost frame that lies in amoco) - the call site of DESIGN.md 3.5: for hooks,
    formatters and semantics this is the hook / format helper / i_MNEMONIC function"""
    tb = traceback.extract_tb(ex.__traceback__)
    at, arch = "?", None
    for fr in tb:
        fn = fr.filename.replace("\\", "/")
        k = fn.rfind("/amoco/")
        if k >= 0:
            at = "%s:%s" % (fn[k + 1:], fr.name)
            if fn[k:].startswith("/amoco/arch/") and not fn.endswith("/arch/core.py"):
                arch = at
    return type(ex).__name__, (arch or at), at


class DecTimeout(BaseException):
    """raised by the watchdog inside an amoco call that does not come back (CPU time)"""


def _on_alarm(signum, frame):
    raise DecTimeout()


def watchdog_init(mem_gb=6):
    """worker-side protection: a CPU-time alarm per observed call and an address-space limit, so
    that a decoder that loops or allocates without bound is an observation, not a dead harness"""
    import resource
    import signal
    signal.signal(signal.SIGVTALRM, _on_alarm)
    try:
        resource.setrlimit(resource.RLIMIT_AS, (mem_gb << 30, mem_gb << 30))
    except (ValueError, OSError):
        pass


TIMEOUT_S = 10.0


def guarded(fn, *a, **k):
    """run one amoco call under the watchdog: (result, None) or (None, (exc type name, call site))"""
    import signal
    signal.setitimer(signal.ITIMER_VIRTUAL, TIMEOUT_S)
    try:
        try:
            r = fn(*a, **k)
        finally:
            signal.setitimer(signal.ITIMER_VIRTUAL, 0)
        return r, None
    except DecTimeout as ex:
        k = crash_key(ex)
        return None, ("Timeout", k[1], k[1])
    except Exception as ex:  # an observation, never a harness crash
        return None, crash_key(ex)


def decode(isa, b, dis=None, isolate=True):
    """one observed decode call: returns (instruction or None, outcome record).
    isolate: when the call raised, the pending-prefix variable of the disassembler object is cleared
    afterwards, so that the NEXT case starts from a clean object (that a raising call leaves it set is
    C11's subject and is observed there with isolate=False; C05/C17 observe independent cases)."""
    i, exc = guarded(isa.call, b, dis)
    if exc is not None:
        if isolate:
            try:
                setattr(dis or isa.dis, "_disassembler__i", None)
            except Exception:
                pass
        return None, outcome(None, exc)
    return i, outcome(i)


class RegState(object):
    """sf flags of the architectural register objects of an ISA's env module: semantics functions of
    some ISAs write them (a C10 matter); the drivers put them back after every apply so that one
    input's outcome does not depend on which inputs ran before it"""

    def __init__(self, isa):
        X = _exp_class()
        self.regs = []
        mods = [isa.env] if isa.env is not None else []
        for n, m in list(sys.modules.items()):
            if m is not None and n.startswith(isa.modname.rsplit(".", 1)[0]) and n.endswith((".env", ".env64")):
                if m not in mods:
                    mods.append(m)
        seen = set()
        for m in mods:
            for v in vars(m).values():
                vs = v if isinstance(v, (list, tuple)) else [v]
                for r in vs:
                    if isinstance(r, X.exp) and id(r) not in seen:
                        seen.add(id(r))
                        try:
                            self.regs.append((r, r.sf))
                        except AttributeError:
                            pass

    def restore(self):
        for r, sf in self.regs:
            if r.sf != sf:
                try:
                    r.sf = sf
                except Exception:
                    pass


def repo_root():
    return os.environ.get("VERIF_REPO", "/repo")


# ---------------------------------------------------------------------------------------------------
# TLC side: every recorded trace gets a total verdict from specs/DecoderTrace.tla

def _validate_shard(a):
    from . import tlc
    path, tag = a
    return tlc.run("DecoderTrace", "DecoderTrace.cfg", workers=1, tag=tag, timeout=3000, xmx="3g",
                   env={"TRACE_FILE": path, "JAVA_TOOL_OPTIONS": "-XX:ParallelGCThreads=2 -XX:CICompilerCount=2"})


def _compact(o):
    return dict((k, v) for k, v in o.items() if k not in ("bytes", "mn"))


def validate(ctx, traces, tag, keep=("t", "kind", "m", "maxlen", "ev"),
             strip=("src", "hook", "mn", "syn", "exc", "at", "cls", "sp", "what", "hk")):
    """traces: list of dicts with integer 't'.  Writes NDJSON shards (only the fields the trace spec
    reads), runs DecoderTrace on each shard in parallel, returns {t: [(line, clause), ...]} and raises
    MachineryError if a verdict is missing."""
    import multiprocessing.pool
    from . import tlc
    if not traces:
        return {}
    wd = tlc.workdir("dec_" + tag)
    shards = tlc.shard(traces, max(1, min(max(4, tlc.NCPU // 2), len(traces) // 1200)))
    paths = []
    for k, sh in enumerate(shards):
        p = os.path.join(wd, "tr%d.ndjson" % k)
        with open(p, "w") as f:
            for tr in sh:
                rec = {}
                for key in keep:
                    if key in tr:
                        rec[key] = tr[key]
                if tr["kind"] == "c11":
                    # the C11 clauses compare outcomes only: byte lists are covered by the fingerprint
                    rec["ev"] = [dict([("out", _compact(e["out"])), ("base", _compact(e["base"])), ("pend", e["pend"])]
                                      + ([("xleak", e["xleak"])] if "xleak" in e else [])) for e in tr["ev"]]
                else:
                    rec["ev"] = [dict((a, b) for a, b in e.items() if a not in strip) for e in tr["ev"]]
                f.write(json.dumps(rec, separators=(",", ":")))
                f.write("\n")
        paths.append((p, "%s%d" % (tag, k)))
    with multiprocessing.pool.ThreadPool(len(paths)) as tp:
        results = tp.map(_validate_shard, paths)
    verdicts = {}
    for res in results:
        ctx.add_tlc(res, "T:DecoderTrace(%s)" % tag)
        for v in res.printed:
            verdicts[v["t"]] = [(f["line"], f["clause"], f.get("with", 0)) for f in v["fails"]]
    missing = [tr["t"] for tr in traces if tr["t"] not in verdicts]
    if missing:
        raise tlc.MachineryError("DecoderTrace printed no verdict for %d traces (first: %s)" % (len(missing), missing[:3]))
    tlc.cleanup(wd)
    return verdicts


# synthetic traces with one seeded fault each: DecoderTrace must reject every one with the named clause
def selftest_traces():
    ins = {"k": "instr", "len": 2, "bytes": [1, 2], "mn": "X", "fp": "a"}
    ins2 = {"k": "instr", "len": 2, "bytes": [1, 2], "mn": "X", "fp": "b"}
    none = {"k": "none"}
    dec = {"st": "decode", "k": "instr", "mnstr": 1, "mnlen": 3, "type": 1, "len": 2, "opsl": 1, "opk": ["exp"]}
    T = []

    def c05(ev, clause, maxlen=2):
        T.append(({"kind": "c05", "m": "self/test", "maxlen": maxlen, "ev": ev}, clause))

    def c11(ev, clause):
        T.append(({"kind": "c11", "m": "self/test", "maxlen": 2, "ev": ev}, clause))

    def c17(ev, clause):
        T.append(({"kind": "c17", "m": "self/test", "maxlen": 2, "ev": ev}, clause))

    c05([{"in": [1, 2, 3], "out": ins}, {"in": [1, 2], "out": ins}, {"in": [1, 2, 9], "out": ins}, {"in": [1], "out": none}], None)
    c05([{"in": [1, 2, 3], "out": ins}, {"in": [1, 2, 9], "out": ins2}], "PrefixDetermined")
    c05([{"in": [1, 2, 3], "out": ins}, {"in": [1, 2], "out": none}], "PrefixDetermined")
    c05([{"in": [1], "out": ins}], "Consumes")
    c05([{"in": [1, 3, 3], "out": ins}], "Consumes")
    c05([{"in": [1, 2, 3], "out": dict(ins, len=0, bytes=[])}], "Consumes")
    c05([{"in": [1, 2, 3, 4], "out": ins}, {"in": [1, 2], "out": none}], "Window")
    c05([{"in": [1, 2, 3], "out": dict(ins, len=3, bytes=[1, 2, 3])}, {"in": [1, 2], "out": ins}], "TruncatedAccepted")
    c05([{"in": [1, 2, 3], "out": ins}, {"in": [1, 2, 3], "out": ins2}], "Functional")
    c05([{"in": [1, 2, 3], "out": ins}, {"in": [1, 2, 9], "out": {"k": "raised", "exc": "KeyError", "at": "x"}}], None)
    c11([{"in": [1, 2], "out": ins, "base": ins, "pend": 0}, {"in": [7], "out": none, "base": none, "pend": 0}], None)
    c11([{"in": [1, 2], "out": ins, "base": ins2, "pend": 0}], "NoMemory")
    c11([{"in": [5], "out": {"k": "raised"}, "base": {"k": "raised"}, "pend": 1},
         {"in": [1, 2], "out": ins2, "base": ins, "pend": 0}], "Dev_HookRaises")
    c11([{"in": [5], "out": {"k": "raised"}, "base": {"k": "raised"}, "pend": 1},
         {"in": [7], "out": none, "base": none, "pend": 0},
         {"in": [1, 2], "out": ins2, "base": ins, "pend": 0}], "NoMemory")
    c11([{"in": [7], "out": none, "base": none, "pend": 1}], "drift:PendingAtReturn")
    c11([{"in": [1, 2], "out": dict(ins, fps="s"), "base": dict(ins2, fps="s"), "pend": 0}], "Dev_SharedRegSf")
    c11([{"in": [1, 2], "out": dict(ins, fps="s"), "base": dict(ins2, fps="t"), "pend": 0}], "NoMemory")
    ok = [dec, {"st": "render", "k": "str"}, {"st": "toks", "k": "list"},
          {"st": "pickle", "k": "ok", "fp0": "a", "fp1": "a"}, {"st": "apply", "k": "updated"}]
    c17(ok, None)
    c17([{"st": "decode", "k": "none"}], None)
    c17([{"st": "decode", "k": "raised"}], "Raised")
    c17([dict(dec, mnlen=0)], "Mnemonic")
    c17([dict(dec, mnstr=0)], "Mnemonic")
    c17([dict(dec, type=7)], "Type")
    c17([dict(dec, len=0)], "Length")
    c17([dict(dec, opk=["exp", "int"])], "Operands")
    c17([dec, {"st": "render", "k": "raised"}], "Raised")
    c17([dec, {"st": "render", "k": "bytes"}], "RenderOutcome")
    c17([dec, {"st": "pickle", "k": "ok", "fp0": "a", "fp1": "b"}], "PickleChanged")
    c17([dec, {"st": "pickle", "k": "ok", "fp0": "a", "fp1": "a", "tx0": "t", "tx1": "u"}], "PickleChanged")
    c17([dec, {"st": "pickle", "k": "ok", "fp0": "a", "fp1": "a", "tx0": "t", "tx1": "t"}], None)
    c17([dec, {"st": "apply", "k": "raised"}], "Raised")
    c17([dec, {"st": "apply", "k": "logged"}], None)
    return T


def selftest(ctx, kinds):
    """non-vacuity of the trace spec: seeded faults must be rejected with the expected clause"""
    from . import tlc
    T = [(tr, cl) for tr, cl in selftest_traces() if tr["kind"] in kinds]
    traces = []
    for n, (tr, cl) in enumerate(T):
        tr = dict(tr)
        tr["t"] = n + 1
        traces.append(tr)
    wd = tlc.workdir("dec_selftest")
    p = os.path.join(wd, "self.ndjson")
    tlc.write_ndjson(p, traces)
    res = tlc.run("DecoderTrace", "DecoderTrace.cfg", workers=1, env={"TRACE_FILE": p}, tag="decself")
    got = dict((v["t"], [f["clause"] for f in v["fails"]]) for v in res.printed)
    for n, (tr, cl) in enumerate(T):
        g = got.get(n + 1)
        if g is None:
            raise tlc.MachineryError("selftest: no verdict for synthetic trace %d" % (n + 1))
        if (cl is None and g) or (cl is not None and cl not in g):
            raise tlc.MachineryError("selftest: synthetic %s trace %d expected clause %s, DecoderTrace said %s"
                                     % (tr["kind"], n + 1, cl, g))
    ctx.add_tlc(res, "M:DecoderTrace selftest (%d seeded-fault traces)" % len(T))
    ctx.note("selftest_traces_rejected_as_expected", len([1 for _, c in T if c is not None]))
    tlc.cleanup(wd)


def mute_stdout():
    """worker processes only: some amoco formatters print() debugging text"""
    try:
        sys.stdout = open(os.devnull, "w")
        sys.stderr = open(os.devnull, "w")
    except OSError:
        pass
