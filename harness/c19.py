"""C19 - build two branch maps on real amoco mappers, call merge(), log every location of the three maps.

A behaviour (from specs/Merge.tla, or from the random driver below) is
    {"pre": [op..], "b1": [op..], "b2": [op..], "w": 0|1, "t": 0|1, "c1": k, "c2": k}
    op = {"o":"reg","r":name,"e":kind} | {"o":"flag","r":name,"e":kind} | {"o":"st","off":k,"n":bytes,"e":kind}
         | {"o":"pp","k":k}                      p := p + k (the branch moves the pointer's base register)
         | {"o":"vp","r":name,"offs":[k1,k2]}   (driver only: r := vec of two pointers p+k1, p+k2)
         | {"o":"stv","r":name,"n":bytes,"e":kind,"d":disp} (driver only: store through the vector-valued
                                                 pointer r at displacement d)
    optional "b3", "c3", "w2": a third branch; the merge of the first two is merged again with it (a second record)
in MODEL units. The replayer is dumb: it concretises value kinds (constants, input registers, sums, xors - the
same kind is the same expression in both branches), path-condition choices (x == K, y == K) and the valuations
with the seeded rng, performs the API calls, and serialises (attribute reads only) what each of m1, m2 and
mm = merge(m1, m2) holds for every register and every memory byte, plus the items, what the assume() copies
merge() works on hold, and what amoco's own evaluation of mm on two of the valuations (c >> mm) returns.
Nothing is compared here: specs/MergeTrace.tla decides.
"""
import random

from harness import ser

W = 32


def _setup(rng, scale):
    from amoco.cas import expressions as X
    u = {"p": X.reg("p", 32), "x": X.reg("x", W), "y": X.reg("y", W)}
    k1, k2, k3 = (rng.getrandbits(W) for _ in range(3))
    kinds = {
        1: lambda: X.cst(k1, W),
        2: lambda: u["x"],
        3: lambda: u["x"] + X.cst(k2 & 0xFF, W),
        4: lambda: u["x"] ^ u["y"],
        5: lambda: X.cst(k3, W),
        6: lambda: u["y"] - u["x"],
    }
    fkinds = {
        1: lambda: X.cst(k1 & 1, 1),
        2: lambda: u["x"][0:1],
        3: lambda: (u["x"] == u["y"]),
        4: lambda: u["y"][W - 1:W],
        5: lambda: X.cst(1 - (k1 & 1), 1),
        6: lambda: u["x"][1:2],
    }
    return u, kinds, fkinds, (k1, k2, k3)


def _reg(u, name, flag=False):
    from amoco.cas import expressions as X
    if name not in u:
        if flag:
            u[name] = X.is_reg_flags(X.reg(name, 1))
        else:
            u[name] = X.reg(name, W if name != "v" else 32)
    return u[name]


def _apply(m, ops, u, kinds, fkinds, scale):
    from amoco.cas import expressions as X
    for op in ops:
        if op["o"] == "reg":
            m[_reg(u, op["r"])] = m(kinds[op["e"]]())
        elif op["o"] == "flag":
            m[_reg(u, op["r"], True)] = m(fkinds[op["e"]]())
        elif op["o"] == "st":
            n = op["n"] * scale
            v = m(kinds[op["e"]]())
            m[X.mem(u["p"] + op["off"] * scale, 8 * n)] = v[0:8 * n] if 8 * n < W else v
        elif op["o"] == "pp":
            m[u["p"]] = m(u["p"] + op["k"] * scale)
        elif op["o"] == "vp":
            m[_reg(u, op["r"])] = X.vec([u["p"] + k * scale for k in op["offs"]])
        elif op["o"] == "stv":
            n = op["n"] * scale
            v = m(kinds[op["e"]]())
            d = op.get("d", 0) * scale
            a = _reg(u, op["r"]) + d if d else _reg(u, op["r"])
            m[X.mem(a, 8 * n)] = v[0:8 * n] if 8 * n < W else v


def _tree(f):
    try:
        return ser.tree(f())
    except Exception as ex:
        return {"k": "raised", "w": 0, "sf": 0, "what": type(ex).__name__}


def _observe(rec, held, mm, u, lo, hi, envs):
    """what held[0], held[1] (copies taken before the call) and mm hold, per register / memory byte / item key"""
    from amoco.cas import expressions as X
    from amoco.cas.mapper import mapper
    from amoco.config import conf
    maps = held + [mm]
    names = ["m1", "m2", "mm"]
    copies = []                                   # the assume() copies merge() works on
    for m in held:
        try:
            copies.append(m.assume(m.conds))
        except Exception:
            copies.append(None)
    for name in sorted(u):
        r = u[name]
        e = {"n": name, "w": r.size}
        for nm, m in zip(names, maps):
            e[nm] = _tree(lambda: m[r])
        rec["regs"].append(e)
    for o in range(lo, hi):
        k = X.mem(u["p"] + o, 8) if o else X.mem(u["p"], 8)
        e = {"o": o}
        for nm, m in zip(names, maps):
            e[nm] = _tree(lambda: m[k])
        for nm, m in zip(("m1a", "m2a"), copies):
            e[nm] = _tree(lambda: m[k]) if m is not None else {"k": "raised", "w": 0, "sf": 0, "what": "assume"}
        rec["cells"].append(e)
    keys = []
    for m in maps:
        for loc, v in m:
            if not any(ser.tree(loc) == ser.tree(k) for k, _ in keys):
                keys.append((loc, v.size))
    for loc, size in keys:
        e = {"loc": ser.tree(loc)}
        msize = [v.size for l, v in mm if ser.tree(l) == ser.tree(loc)]
        rsize = msize[0] if msize else size          # locations are compared at the size of mm's item
        for nm, m in zip(names, maps):
            own = [v for l, v in m if ser.tree(l) == ser.tree(loc)]
            e[nm + "_has"] = 1 if own else 0
            e[nm + "_w"] = own[0].size if own else 0
            vecbase = loc._is_ptr and (not loc.base._is_def or loc.base._is_vec)
            if loc._is_ptr:
                rd = _tree(lambda: m[X.mem(loc, rsize)]) if not vecbase else {"k": "skip", "w": 0, "sf": 0}
            else:
                rd = _tree(lambda: m[loc])
            e[nm] = rd                                                   # what the location holds (read)
            e[nm + "_item"] = ser.tree(own[0]) if own and loc._is_ptr else rd   # the item's own value
        rec["items"].append(e)
    rec["envs"] = envs
    # amoco's own evaluation of the merged map on a concrete state: c >> mm (concrete addresses: noaliasing)
    na = conf.Cas.noaliasing
    conf.Cas.noaliasing = True
    try:
        for k in (2, 5):
            env = envs[k]
            ev = {"k": k + 1, "raised": "", "regs": [], "cells": []}
            try:
                c = mapper()
                for name in sorted(u):
                    c[u[name]] = X.cst(ser.unbits(env["regs"][name]), u[name].size)
                for i, b in enumerate(env["mem"]):
                    c[X.mem(X.cst(env["mlo"] + i, 32), 8)] = X.cst(b, 8)
                r = c >> mm
            except Exception as ex:
                ev["raised"] = "%s: %s" % (type(ex).__name__, str(ex)[:100])
                rec["ev"].append(ev)
                continue
            pb = ser.unbits(env["regs"]["p"])
            for name in sorted(u):
                ev["regs"].append({"n": name, "t": _tree(lambda: r[u[name]])})
            for o in range(lo, hi):
                ev["cells"].append({"o": o, "t": _tree(lambda: r[X.mem(X.cst(pb + o, 32), 8)])})
            rec["ev"].append(ev)
    finally:
        conf.Cas.noaliasing = na


def _window(beh, scale):
    offs, sh = [], 0
    for ops in (beh["pre"], beh["b1"], beh["b2"], beh.get("b3", [])):
        s = sum(o["k"] for o in beh["pre"] if o["o"] == "pp") if ops is not beh["pre"] else 0
        for o in ops:
            if o["o"] == "pp":
                s += o["k"]
            elif o["o"] == "st":
                offs.append((o["off"] + s) * scale)
            elif o["o"] == "stv":
                sh = max(sh, o.get("d", 0) * scale)
        sh = max(sh, 0)
    vps = [k * scale for ops in (beh["pre"], beh["b1"], beh["b2"], beh.get("b3", [])) for o in ops if o["o"] == "vp" for k in o["offs"]]
    offs += vps + [k + sh for k in vps]
    return (min(offs) - 2, max(offs) + 4 * scale + 2) if offs else (0, 4)


def execute(tid, beh, seed):
    from amoco.cas import expressions as X
    from amoco.cas.mapper import mapper, merge
    from amoco.config import conf
    from pickle import dumps, loads, HIGHEST_PROTOCOL
    rng = random.Random(seed)
    allops = beh["pre"] + beh["b1"] + beh["b2"] + beh.get("b3", [])
    scale = rng.choice((1, 2)) if all(o.get("n", 1) <= 2 for o in allops) else 1
    na = rng.choice((True, True, False))
    thr = rng.choice((1, 2, 3, 5, 8)) if beh["t"] else 0
    saved = (conf.Cas.noaliasing, conf.Cas.memtrace, conf.Cas.complexity)
    conf.Cas.noaliasing, conf.Cas.memtrace, conf.Cas.complexity = na, True, 0

    def new(stage):
        return {"t": tid, "seed_case": seed, "stage": stage, "w": beh["w"] if stage == 1 else beh.get("w2", 0), "thr": thr,
                "na": 1 if na else 0, "scale": scale, "beh": beh, "raised": "", "at": "",
                "regs": [], "cells": [], "items": [], "envs": [], "ev": [], "conds": [[], []]}
    rec = new(1)
    try:
        u, kinds, fkinds, ks = _setup(rng, scale)
        step = "build"
        try:
            ms, condvals = [], []
            branches = [(beh["b1"], beh["c1"]), (beh["b2"], beh["c2"])]
            if "b3" in beh:
                branches.append((beh["b3"], beh.get("c3", 0)))
            for ops, ck in branches:
                m = mapper()
                _apply(m, beh["pre"], u, kinds, fkinds, scale)
                _apply(m, ops, u, kinds, fkinds, scale)
                conds, cv = [], {}
                if ck in (1, 3):
                    cv["x"] = rng.choice((0, 3, ks[1] & 0xFF, rng.getrandbits(W)))
                    conds.append(u["x"] == X.cst(cv["x"], W))
                if ck in (2, 3):
                    cv["y"] = rng.choice((0, 1, rng.getrandbits(W)))
                    conds.append(u["y"] == X.cst(cv["y"], W))
                if conds:
                    if rng.random() < 0.5:
                        m = m.assume(conds)
                    else:
                        m.conds = conds
                condvals.append(cv)
                ms.append(m)
            cj = lambda cv: [{"r": k, "v": ser.bits(v, W)} for k, v in sorted(cv.items())]
            rec["conds"] = [cj(condvals[0]), cj(condvals[1])]
            # valuations: boundary + random, some forced to satisfy each branch's conditions
            lo, hi = _window(beh, scale)
            pbase = 0x1000 * rng.randint(1, 0x3FF)
            envs = []
            for i in range(8):
                regs = {"p": pbase}
                for name in sorted(u):
                    if name != "p":
                        wd = u[name].size
                        regs[name] = rng.choice((0, 1, (1 << wd) - 1, rng.getrandbits(wd), rng.getrandbits(wd)))
                if i < 6:
                    regs.update(condvals[i % len(condvals)])
                if i in (2, 3) and all(not cv for cv in condvals):
                    regs["y"] = regs["x"]
                envs.append({"regs": dict((k, ser.bits(v, u[k].size)) for k, v in regs.items()),
                             "mlo": pbase + lo - 4, "mem": [rng.randint(0, 255) for _ in range(hi - lo + 12)]})
            # merge() simplifies shared expression objects in place: what the maps held when they were given to
            # merge() is observed on copies taken before the call
            step = "copy"
            held = [loads(dumps(m, HIGHEST_PROTOCOL)) for m in ms]
            step = "merge"
            conf.Cas.complexity = thr          # the threshold under which the maps are merged
            try:
                mm = merge(ms[0], ms[1], widening=True) if beh["w"] else merge(ms[0], ms[1])
            finally:
                conf.Cas.complexity = 0
        except Exception as ex:
            rec["raised"] = "%s: %s" % (type(ex).__name__, str(ex)[:200])
            rec["at"] = step
            return rec
        _observe(rec, held[:2], mm, u, lo, hi, envs)
        if len(ms) == 3:
            rec2 = new(2)
            rec2["conds"] = [[], cj(condvals[2])]
            try:
                step = "copy"
                held12 = loads(dumps(mm, HIGHEST_PROTOCOL))
                step = "merge"
                conf.Cas.complexity = thr
                try:
                    mm3 = merge(mm, ms[2], widening=True) if beh.get("w2") else merge(mm, ms[2])
                finally:
                    conf.Cas.complexity = 0
            except Exception as ex:
                rec2["raised"] = "%s: %s" % (type(ex).__name__, str(ex)[:200])
                rec2["at"] = step
            else:
                _observe(rec2, [held12, held[2]], mm3, u, lo, hi, envs)
            rec["second"] = rec2
        return rec
    finally:
        conf.Cas.noaliasing, conf.Cas.memtrace, conf.Cas.complexity = saved


# --- T: behaviours drawn by the seeded rng beyond the model (vector-valued pointers, more registers) ---
def random_behaviour(rng):
    def op(allow_vp, have_v):
        k = rng.random()
        e = rng.randint(1, 6)
        if k < 0.25:
            return {"o": "reg", "r": rng.choice("ab"), "e": e}
        if k < 0.35:
            return {"o": "flag", "r": rng.choice(("f", "g")), "e": e}
        if k < 0.43:
            return {"o": "pp", "k": rng.choice((1, 2, 4))}
        if have_v and k < 0.62:
            return {"o": "stv", "r": "v", "n": rng.choice((1, 2, 4)), "e": e, "d": rng.choice((0, 0, 1, 2, 4))}
        return {"o": "st", "off": rng.randint(0, 6), "n": rng.choice((1, 2, 4)), "e": e}
    pre = []
    have_v = rng.random() < 0.4
    if have_v:
        a = rng.randint(0, 6)
        pre.append({"o": "vp", "r": "v", "offs": [a, a + rng.choice((1, 2, 4, 8))]})
    for _ in range(rng.randint(0, 2)):
        pre.append(op(False, have_v))
    b1 = [op(False, have_v) for _ in range(rng.randint(0, 3))]
    b2 = [op(False, have_v) for _ in range(rng.randint(1, 3))]
    beh = {"pre": pre, "b1": b1, "b2": b2, "w": 1 if rng.random() < 0.25 else 0, "t": 1 if rng.random() < 0.3 else 0,
           "c1": rng.choice((0, 0, 1, 2, 3)), "c2": rng.choice((0, 0, 1, 2))}
    if rng.random() < 0.3:
        # a chain of two merges: the merge of the first two branches is merged with a third branch
        beh["b3"] = [op(False, have_v) for _ in range(rng.randint(1, 2))]
        beh["c3"] = 0
        beh["w2"] = 1 if rng.random() < 0.3 else 0
        if rng.random() < 0.6:
            # the widened value of a register absorbs a further alternative
            r = rng.choice("ab")
            beh["b1"].append({"o": "reg", "r": r, "e": 2})
            beh["b2"].append({"o": "reg", "r": r, "e": rng.choice((2, 4, 3))})
            beh["b3"].append({"o": "reg", "r": r, "e": rng.choice((1, 5))})
            beh["w"] = 1
            beh["c1"] = beh["c2"] = 0
    return beh
