"""Tiny reproducer for C06 findings.

  PYTHONPATH=/repo:/verif /venv/bin/python -m harness.c06repro rv32 0020a1b3 x1=0xffffffff x2=1 [pc=0x1000]
      decodes the word with cpu_rv32i / cpu_rv64i, applies it to a concrete state (xi = 0x100*i + i unless given,
      32 bytes 01 02 .. 20 at 0x2000) and prints every register / pc / memory byte that changed.
  PYTHONPATH=/repo:/verif /venv/bin/python -m harness.c06repro x64 31d8 rax=0x0f rbx=0xf0 [r=<16 hex>,..] [fl=0x1] [mem=<hex>]
      decodes the bytes with cpu_x64 (x86: cpu_x86), applies them to the concrete state and prints amoco's registers,
      flags and rip next to what the host processor produces for the same bytes and state (.work/bin/x86run).
"""
import sys


def rv(xlen, word, regs, pc):
    from . import c06rv
    from .ser import limbs, unlimbs
    cpu = c06rv.cpu_of(xlen)
    c06rv.reset_flags(cpu)
    x = [limbs(regs.get(i, 0x100 * i + i), xlen) for i in range(32)]
    m = c06rv.build(cpu, xlen, x, limbs(pc, xlen), limbs(0x2000, xlen), list(range(1, 33)), True)
    pre, _ = c06rv.observe(m, cpu, xlen)
    dec, mn, raised = c06rv.apply_word(m, cpu, xlen, word)
    post, _ = c06rv.observe(m, cpu, xlen)
    show = lambda v: ("%#x" % unlimbs(v)) if v else "<not a constant>"
    print("rv%d word %08x: %s%s" % (xlen, word, mn if dec else "<not decoded>", (" RAISED " + raised) if raised else ""))
    for i in range(32):
        if post["x"][i] != pre["x"][i]:
            print("  x%d: %s -> %s" % (i, show(pre["x"][i]), show(post["x"][i])))
    print("  pc: %s -> %s" % (show(pre["pc"]), show(post["pc"])))
    pm = dict((unlimbs(a), b) for a, b in pre["mem"])
    for a, b in post["mem"]:
        if pm.get(unlimbs(a)) != b:
            print("  mem[%#x]: %s -> %#x" % (unlimbs(a), pm.get(unlimbs(a)), b))


def main(argv):
    isa = argv[0]
    kv = dict(a.split("=", 1) for a in argv[2:])
    if isa in ("rv32", "rv64"):
        regs = dict((int(k[1:]), int(v, 0)) for k, v in kv.items() if k.startswith("x"))
        rv(int(isa[2:]), int(argv[1], 16), regs, int(kv.get("pc", "0x1000"), 0))
    else:
        from . import c06x86
        c06x86.repro(isa, argv[1], kv)


if __name__ == "__main__":
    main(sys.argv[1:])
