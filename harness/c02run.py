"""C02 pipeline, T direction: generate cases on real amoco (harness/c02.py, parallel workers, one ISA per job)
-> shards of NDJSON traces -> TLC (specs/LockstepTrace.tla, one single-worker JVM per shard, in parallel)
-> per-trace verdicts mapped to ctx.fail / ctx.drift with narrow keys."""
import json
import multiprocessing as mp
import os

from . import tlc, c02, c02isa

CONFIGS = [(1, 1), (1, 0), (0, 1), (0, 0)]     # (noaliasing, memtrace)


def _validate(args):
    path, tag = args
    return tlc.run("LockstepTrace", "LockstepTrace.cfg", workers=1, env={"TRACE_FILE": path}, tag=tag,
                   timeout=6000, xmx="3g", xss="1g")


def generate(ctx, plan, deep_every, wants=None):
    """plan: list of (isa name, number of cases). returns list of traces.
    wants: {isa: [[mnemonic, ...] per case]} (sweep mode: aim every case at given mnemonics)"""
    jobs = []
    tid = 1
    for name, n in plan:
        # split an ISA's cases in chunks so that all cores are busy
        chunk = 12
        done = 0
        w = (wants or {}).get(name)
        while done < n:
            c = min(chunk, n - done)
            jobs.append((name, ctx.seed * 1000003 + tid, tid, c, deep_every, CONFIGS, w[done:done + c] if w else None))
            tid += c
            done += c
    traces = []
    from concurrent.futures import ProcessPoolExecutor
    with ProcessPoolExecutor(min(tlc.NCPU, max(1, len(jobs)))) as ex:
        for out in ex.map(c02.make_cases, jobs):
            traces.extend(out)
    traces.sort(key=lambda t: t["t"])
    return traces


def validate(traces, tag="c02T", maxshards=None):
    """returns {trace id: verdict record} and the TLC results"""
    for i, t in enumerate(traces):
        t["t"] = i + 1
    good = [t for t in traces if "steps" in t]
    wd = tlc.workdir(tag)
    order = sorted(range(len(good)), key=lambda i: -len(json.dumps(good[i])))
    nsh = max(1, min(maxshards or max(2, tlc.NCPU // 2), len(good) // 8 or 1))
    shards = [[] for _ in range(nsh)]
    for k, i in enumerate(order):
        shards[k % nsh].append(good[i])
    paths = []
    for i, sh in enumerate(shards):
        if not sh:
            continue
        p = os.path.join(wd, "tr%d.ndjson" % i)
        tlc.write_ndjson(p, sh)
        paths.append((p, "%s%d" % (tag, i)))
    from concurrent.futures import ThreadPoolExecutor
    with ThreadPoolExecutor(max(1, len(paths))) as tp:
        results = list(tp.map(_validate, paths))
    verdicts = {}
    for res in results:
        for v in res.printed:
            verdicts[v["t"]] = v["v"]
    tlc.cleanup(wd)
    return verdicts, results
