"""C20 - shared pieces of the replayer: the corpus of bases, and the concretisation of the fault descriptors
that TLC (specs/Ident.tla, Mode="gen") prints.  Nothing here decides anything: a descriptor names a base, a
place and a value CLASS; this module turns it into bytes (BUILDING.md rule (d)).  The rng of a flip / random
string is derived from the DESCRIPTOR ONLY: the universe of inputs is fixed, the check's seed only selects which
descriptors of it the quick tier runs (the thorough tier runs them all), so no seed can reach an input - hence a
crash site of the unchanged tree - that the thorough tier does not reach."""
import hashlib
import json
import os
import random

from . import tlc

CORPUS = os.path.join(tlc.VERIF, "corpus", "ident")
FORMATS = ("ELF", "PE", "MachO", "COFF", "HEX", "SREC")


def repo_dir():
    return os.environ.get("VERIF_REPO", "/repo")


def _rec_hex(body):
    return b":" + bytes(body).hex().upper().encode() + b"%02X" % ((-sum(body)) & 0xFF)


def _rec_srec(t, body):
    count = len(body) + 1
    return b"S%d%02X" % (t, count) + bytes(body).hex().upper().encode() + b"%02X" % ((~(count + sum(body))) & 0xFF)


def gen_text(fmt, nlines, k, eol):
    """a well-formed Intel-HEX / S-record file: nlines 16-byte data records, one k-byte data record, the end
    record; eol 'lf' | 'crlf'.  The first data record holds zeros so that the two characters COFF (which has no
    magic number and is tried before HEX/SREC) reads as f_opthdr are '00'.  Used by corpus/ident/build.py (which
    asks objdump what the result is) and, with the vendored sha256, by load_bases."""
    e = b"\n" if eol == "lf" else b"\r\n"
    lines, addr = [], 0
    if fmt == "SREC":
        lines.append(_rec_srec(0, b"\x00\x00"))
    for i in range(nlines + 1):
        m = 16 if i < nlines else k
        data = bytes(m) if i == 0 else bytes((((i * 16 + j) * 7) & 0xFF) for j in range(m))
        head = [(addr >> 8) & 0xFF, addr & 0xFF]
        lines.append(_rec_hex([m] + head + [0] + list(data)) if fmt == "HEX" else _rec_srec(1, bytes(head) + data))
        addr = (addr + 16) & 0xFFFF
    lines.append(b":00000001FF" if fmt == "HEX" else _rec_srec(9, b"\x00\x00"))
    return e.join(lines) + e


def load_bases():
    """-> (list of base dicts with key 'data', notes).  Vendored truth/layout is only used when the bytes on disk
    still have the vendored sha256; a sample that changed (or is new) is an unknown byte string: truth 'any'."""
    bases, notes = [], []
    seen = set()
    repo = repo_dir()
    with open(os.path.join(CORPUS, "bases.ndjson")) as f:
        for line in f:
            b = json.loads(line)
            kind, rel = b["src"].split(":", 1)
            if kind == "gen":       # generated text family: recipe vendored, bytes rebuilt and checked by sha256
                fmt, nl, k, eol = rel.split(":")
                data = gen_text(fmt, int(nl), int(k), eol)
            else:
                path = os.path.join(repo if kind == "repo" else CORPUS, rel)
                seen.add(os.path.realpath(path))
                try:
                    with open(path, "rb") as g:
                        data = g.read()
                except OSError:
                    notes.append("base %s is missing from the tree" % b["name"])
                    continue
            if hashlib.sha256(data).hexdigest() != b["sha256"]:
                notes.append("base %s changed since the corpus was built: vendored truth/layout dropped" % b["name"])
                b.update(truth="any", regions=[], kind="bin", len=len(data))
            b["data"] = data
            bases.append(b)
    sdir = os.path.join(repo, "tests", "samples")
    for root, dirs, files in sorted(os.walk(sdir)):
        dirs.sort()
        for fn in sorted(files):
            p = os.path.join(root, fn)
            if os.path.realpath(p) not in seen:
                with open(p, "rb") as g:
                    data = g.read()
                notes.append("sample %s is not in the vendored corpus: no truth/layout" % os.path.relpath(p, sdir))
                bases.append({"name": os.path.relpath(p, sdir), "src": "repo:" + os.path.relpath(p, repo),
                              "len": len(data), "truth": "any", "kind": "bin", "regions": [], "data": data})
    for i, b in enumerate(bases):
        b["id"] = i + 1
    return bases, notes


def write_bases_for_tlc(bases, path):
    with open(path, "w") as f:
        for b in bases:
            d = {k: b[k] for k in ("id", "name", "len", "truth", "kind", "regions")}
            d["nf"] = sum(len(r["f"]) for r in b["regions"])
            d["intact"] = 1 if b.get("intact_only") else 0
            f.write(json.dumps(d, separators=(",", ":")))
            f.write("\n")


# ------------------------------------------------------------------------------------------------------
def _rng(key):
    return random.Random("c20|" + key)


def _bin_value(cls, n, be, orig, flen):
    m = 1 << (8 * n)
    v = {"zero": 0, "one": 1, "max": m - 1, "maxpos": (m >> 1) - 1, "minneg": m >> 1, "hi": 0x10 << (8 * (n - 1)),
         "inc": orig + 1, "dec": orig - 1, "flen": flen, "flenm1": flen - 1, "flenp1": flen + 1}[cls]
    return (v % m).to_bytes(n, "big" if be else "little")


def _fix_record(data, o, kind):
    """recompute the checksum of the text record that contains offset o"""
    s = data.rfind(b"\n", 0, o) + 1
    e = data.find(b"\n", o)
    e = len(data) if e < 0 else e
    rec = bytes(data[s:e]).rstrip(b"\r")
    body = rec[1:-2] if kind == "HEX" else rec[2:-2]
    try:
        raw = bytes.fromhex(body.decode("ascii"))
    except (ValueError, UnicodeDecodeError):
        return data
    ck = (-sum(raw)) & 255 if kind == "HEX" else (~sum(raw)) & 255
    data[s + len(rec) - 2:s + len(rec)] = b"%02X" % ck
    return data


def _text_value(cls, n, orig):
    try:
        ov = int(orig, 16)
    except ValueError:
        ov = 0
    m = 16 ** n
    if cls in ("zero", "one", "max", "inc", "dec"):
        v = {"zero": 0, "one": 1, "max": m - 1, "inc": ov + 1, "dec": ov - 1}[cls] % m
        return (b"%0*X" % (n, v))
    if cls == "nonhex":
        return b"Z" * n
    if cls == "lower":
        return bytes(orig).lower() if bytes(orig).lower() != bytes(orig) else bytes(orig).upper()
    if cls == "empty":
        return b""
    raise KeyError(cls)


def _hexrec(rng, good):
    typ = rng.choice((0, 0, 0, 1, 2, 3, 4, 5, rng.randrange(256)))
    cnt = rng.choice((0, 1, 2, 2, 4, 4, 8, 16, rng.randrange(40)))
    body = bytes([cnt, rng.randrange(256), rng.randrange(256), typ]) + bytes(rng.randrange(256) for _ in range(cnt))
    ck = (-sum(body)) & 255
    if not good:
        k = rng.randrange(4)
        if k == 0:
            ck ^= 1 << rng.randrange(8)
        elif k == 1:
            body = body[:-1] if len(body) > 4 else body
        elif k == 2:
            body = bytes([body[0] ^ rng.choice((1, 2, 255))]) + body[1:]
            ck = (-sum(body)) & 255
    s = b":" + (body + bytes([ck])).hex().upper().encode()
    if not good and rng.random() < 0.2:
        i = rng.randrange(len(s))
        s = s[:i] + rng.choice((b"G", b" ", b"\x00", b":")) + s[i + 1:]
    return s


def _srec(rng, good):
    typ = rng.choice((0, 1, 1, 2, 3, 5, 6, 7, 8, 9, 4))
    al = {0: 2, 1: 2, 2: 3, 3: 4, 4: 0, 5: 2, 6: 3, 7: 4, 8: 3, 9: 2}[typ]
    nd = rng.choice((0, 1, 2, 4, 8, 16, rng.randrange(30)))
    pay = bytes(rng.randrange(256) for _ in range(al + nd))
    cnt = al + nd + 1
    if not good and rng.random() < 0.5:
        cnt = (cnt + rng.choice((-1, 1, 2, 128))) & 255
    body = bytes([cnt]) + pay
    ck = (~sum(body)) & 255
    if not good and rng.random() < 0.3:
        ck ^= 1 << rng.randrange(8)
    s = b"S%d" % typ + (body + bytes([ck])).hex().upper().encode()
    if not good and rng.random() < 0.2:
        i = rng.randrange(len(s))
        s = s[:i] + rng.choice((b"G", b" ", b"\x00", b"S")) + s[i + 1:]
    return s


def _rand(rng, fl, n):
    rb = lambda k: bytes(rng.randrange(256) for _ in range(k))
    if fl == "bytes":
        return rb(n)
    if fl == "ascii":
        return bytes(rng.choice(b"abcxyz0159AF:S \n\r\t.,;#") for _ in range(n))
    if fl in ("hexrec", "srec"):
        out, good = [], rng.random() < 0.5
        gen = _hexrec if fl == "hexrec" else _srec
        while sum(len(x) + 1 for x in out) < max(n, 1):
            out.append(gen(rng, good or rng.random() < 0.7))
        return rng.choice((b"\n", b"\r\n")).join(out) + rng.choice((b"", b"\n"))
    if fl in ("magicELF32", "magicELF64"):
        ident = b"\x7fELF" + bytes([1 if fl == "magicELF32" else 2, rng.choice((1, 1, 2, 0, 3)), 1]) + bytes(9)
        return ident + rb(n)
    if fl == "magicMZ":
        lfanew = rng.choice((64, 64, 2, 60, 128))
        d = bytearray(b"MZ" + rb(58) + lfanew.to_bytes(4, "little") + rb(max(lfanew - 64, 0)))
        d[lfanew:lfanew + 4] = b"PE\0\0"
        return bytes(d) + rb(n)
    if fl in ("magicMachO32", "magicMachO64"):
        magic = 0xFEEDFACE if fl == "magicMachO32" else 0xFEEDFACF
        hdr = magic.to_bytes(4, "little") + rb(12) + rng.choice((0, 1, 2, 3, 255)).to_bytes(4, "little") + \
            rng.choice((0, 8, 24, 56, 72, 0xFFFF)).to_bytes(4, "little")
        return hdr + rb(n)
    if fl == "magicFat":
        return b"\xca\xfe\xba\xbe" + rng.choice((0, 1, 2, 3)).to_bytes(4, rng.choice(("big", "little"))) + rb(n)
    if fl == "coffish":
        return rng.choice((0x14c, 0x8664, 0x1c0)).to_bytes(2, "little") + rng.choice((0, 1, 2, 3)).to_bytes(2, "little") + rb(n)
    raise KeyError(fl)


def concretise(case, bases_by_id):
    """case = [b, ops, truth] as printed by Ident.tla -> bytes"""
    b = case["b"]
    base = bases_by_id.get(b)
    data = bytearray(base["data"]) if base else bytearray()
    flen0 = len(data)
    for j, op in enumerate(case["ops"]):
        k = op["k"]
        if k == "trunc":
            del data[op["n"]:]
        elif k == "set":
            o, n = op["o"], op["n"]
            if o + n > len(data):
                continue  # the place was cut off by an earlier fault of the sequence
            if base["kind"] == "text":
                cls, fix = (op["c"][:-4], True) if op["c"].endswith("+fix") else (op["c"], False)
                data[o:o + n] = _text_value(cls, n, bytes(data[o:o + n]))
                if fix:
                    data = _fix_record(data, o, base["truth"])
            else:
                orig = int.from_bytes(data[o:o + n], "big" if op["be"] else "little")
                data[o:o + n] = _bin_value(op["c"], n, op["be"], orig, flen0)
        elif k == "flip":
            if not data:
                continue
            rng = _rng("flip|%s|%d|%d|%s|%d" % (base["name"], j, op["n"], op["c"], op["i"]))
            w = op["c"]
            if w == "tables" and base["regions"]:
                r = rng.choice(base["regions"])
                lo, hi = r["o"], r["o"] + r["s"]
            else:
                lo, hi = 0, {"head64": 64, "head512": 512}.get(w, len(data))
            hi = min(hi, len(data))
            if hi <= lo:
                continue
            p = rng.randrange(lo, hi)
            for q in range(p, min(p + op["n"], len(data))):
                data[q] = rng.choice((0, 0xFF, 0x80, 0x7F, rng.randrange(256), data[q] ^ (1 << rng.randrange(8))))
        elif k == "rand":
            rng = _rng("rand|%s|%d|%d" % (op["c"], op["n"], op["i"]))
            data = bytearray(_rand(rng, op["c"], op["n"]))
        else:
            raise tlc.MachineryError("unknown fault op %r" % (op,))
    return bytes(data)


def describe(case, bases_by_id):
    b = bases_by_id.get(case["b"])
    nm = b["name"] if b else "(random)"
    parts = []
    for op in case["ops"]:
        if op["k"] == "trunc":
            parts.append("truncated to %d bytes" % op["n"])
        elif op["k"] == "set":
            parts.append("%s := %s" % (op["nm"], op["c"]))
        elif op["k"] == "flip":
            parts.append("flip#%d of %d byte(s) in %s" % (op["i"], op["n"], op["c"]))
        else:
            parts.append("random %s string #%d, length class %d" % (op["c"], op["i"], op["n"]))
    return nm + (": " + ", then ".join(parts) if parts else " (intact)")
