/* x86run - native execution of C06 test vectors on the host x86-64 processor.
 *
 * stdin : one vector per line
 *           id hexbytes brdelta rflags r0 r1 ... r15 memhex
 *         (brdelta: displacement of a relative branch, decimal, 0 if none; all other numbers hex; r0..r15 = rax rcx rdx rbx rsp rbp rsi rdi r8..r15; memhex = MEMN bytes)
 * stdout: one result per line
 *           id sig rflags r0 ... r15 memhex ripdelta
 *         sig = 0, or the number of the signal the instruction raised (registers / memory then as found by
 *         the handler are NOT reported: the line repeats the inputs); ripdelta = next rip - address of the
 *         instruction (instruction length, or length + displacement for a taken branch), -1 if unknown.
 *
 * Layout (fixed addresses below 2^31 so that the same numbers are valid pointer values in every run and
 * IA-32 readings of the vectors see the same low 32 bits):
 *   CODE  0x10000000  one RWX page; the instruction is placed so that it ENDS at CODE+0x800 (NEXT): a
 *                     RIP-relative operand with displacement 0x1800+k addresses DATA+k
 *   DATA  0x10002000  MEMN scratch bytes, loaded from the vector before and dumped after the instruction
 *   CTX   0x10004000  register / flag save areas addressed absolutely (no register is needed to find them)
 * The instructions are executed in a forked child (one child runs as many vectors as it survives and is
 * re-forked after a crash); in the child synchronous signals are caught on an alternate stack and reported.
 *
 * Branches: every byte of the code page that is not used is INT3.  A two-byte stub at NEXT records "fell
 * through", the branch target (anywhere in the page, before or after the instruction) gets a stub that records
 * "taken"; both continue with the common epilogue.
 */
#define _GNU_SOURCE
#include <errno.h>
#include <setjmp.h>
#include <signal.h>
#include <stdint.h>
#include <stdio.h>
#include <stdlib.h>
#include <string.h>
#include <sys/mman.h>
#include <sys/wait.h>
#include <unistd.h>

#define CODE 0x10000000UL
#define DATA 0x10002000UL
#define CTX 0x10004000UL
#define NEXT (CODE + 0x800)
#define MEMN 64
#define FLAGMASK 0xCD5UL /* CF PF AF ZF SF DF OF */

struct ctx {
  uint64_t in[16];      /* +0    */
  uint64_t inflags;     /* +128  */
  uint64_t out[16];     /* +136  */
  uint64_t outflags;    /* +264  */
  uint64_t hostrsp;     /* +272  */
  uint64_t where;       /* +280  1 = fell through, 2 = taken */
};
static struct ctx *const C = (struct ctx *)CTX;
static sigjmp_buf jb;
static volatile int cursig;

static void onsig(int s, siginfo_t *si, void *uc) {
  (void)si; (void)uc;
  cursig = s;
  siglongjmp(jb, 1);
}

static uint8_t *emit(uint8_t *p, const void *b, int n) { memcpy(p, b, n); return p + n; }
/* mov r, [abs32]  /  mov [abs32], r   (REX.W 8B/89 /r, mod=00 rm=100 SIB=25 disp32) */
static uint8_t *mov_abs(uint8_t *p, int store, int r, uint32_t a) {
  uint8_t b[8] = {(uint8_t)(0x48 | ((r >> 3) << 2)), (uint8_t)(store ? 0x89 : 0x8B), (uint8_t)(0x04 | ((r & 7) << 3)), 0x25};
  memcpy(b + 4, &a, 4);
  return emit(p, b, 8);
}
static uint32_t off(void *f) { return (uint32_t)(uintptr_t)f; }

/* build the thunk for an instruction of n bytes; brtarget: delta of a possible branch (0 = none) */
static int build(const uint8_t *ins, int n) {
  uint8_t *page = (uint8_t *)CODE, *p = page;
  memset(page, 0xCC, 4096);
  /* prologue at CODE: save callee-saved, remember rsp, load flags and registers */
  static const uint8_t save[] = {0x53, 0x55, 0x41, 0x54, 0x41, 0x55, 0x41, 0x56, 0x41, 0x57};
  p = emit(p, save, sizeof save);
  p = mov_abs(p, 1, 4, off(&C->hostrsp));
  { uint8_t b[7] = {0xFF, 0x34, 0x25}; uint32_t a = off(&C->inflags); memcpy(b + 3, &a, 4); p = emit(p, b, 7); } /* push [inflags] */
  *p++ = 0x9D; /* popfq */
  for (int r = 0; r < 16; r++) if (r != 4) p = mov_abs(p, 0, r, off(&C->in[r]));
  p = mov_abs(p, 0, 4, off(&C->in[4]));
  /* jmp to the instruction */
  uint8_t *ip = (uint8_t *)NEXT - n;
  { uint8_t b[5] = {0xE9}; int32_t d = (int32_t)(ip - (p + 5)); memcpy(b + 1, &d, 4); p = emit(p, b, 5); }
  if (p > ip - 16) return -1;
  memcpy(ip, ins, n);
  return 0;
}
/* stub at address q: mov qword [where], k ; jmp epi   (17 bytes) */
#define STUB 17
static void stub(uint8_t *q, int k, uint8_t *epi) {
  uint8_t b[12] = {0x48, 0xC7, 0x04, 0x25};
  uint32_t a = off(&C->where); memcpy(b + 4, &a, 4);
  int32_t kk = k; memcpy(b + 8, &kk, 4);
  memcpy(q, b, 12);
  q[12] = 0xE9; int32_t d = (int32_t)(epi - (q + 17)); memcpy(q + 13, &d, 4);
}
static uint8_t *epilogue(uint8_t *p) {
  for (int r = 0; r < 16; r++) p = mov_abs(p, 1, r, off(&C->out[r]));
  p = mov_abs(p, 0, 4, off(&C->hostrsp));
  *p++ = 0x9C; /* pushfq */
  { uint8_t b[7] = {0x8F, 0x04, 0x25}; uint32_t a = off(&C->outflags); memcpy(b + 3, &a, 4); p = emit(p, b, 7); } /* pop [outflags] */
  *p++ = 0xFC; /* cld */
  static const uint8_t rest[] = {0x41, 0x5F, 0x41, 0x5E, 0x41, 0x5D, 0x41, 0x5C, 0x5D, 0x5B, 0xC3};
  return emit(p, rest, sizeof rest);
}

static int hexval(int c) { return c >= '0' && c <= '9' ? c - '0' : c >= 'a' && c <= 'f' ? c - 'a' + 10 : c >= 'A' && c <= 'F' ? c - 'A' + 10 : -1; }
static int unhex(const char *s, uint8_t *out, int max) {
  int n = 0;
  while (s[0] && s[1] && n < max) { int a = hexval(s[0]), b = hexval(s[1]); if (a < 0 || b < 0) return -1; out[n++] = (uint8_t)(a * 16 + b); s += 2; }
  return n;
}

/* run one vector in this process; returns signal number or 0 */
static int run1(const uint8_t *ins, int n, long brdelta, long *ripdelta) {
  uint8_t *page = (uint8_t *)CODE;
  if (build(ins, n) < 0) return -2;
  uint8_t *epi = page + 0xC00;
  epilogue(epi);
  uint8_t *nx = (uint8_t *)NEXT;
  stub(nx, 1, epi);
  if (brdelta) {
    uint8_t *t = nx + brdelta;
    if (t < page + 0x200 || t + STUB > epi) return -2;
    if (t < nx + STUB && t + STUB > nx - n) return -2; /* overlaps the instruction or the fall-through stub */
    stub(t, 2, epi);
  }
  C->where = 0;
  cursig = 0;
  if (sigsetjmp(jb, 1) == 0) {
    ((void (*)(void))page)();
  } else {
    __asm__ volatile("cld");
    return cursig;
  }
  *ripdelta = C->where == 1 ? n : C->where == 2 ? n + brdelta : -1;
  return 0;
}

int main(int argc, char **argv) {
  (void)argc; (void)argv;
  if (mmap((void *)CODE, 4096, PROT_READ | PROT_WRITE | PROT_EXEC, MAP_PRIVATE | MAP_ANONYMOUS | MAP_FIXED_NOREPLACE, -1, 0) != (void *)CODE ||
      mmap((void *)DATA, 4096, PROT_READ | PROT_WRITE, MAP_PRIVATE | MAP_ANONYMOUS | MAP_FIXED_NOREPLACE, -1, 0) != (void *)DATA ||
      mmap((void *)CTX, 4096, PROT_READ | PROT_WRITE, MAP_PRIVATE | MAP_ANONYMOUS | MAP_FIXED_NOREPLACE, -1, 0) != (void *)CTX) {
    fprintf(stderr, "x86run: cannot map the fixed pages: %s\n", strerror(errno));
    return 3;
  }
  static uint8_t altstack[1 << 16];
  stack_t ss = {.ss_sp = altstack, .ss_size = sizeof altstack, .ss_flags = 0};
  sigaltstack(&ss, 0);
  struct sigaction sa;
  memset(&sa, 0, sizeof sa);
  sa.sa_sigaction = onsig;
  sa.sa_flags = SA_SIGINFO | SA_ONSTACK | SA_NODEFER;
  int sigs[] = {SIGSEGV, SIGBUS, SIGFPE, SIGILL, SIGTRAP};
  for (unsigned i = 0; i < sizeof sigs / sizeof *sigs; i++) sigaction(sigs[i], &sa, 0);

  /* read all vectors, then execute them in forked children: one child runs as many vectors as it survives */
  static char line[8192];
  char **lines = 0;
  size_t nl = 0, cap = 0;
  while (fgets(line, sizeof line, stdin)) {
    if (line[0] == '#' || line[0] == '\n') continue;
    if (nl == cap) { cap = cap ? 2 * cap : 1024; lines = realloc(lines, cap * sizeof *lines); if (!lines) return 3; }
    lines[nl++] = strdup(line);
  }
  size_t next = 0;
  while (next < nl) {
    int pfd[2];
    if (pipe(pfd)) return 3;
    fflush(stdout);
    pid_t pid = fork();
    if (pid == 0) {
      close(pfd[0]);
      FILE *out = fdopen(pfd[1], "w");
      for (size_t j = next; j < nl; j++) {
        char *save = 0, *tok;
        char *id = strtok_r(lines[j], " \n", &save);
        uint8_t ins[16], mem[MEMN];
        tok = strtok_r(0, " \n", &save);
        int n = tok ? unhex(tok, ins, 15) : -1;
        tok = strtok_r(0, " \n", &save);
        long brdelta = tok ? strtol(tok, 0, 10) : 0; /* displacement of a relative branch, decimal, 0 if none */
        tok = strtok_r(0, " \n", &save);
        uint64_t fl = tok ? strtoull(tok, 0, 16) : 0;
        uint64_t r[16];
        int ok = n > 0;
        for (int k = 0; k < 16 && ok; k++) { tok = strtok_r(0, " \n", &save); if (!tok) ok = 0; else r[k] = strtoull(tok, 0, 16); }
        tok = strtok_r(0, " \n", &save);
        if (!tok || unhex(tok, mem, MEMN) != MEMN) ok = 0;
        if (!ok) { fprintf(out, "%s -1\n", id ? id : "?"); fflush(out); continue; }
        memcpy((void *)DATA, mem, MEMN);
        memcpy(C->in, r, sizeof r);
        C->inflags = 0x202 | (fl & FLAGMASK);
        long rd = -1;
        int sig = run1(ins, n, brdelta, &rd);
        if (sig != 0) {
          fprintf(out, "%s %d\n", id, sig);
        } else {
          fprintf(out, "%s 0 %llx", id, (unsigned long long)(C->outflags & FLAGMASK));
          for (int k = 0; k < 16; k++) fprintf(out, " %llx", (unsigned long long)C->out[k]);
          fprintf(out, " ");
          for (int k = 0; k < MEMN; k++) fprintf(out, "%02x", ((uint8_t *)DATA)[k]);
          fprintf(out, " %ld\n", rd);
        }
        fflush(out); /* a later crash must not lose this line */
      }
      fclose(out);
      _exit(0);
    }
    close(pfd[1]);
    FILE *in = fdopen(pfd[0], "r");
    size_t done = 0;
    while (fgets(line, sizeof line, in)) { fputs(line, stdout); done++; }
    fclose(in);
    int st = 0;
    waitpid(pid, &st, 0);
    next += done;
    if (next < nl && !(WIFEXITED(st) && WEXITSTATUS(st) == 0)) {
      /* the child died on vector `next' (a signal the handlers could not recover from) */
      char *save = 0, *id = strtok_r(lines[next], " \n", &save);
      printf("%s %d\n", id ? id : "?", WIFSIGNALED(st) ? 1000 + WTERMSIG(st) : 999);
      next++;
    } else if (done == 0 && next < nl) {
      return 3;
    }
  }
  return 0;
}
