"""Reproduce a C10 finding by hand (one process, nothing else happens in it):

  PYTHONPATH=/repo:/verif /venv/bin/python -m harness.c10repro ISA WRITERHEX WITNESSHEX

analyses the witness instruction, evaluates its map with amoco on three fixed valuations, analyses the writer
instruction, evaluates the OLD map again (Stable) and a NEWLY built map of the witness (HistoryFree: compare
with the first evaluation, which is what a fresh process gives)."""
import sys

from . import c10, c10child


def main(argv):
    name, whex, vhex = argv[0], argv[1], argv[2]
    isa = c10child.setup(name)
    pool = {"isa": name, "blocks": [{"id": 1, "role": "sensitive", "code": [list(bytes.fromhex(vhex))], "mnem": ["?"]},
                                    {"id": 2, "role": "writer", "code": [list(bytes.fromhex(whex))], "mnem": ["?"]}],
            "regs": []}
    # bind every register the two instructions mention
    from amoco.cas.expressions import symbols_of
    names = set()
    for b in pool["blocks"]:
        i = isa.decode(bytes(b["code"][0]))
        b["mnem"] = [str(i.mnemonic)]
        print("block %d: %s" % (b["id"], i))
    isa.reset_sf()
    pool["regs"] = sorted(str(o.ref) for o in isa.arch_objects() if o._is_reg and not o._is_slc)[:64]
    vals = c10.valuations(isa, pool)
    r = c10.Runner(isa, pool, vals)
    r.step({"act": "Analyse", "b": 1})
    first = r.observe(r.stored[0][1])
    print("flags set on shared registers:", isa.sf_set())
    print("witness map, evaluated first      :", first)
    r.step({"act": "Analyse", "b": 2})
    print("flags set on shared registers:", isa.sf_set())
    again = r.observe(r.stored[0][1])
    print("same map after analysing the writer:", again, "" if again == first else "   <-- Stable violated")
    r.step({"act": "Analyse", "b": 1})
    new = r.observe(r.stored[2][1])
    print("witness analysed again            :", new, "" if new == first else "   <-- HistoryFree violated")
    return 0 if (again == first and new == first) else 1


if __name__ == "__main__":
    sys.exit(main(sys.argv[1:]))
