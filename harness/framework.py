"""Shared skeleton of a property check: tiers, seeds, verdict bookkeeping, evidence, known findings.

A check module (checks/Cxx.py) defines   run(ctx)   and uses:
    ctx.tier, ctx.seed, ctx.rng          the tier ('quick'|'thorough') and the seeded RNG
    ctx.add_tlc(res, kind)               account a TLC run (states/transitions/coverage)
    ctx.case(nontrivial_key=None)        count one explored case (key: hashable id if non-trivial)
    ctx.sample(obj)                      keep an example case for the evidence file (bounded)
    ctx.fail(key, what, replay)          a property violation; matched against known findings
    ctx.drift(what)                      stricter-than-property observation (never exit 1)
    ctx.note(k, v)                       extra evidence key
Exit codes: 0 held (or only listed findings), 1 violation (prints VIOLATION line), 2 machinery failure.
"""
import json
import os
import random
import sys
import time
import traceback

from . import tlc

VERIF = tlc.VERIF
EVID = os.path.join(VERIF, "evidence")
REPLAYS = os.path.join(VERIF, ".work", "replays")
FINDINGS = os.path.join(VERIF, "known_findings.json")


def load_findings():
    if not os.path.exists(FINDINGS):
        return []
    with open(FINDINGS) as f:
        return json.load(f).get("findings", [])


class Ctx(object):
    def __init__(self, pid, tier, seed, replay=None):
        self.pid = pid
        self.tier = tier
        self.seed = seed
        self.replay = replay
        self.rng = random.Random(seed)
        self.t0 = time.time()
        self.states = 0
        self.transitions = 0
        self.tlc_runs = []
        self.coverage = {}
        self.evaluations = 0
        self.nontrivial = set()
        self.samples = []
        self.traces = 0
        self.violations = []
        self.known_seen = {}
        self.drifts = {}
        self.extra = {}
        self.assumptions = []
        self.exhaustive = None
        self.rule = ""
        self.known = [k for k in load_findings() if k.get("property") == pid and k.get("status") == "known"]
        # replay files of earlier runs of this property are stale
        if os.path.isdir(REPLAYS) and not replay:
            for f in os.listdir(REPLAYS):
                if f.startswith(pid + "_"):
                    try:
                        os.unlink(os.path.join(REPLAYS, f))
                    except OSError:
                        pass

    # --- accounting -----------------------------------------------------------------------
    def add_tlc(self, res, kind):
        self.states += res.distinct if res.distinct else res.states
        self.transitions += res.transitions
        self.tlc_runs.append({"kind": kind, "generated": res.states, "distinct": res.distinct,
                              "depth": res.depth, "wall_s": round(res.wall, 2)})
        for a, (d, t) in res.coverage.items():
            o = self.coverage.get(a, [0, 0])
            self.coverage[a] = [o[0] + d, o[1] + t]

    def case(self, key=None, n=1):
        self.evaluations += n
        if key is not None:
            self.nontrivial.add(key)

    def trace(self, n=1):
        self.traces += n

    def sample(self, obj, cap=6):
        if len(self.samples) < cap:
            self.samples.append(obj)

    def note(self, k, v):
        self.extra[k] = v

    def count(self, k, n=1):
        self.extra[k] = self.extra.get(k, 0) + n

    def assume(self, text):
        if text not in self.assumptions:
            self.assumptions.append(text)

    def drift(self, what):
        self.drifts[what] = self.drifts.get(what, 0) + 1

    # --- verdicts -------------------------------------------------------------------------
    def fail(self, key, what, replay_obj=None):
        """key: the finding key (string) this failure would carry in known_findings.json."""
        for k in self.known:
            if k.get("key") == key:
                self.known_seen.setdefault(key, k.get("what", what))
                self.extra.setdefault("known_finding_hits", {})
                self.extra["known_finding_hits"][key] = self.extra["known_finding_hits"].get(key, 0) + 1
                return False
        path = ""
        if len(self.violations) < 20:
            os.makedirs(REPLAYS, exist_ok=True)
            path = os.path.join(REPLAYS, "%s_%d_%d.json" % (self.pid, self.seed, len(self.violations)))
            with open(path, "w") as f:
                json.dump({"property": self.pid, "seed": self.seed, "tier": self.tier, "key": key,
                           "what": what, "case": replay_obj}, f, indent=1, default=str)
        self.violations.append((key, what, path))
        return True

    # --- output ---------------------------------------------------------------------------
    def write_evidence(self, level="model_checking"):
        os.makedirs(EVID, exist_ok=True)
        cov = {
            "states": self.states,
            "transitions": self.transitions,
            "traces_validated_against_impl": self.traces,
            "samples": self.samples if self.samples else ["(no sample recorded)"],
            "evaluations": self.evaluations,
            "distinct_nontrivial": len(self.nontrivial),
            "rule": self.rule,
            "tlc_runs": self.tlc_runs,
            "action_coverage": self.coverage,
            "drift": self.drifts,
            "known_findings_observed": sorted(self.known_seen),
        }
        if self.exhaustive is not None:
            cov["exhaustive"] = bool(self.exhaustive)
        cov.update(self.extra)
        ev = {
            "property_id": self.pid,
            "tier": self.tier,
            "seed": self.seed,
            "level": level,
            "coverage": cov,
            "assumptions": self.assumptions,
            "wall_s": round(time.time() - self.t0, 2),
            "violations": len(self.violations),
        }
        tmp = os.path.join(EVID, self.pid + ".json.tmp")
        with open(tmp, "w") as f:
            json.dump(ev, f, indent=1, default=str)
        os.replace(tmp, os.path.join(EVID, self.pid + ".json"))

    def finish(self):
        self.write_evidence()
        for key in sorted(self.known_seen):
            print("KNOWN-FINDING: property=%s %s [%s]" % (self.pid, self.known_seen[key], key))
        for d, n in sorted(self.drifts.items()):
            print("DRIFT: property=%s %s (x%d)" % (self.pid, d, n))
        if self.violations:
            shown = set()
            for key, what, path in self.violations:
                if key in shown or len(shown) >= 12:
                    continue
                shown.add(key)
                n = sum(1 for k, _, _ in self.violations if k == key)
                print("  violation (x%d): %s :: %s" % (n, key, what[:600]))
            print("VIOLATION property=%s replay=%s" % (self.pid, self.violations[0][2]))
            return 1
        print("OK property=%s tier=%s seed=%d evaluations=%d nontrivial=%d states=%d traces=%d wall=%.1fs" % (
            self.pid, self.tier, self.seed, self.evaluations, len(self.nontrivial), self.states,
            self.traces, time.time() - self.t0))
        return 0


def main(pid, runfn, argv=None):
    import argparse
    ap = argparse.ArgumentParser()
    ap.add_argument("--tier", default=os.environ.get("VERIF_TIER", "quick"), choices=["quick", "thorough"])
    ap.add_argument("--seed", type=int, default=int(os.environ.get("VERIF_SEED", "0") or 0))
    ap.add_argument("--replay", default=None)
    a = ap.parse_args(argv)
    ctx = Ctx(pid, a.tier, a.seed, a.replay)
    try:
        runfn(ctx)
    except tlc.MachineryError as ex:
        print("MACHINERY-FAILURE property=%s %s" % (pid, ex))
        return 2
    except Exception:
        traceback.print_exc()
        print("MACHINERY-FAILURE property=%s (exception in harness)" % pid)
        return 2
    return ctx.finish()
