"""C16 replayer: TLC-generated structure definitions (specs/CStruct.tla) built and exercised in amoco.

A case (one JSON object printed by TLC) carries the definition TEXT in amoco's definition language,
the byte image, and everything that must be observed: size / alignment / offsets, the values each
field must unpack to, the bytes pack() must give back.  It also carries, for every NAMED DEVIATION
of the specification (the known findings), what amoco would produce if it had exactly that defect.

This module only
  * calls the API (StructFactory / UnionFactory / TypeDefine, size, align_value, offsets, unpack, pack),
  * projects what amoco returns to plain data by reading attributes,
  * decodes TLC's wire format (sign + base-256 digits, bit lists, (s, m, e) floats) to plain data,
  * compares plain data for equality and, on a mismatch, looks for the deviation whose prediction
    (computed by TLC) equals what was observed.
"""
import math
import os

from amoco.system import structs as S

try:
    import amoco.logger as _lg
    _lg.set_quiet()
except Exception:  # pragma: no cover
    pass
import logging
logging.disable(logging.CRITICAL)

_uid = [0]
BIGINT = -1073741823  # CStruct!BigInt

# How a RAISING named deviation is recognised: exception class name, and the class of `self` in the innermost
# frame of amoco/system/structs the exception went through ("StructCore" for any definition class,
# "StructCore/typedef" for a typedef class).
PACK_EXC = {
    "BitfieldPack": [("AttributeError", "StructCore")],
    "NestPack": [("TypeError", "StructCore")],
    "NestArrayPack": [("TypeError", "StructCore")],
    "TypedefPack": [("AttributeError", "int"), ("TypeError", "StructCore/typedef")],
    "RawArrayPack": [("error", "RawField")],
    "VarBytesPack": [("error", "VarField")],
    "CntEmptyPack": [("error", "CntField"), ("TypeError", "CntField")],
    "CntSeqPack": [("error", "CntField")],
    "BoundPack": [("error", "BindedField"), ("TypeError", "BindedField")],
}


def where(e):
    """class of `self` in the innermost amoco/system/structs frame of the traceback of e"""
    tb = e.__traceback__
    found = "?"
    while tb is not None:
        fr = tb.tb_frame
        if "system/structs" in fr.f_code.co_filename.replace("\\", "/"):
            me = fr.f_locals.get("self", None)
            if me is None:
                found = "?"
            elif isinstance(me, S.StructCore):
                found = "StructCore/typedef" if type(me).typedef else "StructCore"
            else:
                found = type(me).__name__
        tb = tb.tb_next
    return found


# ---------------------------------------------------------------------------------------------
# TLC wire format -> plain python data
def _int(v):
    m = int.from_bytes(bytes(v["mag"]), "little")
    return -m if v["neg"] else m


def _flt(v):
    if v["m"] < 0:
        return ("unrepresentable",)
    x = math.ldexp(v["m"], v["e"])
    return -x if v["s"] else x


def _bits(b):
    x = 0
    for i, t in enumerate(b):
        x |= t << i
    return x


def _scalar(t, v):
    if t in "sc":
        return list(v)
    if t in "fd":
        return _flt(v)
    return _int(v)


def expected(d, vals):
    """values of definition d as TLC wrote them -> plain data (lists / ints / floats)"""
    out = []
    for f, v in zip(d["fs"], vals):
        k, t = f["k"], f["t"]
        if k == "raw":
            if f["n"] == 0:
                out.append(_scalar(t, v))
            elif t in "sc":
                out.append(list(v))
            else:
                out.append([_scalar(t, x) for x in v])
        elif k == "nest":
            out.append(expected(f["d"], v) if f["n"] == 0 else [expected(f["d"], x) for x in v])
        elif k == "bits":
            out.append([_bits(b) for b in v])
        elif k in ("var", "cnt", "bound"):
            out.append(list(v) if t in "sc" else [_int(x) for x in v])
        elif k == "leb":
            out.append(("unrepresentable-int",) if v == BIGINT else v)
    return out


# ---------------------------------------------------------------------------------------------
# amoco objects -> plain python data (attribute reads only)
def _plain(x):
    if isinstance(x, (bytes, bytearray)):
        return list(x)
    if isinstance(x, (list, tuple)):
        return [_plain(y) for y in x]
    if isinstance(x, bool):
        return ("bool", x)
    if isinstance(x, (int, float)):
        return x
    if x is None:
        return None
    return ("object", type(x).__name__)


def observed(d, obj):
    out = []
    for i, f in enumerate(d["fs"], 1):
        k = f["k"]
        name = "f%d" % i
        if k == "bits":
            out.append([_plain(obj[name + "_%d" % j]) for j in range(1, len(f["bits"]) + 1)])
            continue
        v = obj[name]
        if k == "nest":
            if f["n"] == 0:
                out.append(observed(f["d"], v) if isinstance(v, S.StructCore) else _plain(v))
            else:
                out.append([observed(f["d"], x) if isinstance(x, S.StructCore) else _plain(x) for x in v]
                           if isinstance(v, (list, tuple)) else _plain(v))
        elif k in ("cnt", "bound") and v is None:
            out.append([])  # amoco's representation of an empty counted / bound sequence
        else:
            out.append(_plain(v))
    return out


def same(obs, pred):
    """equality, except that a float TLC could not represent (NaN, denormal, 53-bit mantissa: only ever
    part of a DEVIATION's prediction, where other bytes are read) stands for any float"""
    if pred == ("unrepresentable",):
        return isinstance(obs, float)
    if pred == ("unrepresentable-int",):  # a LEB128 of more than 4 bytes, read by a deviation
        return isinstance(obs, int) and not isinstance(obs, bool)
    if isinstance(pred, list):
        return isinstance(obs, list) and len(obs) == len(pred) and all(same(o, p) for o, p in zip(obs, pred))
    return obs == pred and type(obs) == type(pred)


def match(d, obs, pred, alt):
    """obs against a prediction `pred` of TLC for definition d. `alt` (or None) is the same prediction with the
    two sign deviations on (SLongU: `l` read unsigned; SLebU: signed LEB128 read unsigned); a member whose
    type is concerned may agree with either reading.  -> None (no match) or the set of sign deviations needed."""
    if not isinstance(obs, list) or len(obs) != len(pred):
        return None
    need = set()
    for i, f in enumerate(d["fs"]):
        o, p, a = obs[i], pred[i], (alt[i] if alt is not None else None)
        if f["k"] == "nest":
            if f["n"] == 0:
                r = match(f["d"], o, p, a)
            else:
                if not isinstance(o, list) or len(o) != len(p):
                    return None
                r = set()
                for j in range(len(p)):
                    rj = match(f["d"], o[j], p[j], a[j] if a is not None else None)
                    if rj is None:
                        return None
                    r |= rj
            if r is None:
                return None
            need |= r
        elif same(o, p):
            continue
        elif a is not None and same(o, a) and f["k"] == "raw" and f["t"] == "l":
            need.add("SLongU")
        elif a is not None and same(o, a) and f["k"] == "leb":
            need.add("SLebU")
        else:
            return None
    return need


def obs_offsets(offs):
    out = []
    for o, s in offs:
        if isinstance(o, float):  # sub-field of a bitfield unit: "byte.bit" - keep the byte offset of the unit
            out.append([int(o), -1])
        else:
            out.append([o, s])
    return out


# ---------------------------------------------------------------------------------------------
def build(case):
    _uid[0] += 1
    prefix = "c16p%dn%d_" % (os.getpid(), _uid[0])
    for t in case["typedefs"]:
        S.TypeDefine(prefix + "TD_" + t, t)
    cls = None
    for d in case["decls"]:
        name = d["name"].replace("@", prefix)
        text = d["text"].replace("@", prefix)
        kargs = {}
        if d["ord"]:
            kargs["order"] = d["ord"]
        if d["kind"] == "union":
            cls = S.UnionFactory(name, text, **kargs)
        else:
            cls = S.StructFactory(name, text, packed=d["packed"], **kargs)
    return cls


def _exc(e):
    return "%s: %s" % (type(e).__name__, str(e)[:120])


def _devkey(clause, devs):
    return ["C16:Dev_%s" % x for x in devs]


def replay_case(case):
    """-> list of failures [(key, what)], set of tags naming the clauses that held"""
    fails = []
    ps = case["ps"]
    d = case["def"]
    try:
        cls = build(case)
    except Exception as e:
        return [("C16:define:raises:" + type(e).__name__, "definition rejected: %s" % _exc(e))], {"define-raises"}
    tags = set()
    # --- layout -----------------------------------------------------------------------------
    if case["fixed"]:
        lay = case["lay"]
        try:
            obs = {"size": cls.size(ps), "align": cls.align_value(ps), "offs": obs_offsets(cls().offsets(ps))}
        except Exception as e:
            fails.append(("C16:layout:raises:" + type(e).__name__, "size/offsets raised %s" % _exc(e)))
            obs = None
        if obs is not None:
            exp = {"size": lay["size"], "align": lay["align"], "offs": [list(x) for x in lay["offs"]]}
            if obs != exp:
                hit = None
                for dv in case["layDev"]:
                    e2 = {"size": dv["lay"]["size"], "align": dv["lay"]["align"], "offs": [list(x) for x in dv["lay"]["offs"]]}
                    if obs == e2:
                        hit = dv["devs"]
                        break
                what = "ps=%d: size/align/offsets %s, C layout %s" % (ps, obs, exp)
                if hit:
                    for k in _devkey("layout", hit):
                        fails.append((k, what))
                else:
                    bad = [k for k in ("size", "align", "offs") if obs[k] != exp[k]]
                    fails.append(("C16:layout:" + bad[0], what))
            else:
                tags.add("layout-ok")
    # --- unpack -----------------------------------------------------------------------------
    exp = expected(d, case["vals"])
    data = bytes(case["data"])
    obj = None
    values_ok = False
    try:
        obj = cls().unpack(data, 0, ps)
        obs = observed(d, obj)
    except Exception as e:
        obs = None
        hit = None
        if not case["unpTrig"]:
            for dv in sorted(case["valsDev"], key=lambda dv: len(dv["devs"])):
                if dv.get("oob") or dv.get("trig"):
                    hit = dv["devs"]
                    break
        what = "ps=%d: unpack raised %s" % (ps, _exc(e))
        if case["unpTrig"]:
            fails.append(("C16:Dev_" + case["unpTrig"][0], what))
        elif hit:
            for k in _devkey("unpack", hit):
                fails.append((k, what + " (the deviation reads beyond the buffer or meets a raising one)"))
        else:
            fails.append(("C16:unpack:raises:" + type(e).__name__, what))
    if obs is not None:
        alt = expected(d, case["valsU"]) if case["signDevs"] else None
        m = match(d, obs, exp, alt)
        if m is not None and not m:
            values_ok = True
            tags.add("unpack-ok")
        else:
            hit = sorted(m) if m else None
            for dv in ([] if hit else case["valsDev"]):
                if dv.get("oob"):
                    continue
                m = match(d, obs, expected(d, dv["vals"]), expected(d, dv["valsU"]) if case["signDevs"] else None)
                if m is not None:
                    hit = dv["devs"] + sorted(m)
                    break
            what = "ps=%d: unpacked %s, expected %s" % (ps, str(obs)[:300], str(exp)[:300])
            if hit:
                for k in _devkey("unpack", hit):
                    fails.append((k, what))
            elif "VarEmptyNoSize" in case["unpTrig"]:
                fails.append(("C16:Dev_VarEmptyNoSize", what))
            else:
                fails.append(("C16:unpack:values", what))
    # --- pack (only meaningful on correctly unpacked values) ----------------------------------
    if values_ok:
        want = list(case["data"][:case["nbytes"]])
        try:
            got = obj.pack(None, ps)
            got = list(got) if isinstance(got, (bytes, bytearray)) else ("not-bytes", type(got).__name__)
        except Exception as e:
            got = None
            en, at = type(e).__name__, where(e)
            hit = None
            for t in case["packTrig"]:  # in amoco's order of evaluation: the first one that fits
                if (en, at) in PACK_EXC.get(t, ()):
                    hit = t
                    break
            what = "ps=%d: pack raised %s in %s.pack" % (ps, _exc(e), at)
            if hit:
                fails.append(("C16:Dev_" + hit, what))
            else:
                fails.append(("C16:pack:raises:" + en, what))
        if got is not None:
            if got == want:
                tags.add("pack-ok")
            else:
                hit = None
                for dv in case["bytesDev"]:
                    if got == list(dv["bytes"]):
                        hit = dv["devs"]
                        break
                what = "ps=%d: pack gave %s, original bytes %s" % (ps, str(got)[:300], str(want)[:300])
                if hit:
                    for k in _devkey("pack", hit):
                        fails.append((k, what))
                else:
                    fails.append(("C16:pack:bytes", what))
    return fails, tags


# ---------------------------------------------------------------------------------------------
def shape(case):
    """a coarse identity of the case for the non-trivial count: kinds / types / nesting, not the values"""
    def sh(d):
        return (d["kind"], d["packed"], tuple((f["k"], f["t"], f["n"], f["o"], sh(f["d"]) if f["k"] == "nest" else 0)
                                              for f in d["fs"]))
    return (case["ps"], sh(case["def"]))


def nontrivial(case):
    d = case["def"]
    if any(f["k"] != "raw" or f["n"] > 0 for f in d["fs"]):
        return True
    if case["fixed"]:
        # padding somewhere
        return case["lay"]["size"] != sum(s for o, s in case["lay"]["offs"] if s > 0) or d["kind"] == "union"
    return True


def replay_chunk(job):
    from . import tlc
    spool, lo, hi = job
    out = {"n": 0, "fails": [], "tags": {}, "shapes": set(), "kinds": {}, "sample": None, "clean": 0}
    seen = {}
    for case in tlc.iter_spool_range(spool, lo, hi):
        out["n"] += 1
        fails, tags = replay_case(case)
        for t in tags:
            out["tags"][t] = out["tags"].get(t, 0) + 1
        if not fails:
            out["clean"] += 1
        for f in case["def"]["fs"]:
            out["kinds"][f["k"]] = out["kinds"].get(f["k"], 0) + 1
        if nontrivial(case):
            out["shapes"].add(shape(case))
        for key, what in fails:
            # the complete case (what `./check C16 --replay` needs) for the first occurrences of a key only
            seen[key] = seen.get(key, 0) + 1
            out["fails"].append((key, what, case if seen[key] <= 2 else None))
        if out["sample"] is None and len(case["decls"]) > 1 and not fails:
            out["sample"] = {"ps": case["ps"], "decls": case["decls"], "lay": case["lay"],
                             "data": case["data"][:case["nbytes"]]}
    return out
