"""C06, RISC-V part: replayer of TLC-generated behaviours (G), driver of random words (T) and the
validation of recorded steps by specs/RVTrace.tla.

Python only (a) builds a concrete mapper from plain data and calls amoco (decode, instruction(mapper)),
(b) reads the state back through the mapper API / attributes, (c) compares plain values for equality.
Every expected value comes from TLC: with the behaviour (G) or from RVTrace's verdict (T and the
attribution of G mismatches to named deviations)."""
import importlib
import json
import multiprocessing as mp
import multiprocessing.pool
import os
import random
import struct

from . import tlc
from .ser import limbs, unlimbs

CPUMOD = {32: "amoco.arch.riscv.cpu_rv32i", 64: "amoco.arch.riscv.cpu_rv64i"}
_cpus = {}

DEV_WHAT = {
    "SignedCmpAsUnsigned": "signed comparison evaluated as an unsigned one on a concrete state (the register "
                           "objects' sf flag is clear): e.g. x1 = -1, x2 = 1: SLT gives 0, BLT is not taken, BGE is taken",
    "SltiMixedSignedness": "SLTI compares rs1 read as an unsigned number with the immediate read as a signed one "
                           "(x1 = -1: `slti x3, x1, 0` gives 0; any negative immediate gives 0)",
    "JalrLinkBeforeBase": "JALR with rd = rs1 computes the target from the link value just written to rd instead of "
                          "the old rs1 (`jalr x5, 8(x5)` at 0x1000 jumps to 0x100c)",
    "JalrKeepsBit0": "JALR does not clear bit 0 of the target address",
    "ShiftAmount5Bits": "RV64 SLL/SRL/SRA use only the low 5 bits of rs2 as shift amount (the manual: low 6 bits)",
    "ShiftImmWAs64": "RV64 SLLIW/SRLIW/SRAIW (opcode 0011011) are decoded as SLLI/SRLI/SRAI and operate on all 64 "
                     "bits without sign-extending the 32-bit result",
    "AuipcFromNextPc": "AUIPC adds the immediate to the address of the NEXT instruction (pc + 4 + imm): the pc update of "
                       "the __npc wrapper runs before the semantics reads pc",
    "UImmZeroExtended": "RV64 LUI/AUIPC zero-extend the 32-bit U-immediate to 64 bits (the manual: sign-extend), "
                        "e.g. `lui x1, 0x80000` gives 0x0000000080000000",
    "Unimplemented": "the instruction decodes but has no semantics function: applying it changes nothing, not even pc",
}


def quiet():
    from amoco.logger import Log
    h = Log.__init__.__defaults__[0]
    h.setLevel(1000)


def cpu_of(xlen):
    if xlen not in _cpus:
        quiet()
        _cpus[xlen] = importlib.import_module(CPUMOD[xlen])
    return _cpus[xlen]


def reset_flags(cpu):
    """the architectural register objects are module globals; some semantics write their sf flag.
    Every case starts from the import-time state (DESIGN.md section 6, rule 5)."""
    for r in cpu.x[1:]:
        r.sf = False
    cpu.pc.sf = False


def build(cpu, xlen, x, pc, mb, membytes, raw):
    """a fully concrete mapper: x1..x31, pc constants; the window holds membytes at address mb"""
    from amoco.cas.mapper import mapper
    from amoco.cas.expressions import cst, mem
    m = mapper()
    for i in range(1, 32):
        m[cpu.x[i]] = cst(unlimbs(x[i]), xlen)
    m[cpu.pc] = cst(unlimbs(pc), xlen)
    base = unlimbs(mb)
    if membytes:
        if raw:
            m.mmap.write(cst(base, xlen), bytes(membytes))
        else:
            n = len(membytes)
            m[mem(cst(base, xlen), 8 * n)] = cst(int.from_bytes(bytes(membytes), "little"), 8 * n)
    return m


def _val(v, xlen):
    try:
        if v._is_cst and v.size == xlen:
            return limbs(v.v, xlen)
    except Exception:
        pass
    return []


def observe(m, cpu, xlen):
    """(registers, pc, memory) read back from the mapper: constants as limbs, anything else as [] / -1"""
    from amoco.cas.expressions import cst, mem
    xs = []
    for i in range(32):
        try:
            xs.append(_val(m(cpu.x[i]), xlen))
        except Exception:
            xs.append([])
    try:
        pcv = _val(m(cpu.pc), xlen)
    except Exception:
        pcv = []
    dump = []
    symzones = 0
    for key, z in m.mmap._zones.items():
        if key is not None:
            symzones += len(z._map)
            continue
        for o in z._map:
            for a in range(o.vaddr, o.end):
                try:
                    b = m(mem(cst(a, xlen), 8))
                    bv = b.v if (b._is_cst and b.size == 8) else -1
                except Exception:
                    bv = -1
                dump.append([limbs(a, xlen) if 0 <= a < (1 << xlen) else limbs(a, xlen) + [1], bv])
    return {"x": xs, "pc": pcv, "mem": dump}, symzones


def apply_word(m, cpu, xlen, word):
    """decode + apply; returns (decoded?, mnemonic, raised)"""
    bs = struct.pack("<I", word)
    try:
        i = cpu.disassemble(bs, address=0)
    except Exception as ex:
        return 0, "", "decode:%s: %s" % (type(ex).__name__, str(ex)[:80])
    if i is None:
        return 0, "", ""
    mn = str(i.mnemonic)
    try:
        i(m)
    except Exception as ex:
        return 1, mn, "%s: %s" % (type(ex).__name__, str(ex)[:80])
    return 1, mn, ""


# --------------------------------------------------------------------------------------------
# G: replay one TLC behaviour
def replay(beh, rng):
    xlen = beh["xlen"]
    cpu = cpu_of(xlen)
    reset_flags(cpu)
    raw = rng.random() < 0.5
    m = build(cpu, xlen, beh["x"], beh["pc"], beh["mb"], beh["mem"], raw)
    pre, _ = observe(m, cpu, xlen)
    word = unlimbs(beh["w"])
    dec, mn, raised = apply_word(m, cpu, xlen, word)
    post, symz = observe(m, cpu, xlen)
    step = {"w": beh["w"], "dec": dec, "raised": raised, "pre": pre, "post": post, "mn": mn, "symz": symz,
            "op": beh["op"]}
    ex = beh["ex"]
    base = unlimbs(beh["mb"])
    n = len(beh["mem"])
    same = (dec == 1 and raised == "" and symz == 0 and post["x"] == ex["x"] and post["pc"] == ex["pc"]
            and len(post["mem"]) == n
            and [p[1] for p in post["mem"]] == ex["mem"]
            and [p[0] for p in post["mem"]] == [limbs(base + k, xlen) for k in range(n)])
    return same, step


def replay_chunk(args):
    path, lo, hi, seed = args
    rng = random.Random(seed * 7919 + lo)
    n = 0
    bad = []
    ops = {}
    cls = set()
    sample = None
    rt_bad = 0
    for beh in tlc.iter_spool_range(path, lo, hi):
        n += 1
        if not beh.get("rt", True):
            rt_bad += 1
        same, step = replay(beh, rng)
        ops[beh["op"]] = ops.get(beh["op"], 0) + 1
        cls.add((beh["xlen"], beh["op"], beh["rd"] == beh["rs1"], beh["rd"] == 0, beh["rs1"] == beh["rs2"]) + tuple(beh["cls"][1:4]))
        if sample is None and same:
            sample = {"xlen": beh["xlen"], "op": beh["op"], "word": "%08x" % unlimbs(beh["w"]), "classes": beh["cls"],
                      "rd": beh["rd"], "rs1": beh["rs1"], "rs2": beh["rs2"], "pc": "%x" % unlimbs(beh["pc"]),
                      "expected_pc": "%x" % unlimbs(beh["ex"]["pc"]),
                      "expected_rd": "%x" % unlimbs(beh["ex"]["x"][beh["rd"]]), "amoco_agrees": True}
        if not same:
            bad.append({"beh": beh, "step": step})
    return {"n": n, "bad": bad, "ops": ops, "cls": cls, "sample": sample, "rt_bad": rt_bad}


# --------------------------------------------------------------------------------------------
# T: seeded random words on long-lived mappers
MAJOR = [0x37, 0x17, 0x6F, 0x67, 0x63, 0x03, 0x23, 0x13, 0x33, 0x0F]
MAJOR64 = [0x1B, 0x3B, 0x13, 0x03, 0x23, 0x33]


def rand_word(rng, xlen):
    """a random 32-bit word whose major opcode is one of the base ISA's (inputs, not expectations)"""
    r = rng.random()
    if r < 0.04:
        return rng.getrandbits(32) | 3
    opc = rng.choice(MAJOR + (MAJOR64 if xlen == 64 else []))
    w = (rng.getrandbits(25) << 7) | opc
    if opc in (0x33, 0x3B) and rng.random() < 0.92:
        w = (w & 0x01FFFFFF) | (rng.choice([0, 0, 0x20]) << 25)
    if opc in (0x13, 0x1B) and ((w >> 12) & 7) in (1, 5) and rng.random() < 0.92:
        keep = 26 if (xlen == 64 and opc == 0x13) else 25
        top = rng.choice([0, 0, 0x10]) << 26
        w = (w & ((1 << keep) - 1)) | top
    if opc == 0x67 and rng.random() < 0.9:
        w &= ~(7 << 12)
    if opc == 0x0F and rng.random() < 0.8:
        w = 0x0FF0000F if rng.random() < 0.5 else (w & 0x0FF00000) | 0x0F
    return w & 0xFFFFFFFF


BOUND = lambda xlen: [0, 1, 2, (1 << xlen) - 1, 1 << (xlen - 1), (1 << (xlen - 1)) - 1, 0xFFFFFFFF & ((1 << xlen) - 1),
                      0x80000000, 0x7FFFFFFF, 31, 32, 63, 64]


def rand_val(rng, xlen):
    r = rng.random()
    if r < 0.3:
        return rng.choice(BOUND(xlen))
    if r < 0.4:
        return rng.getrandbits(6)
    return rng.getrandbits(xlen)


def drive(args):
    """one trace: a mapper living through `nsteps` random words; every step logged with the state observed
    before and after. Between steps the driver may overwrite registers through the mapper API (the logged
    pre-state is read back afterwards, so the spec never relies on what the driver intended)."""
    tid, xlen, seed, nsteps = args
    from amoco.cas.expressions import cst
    rng = random.Random(seed)
    cpu = cpu_of(xlen)
    reset_flags(cpu)
    mask = (1 << xlen) - 1
    base = rng.choice([0x2000, 0x7FFFFFF0, 0x80000000, rng.getrandbits(xlen) & ~0xFF & mask, (mask & ~0xFFF) + 0x100])
    n = 32
    x = [[0] * ((xlen + 15) // 16)] + [limbs(rand_val(rng, xlen), xlen) for _ in range(31)]
    m = build(cpu, xlen, x, limbs(rng.choice([0x1000, rng.getrandbits(xlen) & ~3 & mask, mask - 3, 0x7FFFFFFC]), xlen),
              limbs(base, xlen), [rng.getrandbits(8) for _ in range(n)], rng.random() < 0.5)
    steps = []
    for _ in range(nsteps):
        w = rand_word(rng, xlen)
        opc = w & 0x7F
        if opc in (0x03, 0x23) and rng.random() < 0.85:
            # point the base register into the window: x[rs1] = base + k - imm   (rs1, imm: fields of the word)
            rs1 = (w >> 15) & 31
            imm = (w >> 20) if opc == 0x03 else (((w >> 25) << 5) | ((w >> 7) & 31))
            if imm & 0x800:
                imm -= 0x1000
            if rs1:
                m[cpu.x[rs1]] = cst((base + rng.randrange(0, n) - imm) & mask, xlen)
        elif rng.random() < 0.15:
            m[cpu.x[rng.randrange(1, 32)]] = cst(rand_val(rng, xlen), xlen)
        pre, symz0 = observe(m, cpu, xlen)
        if symz0 or any(v == [] for v in pre["x"]) or pre["pc"] == [] or len(pre["mem"]) > 80:
            break
        dec, mn, raised = apply_word(m, cpu, xlen, w)
        post, symz = observe(m, cpu, xlen)
        steps.append({"w": limbs(w, 32), "dec": dec, "raised": raised, "pre": pre, "post": post, "mn": mn, "symz": symz})
    return {"t": tid, "xlen": xlen, "steps": steps}


# --------------------------------------------------------------------------------------------
# validation by RVTrace
def _validate(args):
    path, xlen, tag = args
    return tlc.run("RVTrace", "RVTrace%d.cfg" % xlen, workers=1, env={"TRACE_FILE": path}, tag=tag,
                   timeout=6000, xmx="2g")


def wire(tr):
    """the part of a recorded trace RVTrace reads"""
    return {"t": tr["t"], "steps": [{"w": s["w"], "dec": s["dec"], "raised": s["raised"], "pre": s["pre"],
                                      "post": s["post"]} for s in tr["steps"]]}


def validate(ctx, traces, xlen, kind, nshards=None):
    """returns {t: verdict}; accounts TLC runs"""
    if not traces:
        return {}
    wd = tlc.workdir("c06rv_%s%d" % (kind, xlen))
    # one JVM start costs about as much as judging 150 steps
    nsteps = sum(len(t["steps"]) for t in traces)
    nsh = max(1, min(nshards or tlc.NCPU, nsteps // 150 or 1, len(traces)))
    shards = [[] for _ in range(nsh)]
    order = sorted(range(len(traces)), key=lambda i: -len(traces[i]["steps"]))
    for k, i in enumerate(order):
        shards[k % nsh].append(wire(traces[i]))
    jobs = []
    for i, sh in enumerate(shards):
        p = os.path.join(wd, "tr%d.ndjson" % i)
        tlc.write_ndjson(p, sh)
        jobs.append((p, xlen, "c06rvT%s%d_%d" % (kind, xlen, i)))
    with mp.pool.ThreadPool(len(jobs)) as tp:
        results = tp.map(_validate, jobs)
    verdicts = {}
    for res in results:
        ctx.add_tlc(res, "T:RVTrace%d(%s)" % (xlen, kind))
        for v in res.printed:
            verdicts[v["t"]] = v
    for t in traces:
        if t["t"] not in verdicts:
            raise tlc.MachineryError("no verdict for RISC-V trace %s (%s)" % (t["t"], kind))
        if verdicts[t["t"]]["lines"] != len(t["steps"]):
            raise tlc.MachineryError("RISC-V trace %s: %d steps recorded, %d judged" % (t["t"], len(t["steps"]),
                                                                                        verdicts[t["t"]]["lines"]))
    tlc.cleanup(wd)
    return verdicts


def report(ctx, traces, verdicts, xlen, kind):
    """turn verdicts into ctx.fail / ctx.drift; returns number of failing steps"""
    nfail = 0
    for t in traces:
        v = verdicts[t["t"]]
        for u in v.get("undec", []):
            s = t["steps"][u["l"] - 1]
            ctx.drift("rv%d: valid base instruction %s not decoded by amoco (outside the statement: nothing to apply)"
                      % (xlen, u["op"]))
            ctx.count("rv_undecoded_valid_words")
        for f in v["fails"]:
            nfail += 1
            s = t["steps"][f["l"] - 1]
            word = "%08x" % unlimbs(s["w"])
            rep = {"isa": "rv%d" % xlen, "source": kind, "word": word, "step": s, "verdict": f}
            if f["devs"]:
                # several smallest deviation sets may reproduce the same post-state (e.g. pc + 4 = 0): the case is
                # attributed to a set made of listed findings when there is one
                known = set(k.get("key") for k in ctx.known)
                cands = sorted(sorted(c) for c in f["devs"])
                pick = cands[0]
                for c in cands:
                    if all("C06:rv%d:%s:%s" % (xlen, f["op"], d) in known for d in c):
                        pick = c
                        break
                for d in pick:
                    ctx.fail("C06:rv%d:%s:%s" % (xlen, f["op"], d),
                             "rv%d %s (word %s, amoco mnemonic %s): %s" % (xlen, f["op"], word, s.get("mn"), DEV_WHAT.get(d, d)),
                             rep)
            else:
                what = s["raised"].split(":")[0] if f["clause"] == "raised" else f["clause"]
                ctx.fail("C06:rv%d:%s:%s" % (xlen, f["op"], what),
                         "rv%d %s (word %s, amoco mnemonic %s): first deviating clause `%s` %s; no listed deviation explains the post-state"
                         % (xlen, f["op"], word, s.get("mn"), f["clause"], s["raised"]), rep)
    return nfail


def replay_step(xlen, step):
    """re-execute a recorded step (replay files): the pre-state is rebuilt from the recorded dump"""
    from amoco.cas.mapper import mapper
    from amoco.cas.expressions import cst, mem
    cpu = cpu_of(xlen)
    reset_flags(cpu)
    m = mapper()
    pre = step["pre"]
    for i in range(1, 32):
        m[cpu.x[i]] = cst(unlimbs(pre["x"][i]), xlen)
    m[cpu.pc] = cst(unlimbs(pre["pc"]), xlen)
    for a, b in pre["mem"]:
        m.mmap.write(cst(unlimbs(a), xlen), bytes([b & 0xFF]))
    pre2, _ = observe(m, cpu, xlen)
    dec, mn, raised = apply_word(m, cpu, xlen, unlimbs(step["w"]))
    post, symz = observe(m, cpu, xlen)
    return {"w": step["w"], "dec": dec, "raised": raised, "pre": pre2, "post": post, "mn": mn, "symz": symz}
