"""C09 pipeline:  generate (TLC, specs/Mapper.tla generator configs | seeded random driver)
                 -> execute + log (harness/c09.py on a real amoco mapper)
                 -> validate (TLC, specs/MapperTrace.tla: byte-level machine + ExprMods!EvalM + quirk attribution)."""
import json
import multiprocessing as mp
import multiprocessing.pool
import os
import random

from . import tlc, c09

MOD = "c09"
SPEC = "Mapper"

QUIRK_WHAT = {
    "KeyedStores": "aliasing allowed: a store narrower than the value already recorded for the same location is widened "
                   "with the old upper bytes and re-appended (mapper.py:272-274), so old bytes are re-asserted AFTER stores "
                   "made through other pointers in between: final memory / later loads are wrong when those overlap "
                   "(m[mem(p,32)]=a; m[mem(q,16)]=b; m[mem(p,16)]=c with q=p+2)",
    "AliasKeySize": "aliasing allowed: aliasing() finds an item with the load's key and concludes nothing can alias, although "
                    "that item is narrower than the load (m[mem(q,32)]=b; m[mem(p,16)]=a; m(mem(p,32)) gives "
                    "{a | M16(p+2)} without mods: wrong for q=p+2)",
    "MergeLE": "big-endian: a narrower store to an already written location keeps the wrong half of the old value "
               "(composer([new, old[new.size:]]) is the little-endian layout)",
    "PtrKeyLE": "big-endian: every copy of a map (use/eval/rcompose, hence every m(mem(..)) and c >> m) and the replay of "
                "mods in mem.eval set items through their ptr key, which __setitem__ stores little-endian: constants and "
                "partial reads come out byte-swapped, final memory is laid out little-endian",
    "BottomLE": "big-endian: _Mem_read turns an unwritten part into mem(a, size, disp=cur) with cur counted in the reversed "
                "part list and the default little-endian order",
    "EmptyMapShortcut": "noaliasing without memtrace: m(x) returns x unevaluated while the item list is empty, so a load "
                        "right after a store returns the old memory (m[mem(p,32)]=d; m(mem(p,32)) gives M32(p))",
}


def _replay_chunk(args):
    behs, seed, base = args
    return [c09.replay(base + i, beh, seed * 1000003 + base + i) for i, beh in enumerate(behs)]


def _random_chunk(args):
    seed, n, base = args
    rng = random.Random(seed)
    out = []
    while len(out) < n:
        case = c09.random_case(rng)
        if case is None:
            continue
        out.append(c09.execute(base + len(out), case))
    return out


def gen_tlc(seed, cfg, kind, simulate=None, depth=None, limit=None):
    """TLC part of a generator (no ctx: may run in a thread). TLC prints every complete behaviour (in -simulate
    mode: every successor it generates); `limit` of them are drawn uniformly with the seeded rng (reservoir
    sampling over the spool). Returns (TLCResult, total printed, picked behaviours)."""
    wd = tlc.workdir("%sgen_%s" % (MOD, kind))
    spool = os.path.join(wd, "beh.spool")
    res = tlc.run(SPEC, cfg, simulate=simulate, depth=depth, seed=seed if simulate else None,
                  spool=spool, tag=MOD + kind, timeout=3000, workers=2)
    rng = random.Random(seed * 31 + len(kind))
    picked, total = [], 0
    with open(spool, "rb") as f:
        for bl in f:
            if not bl.startswith(b'"'):
                continue
            total += 1
            if limit is None or len(picked) < limit:
                picked.append(bl)
            else:
                j = rng.randrange(total)
                if j < limit:
                    picked[j] = bl
    tlc.cleanup(wd)
    behs = [json.loads(json.loads(bl.decode("utf-8"))) for bl in picked]
    if not behs:
        raise tlc.MachineryError("generator %s produced no behaviour" % cfg)
    return res, total, behs


def replay_generated(ctx, cfg, kind, gen, base=0):
    res, total, behs = gen
    ctx.add_tlc(res, "G:" + cfg)
    ctx.count("behaviours_generated_" + kind, total)
    n = max(1, min(tlc.NCPU, len(behs)))
    jobs = [(behs[i::n], ctx.seed, base + i * 100000) for i in range(n)]
    traces = []
    with mp.Pool(n) as pool:
        for out in pool.imap_unordered(_replay_chunk, jobs):
            traces.extend(out)
    for t in traces:
        t["src"] = kind
    ctx.count("behaviours_" + kind, len(traces))
    return traces


def generate(ctx, cfg, kind, simulate=None, depth=None, limit=None, base=0):
    return replay_generated(ctx, cfg, kind, gen_tlc(ctx.seed, cfg, kind, simulate, depth, limit), base)


def parallel(thunks):
    """run independent TLC jobs (each a no-argument callable) in threads; returns their results in order"""
    with mp.pool.ThreadPool(max(1, len(thunks))) as tp:
        hs = [tp.apply_async(t) for t in thunks]
        return [h.get() for h in hs]


def drive(ctx, n, kind="random"):
    per = max(1, n // tlc.NCPU)
    jobs = [(ctx.seed * 7919 + i, per, i * per) for i in range(tlc.NCPU)]
    traces = []
    with mp.Pool(tlc.NCPU) as pool:
        for out in pool.imap_unordered(_random_chunk, jobs):
            traces.extend(out)
    for t in traces:
        t["src"] = kind
    ctx.count("cases_" + kind, len(traces))
    return traces


def _validate(args):
    path, tag = args
    return tlc.run("MapperTrace", "MapperTrace.cfg", workers=1, env={"TRACE_FILE": path}, tag=tag,
                   timeout=6000, xmx="3g")


def _nontrivial(t):
    """evidence statistic only: some byte is accessed through two different pointers, or a load reads a byte an
    earlier store wrote"""
    acc = []
    for op in t["prog"]:
        a = t["pv"][op["p"]] + op["off"]
        acc.append((op["o"], op["p"], a, a + op["n"]))
    for i, x in enumerate(acc):
        for y in acc[:i]:
            if x[2] < y[3] and y[2] < x[3] and (x[1] != y[1] or (x[0] == "ld" and y[0] == "st")):
                return True
    return False


def _shape(t):
    lo = min(t["pv"].values())
    return (t["cf"]["na"], t["cf"]["mt"], t["cf"]["en"], t["cf"]["mi"],
            tuple((o["o"], o["p"], o["off"], o["n"], o.get("vk", "")) for o in t["prog"]),
            tuple(sorted((k, v - lo) for k, v in t["pv"].items())))


def validate(ctx, traces, kind, dbg=False):
    for i, t in enumerate(traces):
        t["t"] = i + 1
        if dbg:
            t["dbg"] = 1
    wd = tlc.workdir("c09val_" + kind)
    order = sorted(range(len(traces)), key=lambda i: -(len(traces[i]["im"]) * (1 + traces[i]["cf"]["mi"]) * len(traces[i]["prog"])))
    nsh = min(tlc.NCPU, len(traces))
    shards = [[] for _ in range(nsh)]
    for k, i in enumerate(order):
        shards[k % nsh].append(traces[i])
    paths = []
    for i, sh in enumerate(shards):
        p = os.path.join(wd, "tr%d.ndjson" % i)
        tlc.write_ndjson(p, sh)
        paths.append((p, "c09T%s%d" % (kind, i)))
    with mp.pool.ThreadPool(len(paths)) as tp:
        results = tp.map(_validate, paths)
    verdicts = {}
    for res in results:
        ctx.add_tlc(res, "T:MapperTrace(" + kind + ")")
        for v in res.printed:
            if isinstance(v, dict) and "t" in v:
                verdicts[v["t"]] = v
        if dbg:
            i = res.out.find("[ mem |->")
            if i < 0:
                i = res.out.find("[ loads |->")
            if i >= 0:
                print(res.out[i:i + 4000])
    for t in traces:
        v = verdicts.get(t["t"])
        if v is None:
            raise tlc.MachineryError("no verdict for trace %s (%s)" % (t["t"], kind))
        if v["v"] == "excluded":
            ctx.count("excluded_overlap_under_noaliasing")
            continue
        ctx.case(key=_shape(t) if _nontrivial(t) else None)
        ctx.trace()
        ctx.count("observations", v["nobs"])
        ctx.count("observations_without_value", v["unk"])
        ctx.count("traces_%s_en%d" % ("na" if t["cf"]["na"] else "alias", t["cf"]["en"]))
        if v["v"] == "ok":
            if len(ctx.samples) < 4 and _nontrivial(t) and len(t["prog"]) >= 3:
                ctx.sample({"source": t.get("src", kind), "cf": t["cf"], "pv": t["pv"], "prog": t["prog"], "verdict": "ok"}, cap=4)
            continue
        case = dict((k, t[k]) for k in ("cf", "prog", "pv", "dv", "imlo", "im"))
        brief = "%s case cf=%s pv=%s prog=%s: clause %s #%s%s" % (
            t.get("src", kind), json.dumps(t["cf"]), json.dumps(t["pv"]),
            json.dumps([[o["o"], o["p"], o["off"], o["n"], o.get("vk", ""), o.get("src", o.get("dst"))] for o in t["prog"]]),
            v["clause"], v["idx"], (" raised " + t["raised"]) if t["raised"] else "")
        if v["quirks"]:
            ctx.count("failing_cases_explained_by_listed_quirks")
            for q in sorted(v["quirks"]):
                ctx.fail("C09:quirk:" + q, QUIRK_WHAT.get(q, q) + " -- e.g. " + brief, {"case": case, "verdict": v})
        else:
            key = "C09:%s:unexplained" % v["clause"]
            if v["clause"] == "Total":
                key = "C09:Total:%s" % t["raised"].split(":")[0]
            ctx.fail(key, brief + " (no set of listed quirks predicts the values amoco produced)", {"case": case, "verdict": v})
    tlc.cleanup(wd)
    return verdicts


def replay_file(ctx, path):
    d = json.load(open(path))
    case = d["case"]["case"] if "case" in d.get("case", {}) else d["case"]
    rec = c09.execute(1, case)
    rec["src"] = "replay"
    print("replaying %s: raised=%r" % (path, rec["raised"]))
    v = validate(ctx, [rec], "replay", dbg=True)
    print("verdict:", json.dumps(v[1]))
