"""C07: the reference disassemblers (GNU objdump, LLVM llvm-objdump) as plain-data oracles.

probe(strings, mode) puts every byte string in its own 16-byte slot of the .text section of a
relocatable ELF object written here (no assembler needed), one symbol per slot: both tools restart
disassembly at every symbol, so slot k is decoded from its first byte independently of its neighbours.
For each slot the first instruction line of each tool is parsed into
    (length, valid, mnemonic, target)        target = absolute address operand of a direct branch or None
Nothing here knows anything about x86 encodings: lengths are counted from the hex bytes the tools print.

Used (a) by corpus/x86len/build_corpus.py to build the vendored tables and (b) by the check itself to
cross-check freshly generated strings when the tools are on PATH (available() says whether they are).
"""
import os
import re
import shutil
import struct
import subprocess
import tempfile

SLOT = 16
PADBYTE = 0x90


def available():
    return shutil.which("objdump") is not None and shutil.which("llvm-objdump") is not None


def versions():
    out = {}
    for tool in ("objdump", "llvm-objdump"):
        try:
            p = subprocess.run([tool, "--version"], stdout=subprocess.PIPE, stderr=subprocess.STDOUT, timeout=20)
            lines = [l.strip() for l in p.stdout.decode("utf-8", "replace").splitlines() if l.strip()]
            out[tool] = " / ".join(lines[:2]) if tool == "objdump" else " / ".join(l for l in lines[:3])
        except Exception as e:  # pragma: no cover
            out[tool] = "unavailable: %s" % e
    return out


def write_elf(path, text, nsyms, mode):
    """relocatable ELF (ELF32/EM_386 for mode 32, ELF64/EM_X86_64 for mode 64) with .text = text and
    symbols s0..s(nsyms-1) at offsets 0, 16, 32, ..."""
    is64 = mode == 64
    strtab = bytearray(b"\0")
    names = []
    for k in range(nsyms):
        names.append(len(strtab))
        strtab += b"s%d\0" % k
    shstr = b"\0.text\0.symtab\0.strtab\0.shstrtab\0"
    o_text, o_symtab, o_strtab, o_shstrtab = 1, 7, 15, 23
    sym = bytearray()
    if is64:
        sym += struct.pack("<IBBHQQ", 0, 0, 0, 0, 0, 0)
        for k in range(nsyms):
            sym += struct.pack("<IBBHQQ", names[k], 0x02, 0, 1, k * SLOT, SLOT)   # LOCAL FUNC in section 1
        ehsize, shentsize, symentsize = 64, 64, 24
    else:
        sym += struct.pack("<IIIBBH", 0, 0, 0, 0, 0, 0)
        for k in range(nsyms):
            sym += struct.pack("<IIIBBH", names[k], k * SLOT, SLOT, 0x02, 0, 1)
        ehsize, shentsize, symentsize = 52, 40, 16
    off = ehsize
    offs = {}
    blobs = [("text", bytes(text)), ("sym", bytes(sym)), ("str", bytes(strtab)), ("shstr", shstr)]
    body = bytearray()
    for name, blob in blobs:
        pad = (-off) % 16
        body += b"\0" * pad
        off += pad
        offs[name] = off
        body += blob
        off += len(blob)
    pad = (-off) % 16
    body += b"\0" * pad
    shoff = off + pad

    def sh(name, typ, flags, offset, size, link, info, align, entsize):
        if is64:
            return struct.pack("<IIQQQQIIQQ", name, typ, flags, 0, offset, size, link, info, align, entsize)
        return struct.pack("<IIIIIIIIII", name, typ, flags, 0, offset, size, link, info, align, entsize)

    shdrs = sh(0, 0, 0, 0, 0, 0, 0, 0, 0)
    shdrs += sh(o_text, 1, 0x6, offs["text"], len(text), 0, 0, 16, 0)                       # PROGBITS AX
    shdrs += sh(o_symtab, 2, 0, offs["sym"], len(sym), 3, nsyms + 1, 8, symentsize)         # SYMTAB
    shdrs += sh(o_strtab, 3, 0, offs["str"], len(strtab), 0, 0, 1, 0)
    shdrs += sh(o_shstrtab, 3, 0, offs["shstr"], len(shstr), 0, 0, 1, 0)
    ident = b"\x7fELF" + bytes([2 if is64 else 1, 1, 1, 0]) + b"\0" * 8
    if is64:
        eh = ident + struct.pack("<HHIQQQIHHHHHH", 1, 62, 1, 0, 0, shoff, 0, ehsize, 0, 0, shentsize, 5, 4)
    else:
        eh = ident + struct.pack("<HHIIIIIHHHHHH", 1, 3, 1, 0, 0, shoff, 0, ehsize, 0, 0, shentsize, 5, 4)
    with open(path, "wb") as f:
        f.write(eh)
        f.write(body)
        f.write(shdrs)


_RE_SYM = re.compile(r"^[0-9a-f]+ <s(\d+)>:")
_RE_INS = re.compile(r"^\s*([0-9a-f]+):\s+([0-9a-f]{2}(?: [0-9a-f]{2})*)\s*(?:\t(.*))?$")
_RE_TGT = re.compile(r"^\*?(?:0x)?([0-9a-f]+)(?: <[^>]*>)?$")
# words that both tools print in front of the mnemonic for prefix bytes
PREFIX_WORDS = frozenset("""lock rep repz repe repnz repne data16 data32 addr16 addr32 addr64 cs ds es fs gs ss
 rex rex.w rex.r rex.x rex.b rex.wr rex.wx rex.wb rex.rx rex.rb rex.xb rex.wrx rex.wrb rex.wxb rex.rxb rex.wrxb
 rex64 notrack bnd xacquire xrelease""".split())


def parse_line(text):
    """instruction text of one tool line -> (valid, mnemonic, target-or-None)"""
    t = (text or "").strip()
    if not t or "(bad)" in t or "<unknown>" in t or t.startswith("."):
        return False, "", None
    t = t.split("#")[0].strip()
    words = t.split()
    k = 0
    while k < len(words) and (words[k].lower() in PREFIX_WORDS or words[k].endswith(",pt") or words[k].endswith(",pn")):
        k += 1
    if k >= len(words):
        return True, "", None          # a line made of prefixes only
    mnemo = words[k].lower()
    ops = " ".join(words[k + 1:]).strip()
    tgt = None
    # a bare address operand is a direct branch target only for the branch mnemonics (in AT&T syntax an
    # absolute memory operand of a one-operand instruction is printed the same way)
    isbranch = mnemo.startswith("j") or mnemo.startswith("call") or mnemo.startswith("loop") or mnemo.startswith("xbegin")
    if isbranch and ops and "," not in ops and "%" not in ops and "$" not in ops and "(" not in ops:
        m = _RE_TGT.match(ops)
        if m and not ops.startswith("*"):
            tgt = int(m.group(1), 16)
    return True, mnemo, tgt


def _parse_dump(out, n):
    """-> list of n entries (len, valid, mnemo, target) for the first instruction of every slot"""
    res = [None] * n
    cur = None
    for line in out.splitlines():
        m = _RE_SYM.match(line)
        if m:
            cur = int(m.group(1))
            continue
        if cur is None or res[cur] is not None:
            continue
        m = _RE_INS.match(line)
        if not m:
            continue
        addr = int(m.group(1), 16)
        if addr != cur * SLOT:
            continue
        nbytes = len(m.group(2).split())
        valid, mnemo, tgt = parse_line(m.group(3))
        res[cur] = (nbytes, valid, mnemo, tgt)
    return res


def _run(cmd, timeout=600):
    p = subprocess.run(cmd, stdout=subprocess.PIPE, stderr=subprocess.PIPE, timeout=timeout)
    if p.returncode != 0:
        raise RuntimeError("%s failed: %s" % (cmd[0], p.stderr.decode("utf-8", "replace")[:400]))
    return p.stdout.decode("utf-8", "replace")


def probe(strings, mode, workdir=None):
    """strings: list of bytes (each <= 15 bytes; shorter ones are padded with NOPs, the decoders may then
    read padding: callers give 15-byte strings when that matters).
    -> list of dicts {lo, vo, mo, to, ll, vl, ml, tl} (objdump / llvm)"""
    if not strings:
        return []
    n = len(strings)
    text = bytearray()
    for s in strings:
        if len(s) > 15:
            raise ValueError("string longer than 15 bytes")
        text += bytes(s) + bytes([PADBYTE]) * (SLOT - len(s))
    d = tempfile.mkdtemp(prefix="c07ref", dir=workdir)
    try:
        path = os.path.join(d, "p.o")
        write_elf(path, text, n, mode)
        o1 = _run(["objdump", "-d", "-w", "-z", path])
        o2 = _run(["llvm-objdump", "-d", "-z", path])
    finally:
        shutil.rmtree(d, ignore_errors=True)
    r1 = _parse_dump(o1, n)
    r2 = _parse_dump(o2, n)
    out = []
    for k in range(n):
        a = r1[k] or (0, False, "", None)
        b = r2[k] or (0, False, "", None)
        out.append({"lo": a[0], "vo": a[1], "mo": a[2], "to": a[3], "ll": b[0], "vl": b[1], "ml": b[2], "tl": b[3],
                    # displacement = printed target - address of the next instruction (mod 2^64); plain subtraction
                    "do": None if a[3] is None else (a[3] - (k * SLOT + a[0])) % (1 << 64),
                    "dl": None if b[3] is None else (b[3] - (k * SLOT + b[0])) % (1 << 64)})
    return out


def agreed(r):
    """the two references decode the slot as the same valid instruction: both valid, same length
    (<= 15), and either both or neither print a direct branch target (then the same one)."""
    return bool(r["vo"] and r["vl"] and r["lo"] == r["ll"] and 0 < r["lo"] <= 15 and r["mo"] != "" and r["ml"] != ""
                and r["to"] == r["tl"])


def probe_parallel(strings, mode, pool=None, chunk=20000, workdir=None):
    chunks = [strings[i:i + chunk] for i in range(0, len(strings), chunk)]
    if pool is None or len(chunks) <= 1:
        out = []
        for c in chunks:
            out.extend(probe(c, mode, workdir))
        return out
    outs = pool.starmap(probe, [(c, mode, workdir) for c in chunks])
    out = []
    for o in outs:
        out.extend(o)
    return out
