"""C11 replayer/driver: call histories on ONE disassembler object versus fresh-process baselines.

Stages (all of them only perform calls and record what came back; DecoderTrace.tla judges):
  pool_task      per ISA/mode: a pool of inputs built from the shipped specs (bodies, truncations, prefix
                 runs, random strings), each labelled with the input class of specs/Decoder.tla it is an
                 exemplar of - found by search on the current tree (construction + the kind of outcome a
                 clean object gives)
  baseline_task  per ISA/mode: every pool input decoded ONCE in its own freshly forked process whose
                 parent imported the ISA module and never decoded anything
  replay_task    per ISA/mode: (G) every TLC-generated history, classes concretised with pool exemplars,
                 run on one disassembler object (a shallow copy of the never-used module-level object);
                 (T) long random call sequences over the whole pool on one object.  After each call the
                 outcome and whether `_disassembler__i` is set are recorded next to the baseline.
"""
import copy
import json
import os
import random

from . import dec_common as D

PREFIX_CLASSES = ("prefix_only", "prefix_truncated", "prefix_invalid", "prefix_valid", "prefix_raising")
PLAIN_CLASSES = ("valid", "invalid", "truncated", "rejecting", "raising")
# outcome kind the model (Fresh) gives each class
CLASS_KIND = {"valid": "instr", "invalid": "none", "truncated": "none", "rejecting": "none", "raising": "raised",
              "prefix_only": "none", "prefix_truncated": "none", "prefix_invalid": "none",
              "prefix_valid": "instr", "prefix_raising": "raised"}


def _kind(isa, b):
    i, o = D.decode(isa, b, isolate=True)
    return o


def pool_task(args):
    """-> {"isa","mode","pool":[{"in":hex,"cls":class|"other"}]}"""
    isa_name, mode, seed, per_class, nother = args
    D.watchdog_init()
    D.mute_stdout()
    isa = D.Isa(isa_name, mode)
    D.quiet()
    rng = random.Random("c11pool/%s/%s/%d" % (isa_name, mode, seed))
    specs = [s for s in isa.specs() if s.pfx is not True]
    cand = dict((c, []) for c in PLAIN_CLASSES + PREFIX_CLASSES)
    other = []
    seen = set()

    def add(cls, b):
        b = bytes(b)
        if b in seen:
            return
        seen.add(b)
        (cand[cls] if cls in cand else other).append(b)

    order = list(range(len(specs)))
    rng.shuffle(order)
    budget = 0
    hung = 0
    for si in order:
        if all(len(cand[c]) >= 4 * per_class for c in PLAIN_CLASSES if c != "raising") and budget > 400:
            break
        budget += 1
        s = specs[si]
        fill = rng.choice(("zeros", "ones", "boundary", "random", "random"))
        b0 = D.spec_inputs(isa, s, rng, fill)
        o = _kind(isa, b0)
        if o["k"] == "instr":
            n = o["len"]
            b0 = b0[:n + rng.choice((0, 0, 1, 3))] if 1 <= n <= len(b0) else b0
            if _kind(isa, b0) == o:
                add("valid", b0)
            if n >= 2:
                t = b0[:n - 1]
                add("truncated" if _kind(isa, t)["k"] == "none" else "other", t)
        elif o["k"] == "none":
            add("rejecting", b0)
        elif o["k"] == "raised" and o["exc"] != "Timeout":
            add("raising", b0)
        elif o["k"] == "raised":
            hung += 1
    tries = 0
    while len(cand["invalid"]) < 4 * per_class and tries < 4000:
        tries += 1
        b = bytes(rng.getrandbits(8) for _ in range(rng.choice((1, 2, 4, isa.maxlen))))
        if _kind(isa, b)["k"] == "none":
            add("invalid", b)
    if isa.has_prefix:
        for c in PLAIN_CLASSES:
            rng.shuffle(cand[c])
        for _ in range(6 * per_class):
            p = D.prefix_bytes(isa, rng)
            add("prefix_only" if _kind(isa, p)["k"] == "none" else "other", p)
            for c in ("valid", "truncated", "invalid", "raising", "rejecting"):
                if not cand[c]:
                    continue
                b = p + rng.choice(cand[c])
                k = _kind(isa, b)
                if k["k"] == "raised" and k["exc"] == "Timeout":
                    continue
                want = {"valid": "prefix_valid", "truncated": "prefix_truncated", "invalid": "prefix_invalid",
                        "raising": "prefix_raising", "rejecting": "prefix_invalid"}[c]
                if k["k"] == CLASS_KIND[want]:
                    add(want, b)
                elif k["k"] == "instr":
                    add("prefix_valid", b)
                elif k["k"] == "raised":
                    add("prefix_raising", b)
                else:
                    add("other", b)
    pool = []
    for c in PLAIN_CLASSES + PREFIX_CLASSES:
        xs = cand[c]
        rng.shuffle(xs)
        for b in xs[:per_class]:
            pool.append({"in": b.hex(), "cls": c})
    rng.shuffle(other)
    for b in other[:nother]:
        pool.append({"in": b.hex(), "cls": "other"})
    return {"isa": isa_name, "mode": mode, "pool": pool, "has_prefix": isa.has_prefix}


def baseline_task(args):
    """runs in a process that was forked for this task only and has decoded nothing: every input is decoded
    in a child forked from that pristine state -> one fresh object in one fresh process per input"""
    isa_name, mode, inputs = args
    D.watchdog_init()
    D.mute_stdout()
    isa = D.Isa(isa_name, mode)
    D.quiet()
    out = []
    BATCH = 24      # children in flight (each one is its own fresh process; they share nothing)
    for lo in range(0, len(inputs), BATCH):
        kids = []
        for hx in inputs[lo:lo + BATCH]:
            r, w = os.pipe()
            pid = os.fork()
            if pid == 0:
                code = 0
                try:
                    os.close(r)
                    i, o = D.decode(isa, bytes.fromhex(hx), isolate=False)
                    os.write(w, json.dumps(o).encode())
                except BaseException:
                    code = 1
                finally:
                    os._exit(code)
            os.close(w)
            kids.append((pid, r))
        for pid, r in kids:
            data = b""
            while True:
                chunk = os.read(r, 65536)
                if not chunk:
                    break
                data += chunk
            os.close(r)
            os.waitpid(pid, 0)
            out.append(json.loads(data.decode()) if data else {"k": "raised", "exc": "ChildDied", "at": "?"})
    return {"isa": isa_name, "mode": mode, "base": out}


def new_object(pristine):
    """one disassembler object for one history: a shallow copy of the never-used module-level object with
    its own list of specification trees (the trees themselves are shared, they are read-only)"""
    d = copy.copy(pristine)
    d.specs = list(d.specs)
    return d


def switch_task(args):
    """mode-switch histories (C11: 'a function of the bytes and the selected decode mode only'):
    (isa, {mode: pool with fresh-process baselines taken under that mode}, seed, nrandom) -> traces.
    Systematic part: every path of 2 and of 3 modes; at each step the decode-mode globals are set and a few
    exemplars of that mode are decoded on the ONE object.  Random part: long walks over (mode, input)."""
    import itertools
    isa_name, pools, seed, nrandom = args
    D.watchdog_init()
    D.mute_stdout()
    modes = sorted(pools)
    isa = D.Isa(isa_name, modes[0])
    D.quiet()
    rng = random.Random("c11switch/%s/%d" % (isa_name, seed))
    pristine = isa.dis
    probes = {}
    for m in modes:
        good = [e for e in pools[m] if e["cls"] in ("valid", "prefix_valid")]
        bad = [e for e in pools[m] if e["cls"] in ("invalid", "truncated", "rejecting")]
        rng.shuffle(good)
        rng.shuffle(bad)
        probes[m] = good[:3] + bad[:1]
    traces = []

    def run(path, picks):
        dis = new_object(pristine)
        ev = []
        for m, xs in zip(path, picks):
            isa.set_mode(m)
            for x in xs:
                e = _call(isa, dis, x["in"], x["base"])
                e["cls"] = x["cls"]
                e["mode"] = m
                ev.append(e)
        traces.append({"kind": "c11", "m": "%s/%s" % (isa_name, "+".join(modes)), "src": "S",
                       "path": list(path), "ev": ev})

    for n in (2, 3):
        for path in itertools.product(modes, repeat=n):
            run(path, [probes[m] for m in path])
    for _ in range(nrandom):
        path = [rng.choice(modes) for _ in range(12)]
        run(path, [[rng.choice(pools[m])] for m in path])
    isa.set_mode(modes[0])
    return {"isa": isa_name, "mode": "+".join(modes), "traces": traces, "skipped": 0,
            "pristine_touched": isa.pending(pristine) is not None}


def _call(isa, dis, hx, base):
    i, o = D.decode(isa, bytes.fromhex(hx), dis=dis, isolate=False)
    p = isa.pending(dis)
    return {"in": list(bytes.fromhex(hx)), "out": o, "pend": 0 if p is None else 1, "base": base}


def replay_task(args):
    """(isa, mode, pool with baselines, histories, nseq, seqlen, seed) -> traces"""
    isa_name, mode, pool, histories, nseq, seqlen, seed = args
    D.watchdog_init()
    D.mute_stdout()
    isa = D.Isa(isa_name, mode)
    D.quiet()
    rng = random.Random("c11replay/%s/%s/%d/%d" % (isa_name, mode, seed, len(histories)))
    bycls = {}
    for e in pool:
        bycls.setdefault(e["cls"], []).append(e)
    pristine = isa.dis          # never called in this process
    traces = []
    skipped = 0
    for h in histories:
        if any(c["cls"] not in bycls for c in h):
            skipped += 1
            continue
        dis = new_object(pristine)
        ev = []
        for c in h:
            x = rng.choice(bycls[c["cls"]])
            e = _call(isa, dis, x["in"], x["base"])
            e["cls"] = c["cls"]
            e["xleak"] = c["leak"]
            e["xk"] = c["fk"]
            ev.append(e)
        traces.append({"kind": "c11", "m": "%s/%s" % (isa_name, mode), "src": "G", "ev": ev})
    for _ in range(nseq):
        dis = new_object(pristine)
        ev = []
        for _ in range(seqlen):
            x = rng.choice(pool)
            e = _call(isa, dis, x["in"], x["base"])
            e["cls"] = x["cls"]
            ev.append(e)
        traces.append({"kind": "c11", "m": "%s/%s" % (isa_name, mode), "src": "T", "ev": ev})
    used = isa.pending(pristine) is not None
    return {"isa": isa_name, "mode": mode, "traces": traces, "skipped": skipped, "pristine_touched": used}


def replay_history(args):
    """re-execute a recorded call history on ONE object of the current tree (./check C11 --replay);
    `bases` are fresh-process outcomes computed by baseline_task for the same inputs"""
    isa_name, mode, inputs, classes, bases, modes = args
    D.watchdog_init()
    D.mute_stdout()
    isa = D.Isa(isa_name, modes[0] if modes else mode)
    D.quiet()
    dis = new_object(isa.dis)
    ev = []
    for k, (hx, c, b) in enumerate(zip(inputs, classes, bases)):
        if modes:
            isa.set_mode(modes[k])
        e = _call(isa, dis, hx, b)
        e["cls"] = c
        if modes:
            e["mode"] = modes[k]
        ev.append(e)
    return {"kind": "c11", "m": "%s/%s" % (isa_name, mode), "src": "replay", "ev": ev}
