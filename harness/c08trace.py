"""C08, code -> spec: drive real MemoryMap objects through long random histories, record what the
public calls return, let TLC (specs/MemTrace.tla) decide whether each recorded trace is a behaviour of
the abstract byte store."""
import json
import multiprocessing as mp
import multiprocessing.pool
import os
import random

from . import tlc, ser


def dstr(d):
    if d == ser.UNDEF:
        return "U"
    if all(b[0] == "c" for b in d):
        return "b%02x" % sum(b[1] << i for i, b in enumerate(d))
    if all(b[0] == "r" for b in d) and len(set(b[1] for b in d)) == 1 and d[0][2] % 8 == 0 \
            and all(d[i][2] == d[0][2] + i for i in range(8)):
        return "e:%s:%d" % (d[0][1], d[0][2] // 8)
    return "x:" + repr(d)


def make_trace(args):
    from amoco.cas.expressions import reg, cst, ptr, composer
    from amoco.system.memory import MemoryMap
    tid, seed, nops, maxaddr = args
    rng = random.Random(seed)
    # one data endianness per trace for symbolic values (as a mapper does for an ISA): an expression
    # part returned by read() is in value order and can only be laid out in memory order by a reader
    # that knows the endianness it was stored with; raw bytes / constants may use either.
    TEN = rng.choice((1, -1))
    maps = {1: MemoryMap(), 2: MemoryMap()}
    zr = reg("z_r", 32)
    owner = {}
    ev = []
    wcount = [0]

    def addr(z, a):
        return a if z == "none" else ptr(zr, disp=a)

    def flatten(items):
        out = []
        for it in items:
            if isinstance(it, (bytes, bytearray)):
                out.extend(dstr(ser.raw_desc(b)) for b in it)
                continue
            if ser.kind(it) == "bot":
                out.extend(["U"] * (it.size // 8))
                continue
            n = it.size // 8
            d = [ser.byte_desc(it, i) for i in range(n)]
            if TEN == -1:
                d.reverse()
            out.extend(dstr(x) for x in d)
        return out

    def has_zone(mm, z):
        return z == "none" or any(k is not None and getattr(k, "ref", None) == "z_r" for k in mm._zones)

    for _ in range(nops):
        x = rng.random()
        m = 1 if rng.random() < 0.85 else 2
        z = "none" if rng.random() < 0.7 else "r"
        try:
            if x < 0.55:
                wcount[0] += 1
                w = wcount[0]
                n = rng.choice((1, 1, 2, 2, 3, 4, 4, 5, 8, 8, 12, 16))
                a = rng.randrange(0, maxaddr)
                k = rng.choice(("bytes", "cst", "reg", "reg", "slc", "comp", "compc"))
                en = rng.choice((1, -1))
                if k in ("comp", "compc") and n < 2:
                    k = "reg"
                if k == "bytes":
                    data = bytes(rng.randrange(256) for _ in range(n))
                    obj, cells = data, [dstr(ser.raw_desc(b)) for b in data]
                    en = 1
                elif k == "cst":
                    v = rng.getrandbits(8 * n)
                    obj = cst(v, 8 * n)
                    bs = [(v >> (8 * i)) & 0xFF for i in range(n)]
                    if en == -1:
                        bs.reverse()
                    cells = [dstr(ser.raw_desc(b)) for b in bs]
                else:
                    en = TEN
                    if k == "reg":
                        obj = reg("w%d" % w, 8 * n)
                    elif k == "slc":
                        obj = reg("w%d" % w, 8 * n + 24)[16:16 + 8 * n]
                    elif k == "comp":
                        c = rng.randrange(1, n)
                        obj = composer([reg("w%da" % w, 8 * c), reg("w%db" % w, 8 * (n - c))])
                    else:
                        c = rng.randrange(1, n)
                        obj = composer([reg("w%da" % w, 8 * c), cst(rng.getrandbits(8 * (n - c)), 8 * (n - c))])
                    vb = range(n) if en == 1 else range(n - 1, -1, -1)
                    ds = [ser.byte_desc(obj, i) for i in vb]
                    cells = [dstr(d) for d in ds]
                maps[m].write(addr(z, a), obj, en)
                ev.append({"ev": "write", "m": m, "z": z, "a": a, "cells": cells, "kind": k, "en": en})
            elif x < 0.90:
                a = rng.randrange(-2, maxaddr + 8)
                n = rng.choice((1, 1, 2, 3, 4, 8, 16, rng.randrange(1, 40)))
                if not has_zone(maps[m], z):
                    continue
                got = flatten(maps[m].read(addr(z, a), n))
                ev.append({"ev": "read", "m": m, "z": z, "a": a, "n": n, "cells": got})
            elif x < 0.93:
                maps[m].restruct()
                ev.append({"ev": "restruct", "m": m})
            elif x < 0.96:
                maps[m] = maps[m].copy()
                ev.append({"ev": "copy", "m": m})
            elif x < 0.98:
                maps[1].merge(maps[2])
                maps[2] = MemoryMap()
                ev.append({"ev": "merge"})
            else:
                d = rng.choice((-2, 1, 5))
                zo = None
                for kz, zz in maps[m]._zones.items():
                    if (z == "none" and kz is None) or (kz is not None and getattr(kz, "ref", None) == "z_r" and z == "r"):
                        zo = zz
                if zo is None or not zo._map:
                    continue
                zo.shift(d)
                ev.append({"ev": "shift", "m": m, "z": z, "d": d})
        except Exception as e:
            ev.append({"ev": "raised", "what": "%s: %s" % (type(e).__name__, e)})
            break
    # final sweep: read everything back
    for m in (1, 2):
        for z in ("none", "r"):
            if has_zone(maps[m], z):
                try:
                    got = flatten(maps[m].read(addr(z, -4), maxaddr + 40))
                    ev.append({"ev": "read", "m": m, "z": z, "a": -4, "n": maxaddr + 40, "cells": got})
                except Exception as e:
                    ev.append({"ev": "raised", "what": "%s: %s" % (type(e).__name__, e)})
    return {"t": tid, "ev": ev}


def validate_shard(args):
    path, tag = args
    res = tlc.run("MemTrace", "MemTrace.cfg", workers=1, env={"TRACE_FILE": path}, tag=tag, timeout=3000,
                  xmx="2g")
    return res


def run(ctx):
    quick = ctx.tier == "quick"
    ntr = 160 if quick else 3200
    nops = 80 if quick else 250
    jobs = [(i + 1, ctx.seed * 7919 + i, nops, 64) for i in range(ntr)]
    with mp.Pool(tlc.NCPU) as pool:
        traces = pool.map(make_trace, jobs, chunksize=8)
    wd = tlc.workdir("c08T")
    shards = tlc.shard(traces, tlc.NCPU)
    paths = []
    for i, sh in enumerate(shards):
        p = os.path.join(wd, "tr%d.ndjson" % i)
        tlc.write_ndjson(p, sh)
        paths.append((p, "c08T%d" % i))
    with mp.pool.ThreadPool(len(paths)) as tp:
        results = tp.map(validate_shard, paths)
    verdicts = {}
    for res in results:
        ctx.add_tlc(res, "T:MemTrace")
        for v in res.printed:
            verdicts[v["t"]] = v
    bytid = dict((t["t"], t) for t in traces)
    for t in traces:
        v = verdicts.get(t["t"])
        if v is None:
            raise tlc.MachineryError("no verdict for recorded trace %s" % t["t"])
        kinds = set(e.get("kind") for e in t["ev"] if e["ev"] == "write")
        ctx.case(key=("T", t["t"]) if len(t["ev"]) > 10 else None)
        ctx.trace()
        if v["verdict"] != "ok":
            d = json.loads(v["verdict"])
            line = d["line"]
            ctx.fail("C08:trace:%s" % d["clause"],
                     "recorded trace %s rejected by MemTrace at line %s (%s): event %s"
                     % (t["t"], line, d["clause"], json.dumps(t["ev"][line - 1])[:400]),
                     {"source": "T", "trace": t})
    ctx.count("recorded_traces_validated", len(traces))
    ctx.count("recorded_events", sum(len(t["ev"]) for t in traces))
    ctx.sample({"source": "recorded trace (first 6 events)", "events": traces[0]["ev"][:6]}, cap=6)
    tlc.cleanup(wd)
