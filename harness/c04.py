"""C04 drivers/replayers: disassembler.setup / disassembler.__call__ of amoco/arch/core.py.

  * configs(modname)     the (mode, fetch order) configurations of a cpu module (ARM: ARM/Thumb x ibigend)
  * dump_config()        T(a): the real tree of a mode (masks, keys, leaf spec ids) + the mode's spec list
  * observe_word()       T(b): one disassemble(bytes) call observed through a wrapper of ispec.decode (which
                         specs got past the fixed-bit test, in which order, and which one ended every prefix
                         level) next to the list of ALL specs of the mode whose fixed bits match the same input
                         (cand) and of those that also accept it with a fresh partial instruction (acc)
  * replay_tables()      G: TLC-generated spec tables as real ispec objects + a real disassembler
The verdicts (first accepted in most-constrained-first order, routing, leaf order, ...) are computed by
TLC (specs/DecTreeTrace.tla, specs/DecTree.tla); nothing here ranks or sorts specs.
"""
import importlib
import json
import random
import sys
import types

from . import c03
from . import ser

ISA_MODULES = c03.ISA_MODULES


def positions(v):
    out = []
    i = 0
    while v:
        if v & 1:
            out.append(i)
        v >>= 1
        i += 1
    return out


# ---------------------------------------------------------------------------------------------------
# configurations

def configs(modname, M):
    """[(label, mode index, endian at call, setter, restore)]"""
    d = M.disassemble
    if modname == "arm.cpu_armv7":
        from amoco.arch.arm.v7 import env
        out = []
        for mode in (0, 1):
            for big in (0, 1):
                def setter(mode=mode, big=big, I=env.internals):
                    I["isetstate"] = mode
                    I["ibigend"] = big
                out.append(("%s/%s" % ("arm" if mode == 0 else "thumb", "be" if big else "le"), mode, -1 if big else 1, setter))

        def restore(I=env.internals):
            I["isetstate"] = 0
            I["ibigend"] = 0
        return out, restore
    if modname == "arm.cpu_armv8":
        from amoco.arch.arm.v8 import env64 as env
        out = []
        for big in (0, 1):
            def setter(big=big, I=env.internals):
                I["ibigend"] = big
            out.append(("a64/%s" % ("be" if big else "le"), 0, -1 if big else 1, setter))

        def restore(I=env.internals):
            I["ibigend"] = 0
        return out, restore
    return [("mode%d" % k, k, d.endian(), (lambda: None)) for k in range(len(d.specs))], (lambda: None)


def found_list(d, mode):
    """the mode's spec list as the disassembler found (and sorted) it: the ISPECS list of the spec module"""
    ids = set(id(s) for s in c03.leaves(d.specs[mode]))
    for name, m in list(sys.modules.items()):
        if name.startswith("amoco.arch") or name.startswith("verif_"):
            L = getattr(m, "ISPECS", None)
            if isinstance(L, list) and len(L) == len(ids) and set(id(s) for s in L) == ids:
                return L
    # the tree lost or duplicated a spec: fall back to the largest ISPECS list that contains the leaves
    best = None
    for name, m in list(sys.modules.items()):
        if name.startswith("amoco.arch"):
            L = getattr(m, "ISPECS", None)
            if isinstance(L, list) and L and ids & set(id(s) for s in L):
                if best is None or len(L) > len(best):
                    best = L
    return best or []


def dump_tree(tree, index):
    nodes = []

    def rec(t):
        f, l = t
        me = len(nodes)
        nodes.append(None)
        if f == 0:
            nodes[me] = {"leaf": True, "f": [], "specs": [index.get(id(s), 0) for s in l], "kids": []}
        else:
            kids = []
            for key in l:
                kids.append({"key": positions(key), "node": rec(l[key]) + 1})
            nodes[me] = {"leaf": False, "f": positions(f), "specs": [], "kids": kids}
        return me
    rec(tree)
    return nodes


def spec_row(s):
    return {"size": s.mask.size, "mask": positions(s.mask.ival), "fix": positions(s.fix.ival)}


# ---------------------------------------------------------------------------------------------------
# dynamic observation

class DecodeLog(object):
    """wrapper installed on ispec.decode for the duration of one real disassemble() call"""

    def __init__(self):
        self.calls = []
        self.on = False


LOG = DecodeLog()
_ORIG = [None]


def install():
    import amoco.arch.core as core
    if _ORIG[0] is None:
        orig = core.ispec.decode
        _ORIG[0] = orig

        def decode(self, istr, endian=1, i=None, iclass=core.instruction):
            if not LOG.on:
                return orig(self, istr, endian, i, iclass)
            try:
                r = orig(self, istr, endian, i, iclass)
            except core.DecodeError:
                LOG.calls.append((id(self), len(istr), "maskrej"))
                raise
            except core.InstructionError:
                LOG.calls.append((id(self), len(istr), "rej"))
                raise
            except Exception as e:
                LOG.calls.append((id(self), len(istr), "exc:" + type(e).__name__))
                raise
            LOG.calls.append((id(self), len(istr), "acc"))
            return r
        core.ispec.decode = decode
    return _ORIG[0]


def proj_value(v, depth=0):
    if depth > 6:
        return "deep"
    if v is None or isinstance(v, (bool, int, str)):
        return v
    if isinstance(v, bytes):
        return "b:" + v.hex()
    if isinstance(v, (list, tuple)):
        return [proj_value(x, depth + 1) for x in v]
    if isinstance(v, dict):
        return dict((str(k), proj_value(x, depth + 1)) for k, x in sorted(v.items(), key=lambda kv: str(kv[0])))
    if ser.is_exp(v):
        return xtree(v)
    return "obj:" + type(v).__name__


def xtree(e, depth=0):
    """attribute-only projection of an operand expression (like ser.tree, but a segment register in a
    ptr is projected too instead of being compared with '')"""
    if depth > 60:
        return {"k": "deep"}
    if not ser.is_exp(e):
        return proj_value(e, 5) if depth < 50 else "raw"
    k = ser.kind(e)
    d = {"k": k, "w": e.size, "sf": 1 if e.sf else 0}
    if k == "cst":
        d["v"] = hex(e.v)
    elif k in ("reg", "ext", "lab"):
        d["n"] = str(e.ref)
    elif k == "slc":
        d["x"] = xtree(e.x, depth + 1)
        d["pos"] = e.pos
    elif k == "comp":
        d["parts"] = [[lo, hi, xtree(p, depth + 1)] for (lo, hi), p in sorted(e.parts.items())]
    elif k == "tst":
        d["c"], d["l"], d["r"] = xtree(e.tst, depth + 1), xtree(e.l, depth + 1), xtree(e.r, depth + 1)
    elif k == "op":
        d["s"], d["l"], d["r"] = e.op.symbol, xtree(e.l, depth + 1), xtree(e.r, depth + 1)
    elif k == "uop":
        d["s"], d["r"] = e.op.symbol, xtree(e.r, depth + 1)
    elif k == "ptr":
        d["base"] = xtree(e.base, depth + 1)
        d["disp"] = e.disp if isinstance(e.disp, int) else xtree(e.disp, depth + 1)
        seg = e.seg
        d["seg"] = xtree(seg, depth + 1) if ser.is_exp(seg) else (seg if isinstance(seg, (str, int)) or seg is None else "obj")
    elif k == "mem":
        d["a"] = xtree(e.a, depth + 1)
        d["en"] = e.endian
        d["mods"] = len(e.mods or [])
    elif k == "vec":
        d["l"] = [xtree(x, depth + 1) for x in e.l]
    return d


def proj_ins(i):
    if i is None:
        return ""
    d = {}
    for k, v in vars(i).items():
        if k in ("spec", "address"):
            continue
        if k == "misc" and isinstance(v, dict):
            # misc is a defaultdict(None): a key holding None is what a missing key reads as
            v = dict((a, b) for a, b in v.items() if b is not None)
        d[k] = proj_value(v)
    return json.dumps(d, sort_keys=True, default=lambda o: "obj:" + type(o).__name__)


def observe_word(d, L, index, data, e):
    """one disassemble(data) on the real disassembler + the acceptance list of every prefix level"""
    import amoco.arch.core as core
    orig = install()
    data = bytes(data)
    # --- the real call -----------------------------------------------------------------------------
    setattr(d, "_disassembler__i", None)
    LOG.calls = []
    LOG.on = True
    out, real = "none", None
    try:
        real = d(data)
        out = "none" if real is None else "ins"
    except Exception as ex:
        out = "exc:" + type(ex).__name__
    finally:
        LOG.on = False
        setattr(d, "_disassembler__i", None)
    # which spec ended each level (a level = one remaining length; a prefix spec moves to the next one)
    chosen = {}
    tried = {}
    for (sid, n, r) in LOG.calls:
        if r != "maskrej":
            tried.setdefault(n, []).append(index.get(sid, 0))   # fixed bits matched: precondition / hook ran
        if r not in ("rej", "maskrej"):
            chosen[n] = (sid, r)
    by_id0 = dict((id(s), s) for s in L)
    lens = [len(data)]
    while True:
        ch = chosen.get(lens[-1])
        if ch is None or ch[1] != "acc" or ch[0] not in by_id0 or by_id0[ch[0]].pfx is not True:
            break
        nxt = lens[-1] - by_id0[ch[0]].mask.size // 8
        if nxt >= lens[-1] or nxt < 0:
            break
        lens.append(nxt)
    # --- the reference lists -----------------------------------------------------------------------
    by_id = dict((id(s), s) for s in L)

    def partial(upto):
        i = None
        for n in lens[:upto]:
            sid, r = chosen[n]
            i = orig(by_id[sid], data[len(data) - n:], e, i, d.iclass)
        return i
    levels = []
    ref = None
    refout = "none"
    for k, n in enumerate(lens):
        rest = data[len(data) - n:]
        acc = []
        cand = []
        try:
            part = partial(k)
        except Exception as ex:      # the real chain cannot be replayed: report it as an outcome mismatch
            refout = "exc-in-chain:" + type(ex).__name__
            break
        for idx, s in enumerate(L):
            try:
                r = orig(s, rest, e, part, d.iclass)
            except core.DecodeError:        # length / fixed bits: raised before anything is touched
                continue
            except core.InstructionError:
                cand.append(idx + 1)
                part = partial(k)
                continue
            except Exception:
                cand.append(idx + 1)
                acc.append(idx + 1)
                part = partial(k)
                continue
            cand.append(idx + 1)
            acc.append(idx + 1)
            part = partial(k)
        ch = chosen.get(n)
        levels.append({"bytes": list(rest[:48]), "cand": cand, "acc": acc, "tried": tried.get(n, []),
                       "chosen": index.get(ch[0], 0) if ch else 0})
    # --- the reference outcome: decode again along the chosen chain, fresh objects ------------------------
    if refout == "none" and levels:
        last = lens[-1]
        if last in chosen and all(n in chosen for n in lens):
            try:
                ref = partial(len(lens))
                if ref.spec.pfx is True:
                    # input ended inside the prefixes: the real call recursed on what is left and found nothing
                    ref = None
                elif ref.spec.pfx == "xdata":
                    ref.xdata(ref)
                refout = "ins" if ref is not None else "none"
            except Exception as ex:
                refout = "exc:" + type(ex).__name__
                ref = None
    return {"k": "dis", "levels": levels, "out": out, "real": out + "|" + proj_ins(real),
            "ref": refout + "|" + proj_ins(ref)}


def words_for_config(L, d, e, rng, per_spec, nrandom):
    maxlen = d.maxlen
    prefixes = [s for s in L if s.pfx is True]
    out = []

    def word_of(s, miss=False):
        size = s.fix.size
        w = (rng.getrandbits(size) & ~s.mask.ival) | s.fix.ival
        if miss and s.mask.ival:
            ones = positions(s.mask.ival)
            w ^= 1 << rng.choice(ones)
        b = [(w >> (8 * j)) & 0xFF for j in range(size // 8)]
        if e == -1:
            b.reverse()
        return b
    for s in L:
        for k in range(per_spec):
            b = word_of(s, miss=(k % 4 == 3))
            room = max(0, maxlen + 2 - len(b))
            b = b + [rng.randrange(256) for _ in range(rng.randrange(0, room + 1))]
            x = rng.random()
            if prefixes and x < 0.3:
                for _ in range(rng.choice((1, 1, 2, 3))):
                    b = word_of(rng.choice(prefixes)) + b
            elif x < 0.4:
                b = b[:rng.randrange(0, len(b) + 1)]
            out.append(b)
    for _ in range(nrandom):
        n = rng.randrange(0, maxlen + 3)
        out.append([rng.randrange(256) for _ in range(n)])
    out.append([])
    return out


def trace_config(args):
    """T: one trace per configuration of the cpu module; split in parts so that shards stay balanced"""
    modname, seed, per_spec, nrandom, part, nparts = args
    c03.quiet()
    try:
        M = importlib.import_module("amoco.arch." + modname)
    except Exception as ex:
        return {"isa": modname, "error": "%s: %s" % (type(ex).__name__, ex), "traces": []}
    d = M.disassemble
    cfgs, restore = configs(modname, M)
    traces = []
    try:
        ebuild = d.endian()
    except Exception:
        ebuild = 1
    buildmaxlen = max([s.mask.size // 8 for t in d.specs for s in c03.leaves(t)] or [0])
    for label, mode, e, setter in cfgs:
        rng = random.Random("%s/%s/%d" % (modname, label, seed))
        L = found_list(d, mode)
        index = dict((id(s), k + 1) for k, s in enumerate(L))
        ev = []
        tr = {"t": "%s/%s#%d" % (modname, label, part), "isa": modname, "label": label, "E": e, "Ebuild": ebuild,
              "maxlen": buildmaxlen, "callmaxlen": d.maxlen,
              "specs": [spec_row(s) for s in L], "nodes": [], "ev": ev,
              "formats": [s.format for s in L] if part == 0 else []}
        if part == 0:
            ev.append({"k": "tree"})
        try:
            setter()
            try:
                d(b"")      # the tree is dumped as it is once the configuration has been used
            except Exception:
                pass
            setattr(d, "_disassembler__i", None)
            tr["nodes"] = dump_tree(d.specs[mode], index)
            words = words_for_config(L, d, e, rng, per_spec, nrandom)
            for w in words[part::nparts]:
                ev.append(dict(observe_word(d, L, index, w, e), w=bytes(w).hex()))
        except Exception as ex:
            ev.append({"k": "raised", "what": "%s: %s" % (type(ex).__name__, ex)})
        finally:
            restore()
        traces.append(tr)
    return {"isa": modname, "traces": traces}


# ---------------------------------------------------------------------------------------------------
# G: the model's spec tables on a real disassembler

def real_leaves(tree):
    f, l = tree
    if f == 0:
        return 1
    return sum(real_leaves(l[k]) for k in l)


def replay_table(b, rng, serial):
    """-> (fails [(clause, what)], drifts [str], nwords)"""
    import amoco.arch.core as core
    name = "verif_c04_scratch_%d" % serial
    m = types.ModuleType(name)
    m.ISPECS = []
    sys.modules[name] = m
    fails, drifts = [], []
    try:
        for k, sp in enumerate(b["specs"]):
            fmt = "".join(map(chr, sp["fmt"]))

            def hook(obj, _ok=sp["hk"]):
                if not _ok:
                    raise core.InstructionError(obj)
            hook.__module__ = name
            s = core.ispec(fmt, mnemonic="S%d" % (k + 1))
            s(hook)
        if len(m.ISPECS) != len(b["specs"]):
            return [("build", "only %d of %d specs were registered" % (len(m.ISPECS), len(b["specs"])))], drifts, 0
        e = b["endian"]
        d = core.disassembler([m], endian=(lambda: e))
        if d.maxlen != b["maxlen"]:
            fails.append(("maxlen", "maxlen %r, model %r" % (d.maxlen, b["maxlen"])))
        if b["callmaxlen"] != d.maxlen:
            d.maxlen = b["callmaxlen"]      # raised after construction, as cpu_x86 / cpu_msp430 / dwarf do
        if (d.specs[0][0] == 0) != b["leaf"] or real_leaves(d.specs[0]) != b["nleaves"]:
            drifts.append("tree shape differs from the model's Build (root leaf / number of leaves)")
        U = b["U"]
        n = 0
        for wc in b["words"]:
            data = bytes([(u | (rng.getrandbits(8 - U) << U)) & 0xFF for u in wc["w"]])
            n += 1
            try:
                i = d(data)
                win = 0 if i is None else int(i.mnemonic[1:])
                got = win
            except Exception as ex:
                got = "exc:" + type(ex).__name__
            if got != wc["win"]:
                fails.append(("winner", "endian %d specs %r input units %r (bytes %s): disassembler chose %r, most-constrained-first scan %r"
                              % (e, ["".join(map(chr, sp["fmt"])) + ("" if sp["hk"] else " (hook rejects)") for sp in b["specs"]],
                                 wc["w"], data.hex(), got, wc["win"])))
                if len(fails) > 2:
                    break
        return fails, drifts, n
    finally:
        sys.modules.pop(name, None)


def replay_chunk(args):
    from . import tlc
    path, lo, hi, seed = args
    c03.quiet()
    rng = random.Random("c04g/%d/%d" % (seed, lo))
    out = {"n": 0, "words": 0, "fails": [], "drifts": {}, "sample": None, "split": 0, "keys": []}
    serial = lo
    for b in tlc.iter_spool_range(path, lo, hi):
        serial += 1
        out["n"] += 1
        fails, drifts, n = replay_table(b, rng, serial)
        out["words"] += n
        if not b["leaf"]:
            out["split"] += 1
            out["keys"].append(hash(json.dumps(b["specs"], sort_keys=True)) & 0xFFFFFFFF)
        for clause, what in fails[:2]:
            if len(out["fails"]) < 10:
                out["fails"].append({"clause": clause, "what": what, "behaviour": b})
        for x in drifts:
            out["drifts"][x] = out["drifts"].get(x, 0) + 1
        if out["sample"] is None and not b["leaf"]:
            out["sample"] = {"endian": b["endian"], "specs": ["".join(map(chr, sp["fmt"])) for sp in b["specs"]],
                             "word": b["words"][-1]}
    return out
