"""C03 drivers/replayers: the ispec format language of amoco/arch/core.py.

Everything here is deliberately dumb:
  * ISA_MODULES       the vendored list of importable cpu modules (DESIGN.md section 4, "ISA scope")
  * dump_layout(s)    reads ispec.size/fix/mask/pfx and the (p, q[, x]) defaults of the extractor closures
  * observe_decode()  calls the real ispec.decode with a recording hook and projects what the hook /
                      the instruction received to plain data (ints -> bit lists, Bits -> (size, bits), str)
  * trace_isa()       T: one trace per shipped spec = layout dump + decodes of seeded words
  * replay_formats()  G: TLC-generated formats and words through ispec(fmt)(hook) / ispec_ia32 and
                      .decode(); compares with the layout / acceptance / field values TLC put in the record
No expected value is computed here: the oracle is IspecLang!Doc evaluated by TLC (IspecTrace.tla for
T, the generator Ispec.tla for G).
"""
import importlib
import logging
import random
import sys
import types

# importable on the pinned tree (avr.cpu, ppc32.cpu_e200, superh.cpu_sh4 fail at import: out of scope)
ISA_MODULES = [
    "arm.cpu_armv7", "arm.cpu_armv8", "dwarf.cpu", "eBPF.cpu", "eBPF.cpu_bpf", "mips.cpu_r3000",
    "mips.cpu_r3000LE", "msp430.cpu", "pic.cpu_pic18f46k22", "ppc32.cpu", "riscv.cpu_rv32i",
    "riscv.cpu_rv64i", "sparc.cpu_v8", "superh.cpu_sh2", "tricore.cpu", "v850.cpu_v850e2s",
    "w65c02.cpu", "wasm.cpu", "x64.cpu_x64", "x86.cpu_x86", "z80.cpu_gb", "z80.cpu_z80",
]
MIN_SPECS = 5000  # sanity: the pinned tree ships 5137 specs in these modules


def jvm_env(gcthreads, extra=None):
    """environment for tlc.run: many small JVMs run side by side (trace shards, parallel model runs); the
    JVM's default of one GC / JIT thread per core per JVM only makes them fight for the cores"""
    e = {"JAVA_TOOL_OPTIONS": "-XX:ParallelGCThreads=%d -XX:CICompilerCount=2" % max(1, gcthreads)}
    if extra:
        e.update(extra)
    return e


class _Collect(logging.Handler):
    def __init__(self):
        logging.Handler.__init__(self, logging.ERROR)
        self.msgs = []

    def emit(self, record):
        try:
            self.msgs.append(record.getMessage())
        except Exception:
            self.msgs.append("?")


COLLECT = _Collect()


def quiet():
    """amoco reports 'ispec ...' errors through its own logger (one shared stderr handler): silence the
    handler, keep the reports observable in COLLECT.msgs."""
    from amoco.logger import Log
    import amoco.arch.core as core
    for l in Log.loggers.values():
        for h in l.handlers:
            if h is not COLLECT:
                h.setLevel(logging.CRITICAL + 1)
    if COLLECT not in core.logger.handlers:
        core.logger.addHandler(COLLECT)


def bits_min(v):
    out = []
    while v:
        out.append(v & 1)
        v >>= 1
    return out


def bits_n(v, n):
    return [(v >> i) & 1 for i in range(n)]


def cps(s):
    return [ord(c) for c in s]


def leaves(tree):
    f, l = tree
    if f == 0:
        for s in l:
            yield s
    else:
        for k in l:
            for s in leaves(l[k]):
                yield s


def isa_specs(modname):
    """[(mode index, [ispec...])] of a cpu module, read from the disassembler's tree leaves."""
    M = importlib.import_module("amoco.arch." + modname)
    d = M.disassemble
    return M, d, [(k, list(leaves(t))) for k, t in enumerate(d.specs)]


def pfx_name(p):
    if p is True:
        return "prefix"
    if p == "xdata":
        return "xdata"
    if p is False:
        return "none"
    return "other:%r" % (p,)


def extractors(s):
    """the closures buildspec stored in fargs / iattr: name -> (dest, f)"""
    import amoco.arch.core as core
    corefile = core.ispec.buildspec.__code__.co_filename
    out = []
    for dest, D in (("arg", s.fargs), ("attr", s.iattr)):
        for k, v in D.items():
            if isinstance(v, types.FunctionType) and v.__code__.co_filename == corefile \
                    and v.__code__.co_name == "<lambda>" and v.__defaults__ is not None:
                out.append((k, dest, v))
    return out


def dump_layout(s):
    ex = []
    for name, dest, f in extractors(s):
        dfl = f.__defaults__
        names = f.__code__.co_names
        if "str" in names:
            kind = "str"
        elif "ival" in names:
            kind = "int"
        else:
            kind = "bits"
        p, q = dfl[0], dfl[1]
        x = dfl[2] if len(dfl) > 2 else 1
        ex.append({"name": cps(name), "dest": dest, "repr": kind, "rev": bool(kind == "str" and x == -1),
                   "lo": p, "hi": -1 if q is None else q})
    return {"k": "layout", "size": s.size, "n": s.fix.size, "fix": bits_n(s.fix.ival, s.fix.size),
            "mask": bits_n(s.mask.ival, s.mask.size), "pfx": pfx_name(s.pfx), "ex": ex}


def proj(v):
    from amoco.arch.core import Bits
    if isinstance(v, bool):
        return {"r": "other:bool", "n": 0, "b": []}
    if isinstance(v, int):
        if v < 0:
            return {"r": "other:negative", "n": 0, "b": []}
        return {"r": "int", "n": 0, "b": bits_min(v)}
    if isinstance(v, Bits):
        return {"r": "bits", "n": v.size, "b": bits_min(v.ival)}
    if isinstance(v, str):
        return {"r": "str", "n": len(v), "b": cps(v)}
    return {"r": "other:" + type(v).__name__, "n": 0, "b": []}


class Recorder(object):
    """the recording setup function: keeps what it was called with"""

    def __init__(self, reject=False):
        self.kargs = None
        self.obj = None
        self.reject = reject
        self.calls = 0

    def __call__(self, obj, **kargs):
        self.calls += 1
        self.obj = obj
        self.kargs = dict(kargs)
        if self.reject:
            from amoco.arch.core import InstructionError
            raise InstructionError(obj)


def observe_decode(s, data, endian, rec=None, i=None):
    """call the real ispec.decode on real spec s with a recording hook (hook and precondition are put
    back afterwards); returns the decode event."""
    from amoco.arch.core import DecodeError, InstructionError, instruction
    own = rec is None
    if own:
        rec = Recorder()
    saved = (s.hook, s.precond)
    s.hook, s.precond = rec, None
    ev = {"k": "decode", "bytes": list(data), "endian": endian, "got": [], "ibytes": []}
    try:
        try:
            ins = s.decode(bytes(data), endian, i=i, iclass=instruction)
        except DecodeError:
            ev["out"] = "rej"
            return ev
        except InstructionError:
            ev["out"] = "hookrej"
            return ev
        except Exception as e:  # an observation, not a harness failure
            ev["out"] = "exc:" + type(e).__name__
            return ev
        ev["out"] = "acc"
        ev["ibytes"] = list(ins.bytes)
        got = []
        exnames = set()
        for name, dest, f in extractors(s):
            exnames.add((name, dest))
            if dest == "arg":
                if rec.kargs is not None and name in rec.kargs:
                    got.append({"name": cps(name), "dest": dest, "val": proj(rec.kargs[name])})
            else:
                if hasattr(ins, name):
                    got.append({"name": cps(name), "dest": dest, "val": proj(getattr(ins, name))})
        ev["got"] = got
        # constants given to the decorator must arrive untouched
        consts_ok = rec.calls == 1 and rec.obj is ins
        for k, v in s.fargs.items():
            if (k, "arg") not in exnames:
                consts_ok = consts_ok and (rec.kargs is not None and k in rec.kargs and rec.kargs[k] is v)
        for k, v in s.iattr.items():
            if (k, "attr") not in exnames:
                consts_ok = consts_ok and getattr(ins, k, None) is v
        if rec.kargs is not None:
            consts_ok = consts_ok and set(rec.kargs) == set(s.fargs)
        ev["consts"] = bool(consts_ok)
        return ev
    finally:
        s.hook, s.precond = saved


def words_for(s, rng, n):
    """seeded instruction words for a real spec: matching words with random free bits, near misses,
    random bytes, trailing bytes, truncations; both fetch endiannesses for fixed-length specs."""
    size = s.fix.size
    blen = size // 8
    fix, mask = s.fix.ival, s.mask.ival
    var = s.size == 0
    out = []
    for k in range(n):
        x = rng.random()
        endian = 1 if var else rng.choice((1, -1))
        w = (rng.getrandbits(size) & ~mask) | fix if size else 0
        if x < 0.25 and mask:
            ones = [b for b in range(size) if (mask >> b) & 1]
            w ^= 1 << rng.choice(ones)
        elif x < 0.35:
            w = rng.getrandbits(size) if size else 0
        data = [(w >> (8 * j)) & 0xFF for j in range(blen)]
        if endian == -1:
            data.reverse()
        # variable-length specs take every remaining byte: also inputs of 17 / 24 / 40 bytes in all
        ntail = rng.choice((0, 0, 1, 2, 3)) if not var else rng.choice((0, 1, 2, 4, 6, 17 - blen, 24 - blen, 40 - blen))
        data += [rng.randrange(256) for _ in range(max(0, ntail))]
        if var and ntail > 6:
            data[-1] = data[-1] | 0x81      # a shortened tail must change the value in every form
        if rng.random() < 0.05 and blen > 0:
            data = data[:blen - 1]
        out.append((data, endian))
    return out


def trace_isa(args):
    """T: one trace per (deduplicated) shipped spec of the cpu module"""
    modname, seed, nwords, seen_formats = args
    quiet()
    rng = random.Random("%s/%d" % (modname, seed))
    try:
        M, d, modes = isa_specs(modname)
    except Exception as e:
        return {"isa": modname, "error": "%s: %s" % (type(e).__name__, e), "traces": []}
    traces = []
    seen = set()
    for mode, specs in modes:
        for idx, s in enumerate(specs):
            if id(s) in seen:
                continue
            seen.add(id(s))
            ev = []
            try:
                ev.append(dump_layout(s))
                for data, endian in words_for(s, rng, nwords):
                    ev.append(observe_decode(s, data, endian))
            except Exception as e:
                ev.append({"k": "raised", "what": "%s: %s" % (type(e).__name__, e)})
            traces.append({"t": "%s/%d/%d" % (modname, mode, idx), "fmt": cps(s.format), "ev": ev,
                           "cls": type(s).__name__, "hook": getattr(s.hook, "__name__", "?")})
    return {"isa": modname, "traces": traces, "modes": len(modes)}


def macro_sources(args):
    """T (ia32 macro): the format strings as written in the x86 / x64 spec files (arguments of
    @ispec_ia32) and the formats of the registered objects of the same cpu module"""
    import re
    modname = args
    quiet()
    try:
        M, d, modes = isa_specs(modname)
    except Exception as e:
        return {"isa": modname, "error": "%s: %s" % (type(e).__name__, e), "origs": [], "formats": []}
    files, formats = set(), set()
    for mode, specs in modes:
        for s in specs:
            formats.add(s.format)
            m = sys.modules.get(getattr(s.hook, "__module__", ""))
            if m is not None and getattr(m, "__file__", None):
                files.add(m.__file__)
    origs = []
    for f in sorted(files):
        with open(f) as fh:
            src = fh.read()
        for mo in re.finditer(r'@ispec_ia32\(\s*"([^"\\]*)"', src):
            origs.append(mo.group(1))
    return {"isa": modname, "origs": sorted(set(origs)), "formats": sorted(formats)}


# ---------------------------------------------------------------------------------------------------
# G: spec -> code

SCRATCH = "verif_c03_scratch"


def scratch_module():
    m = sys.modules.get(SCRATCH)
    if m is None:
        m = types.ModuleType(SCRATCH)
        m.ISPECS = []
        sys.modules[SCRATCH] = m
    return m


def spec_class(cls):
    if cls == "core":
        from amoco.arch.core import ispec
        return ispec
    if cls == "x86":
        from amoco.arch.x86.utils import ispec_ia32
        return ispec_ia32
    if cls == "x64":
        from amoco.arch.x64.utils import ispec_ia32
        return ispec_ia32
    raise ValueError(cls)


class HookRec(object):
    """state shared with the recording setup function of one decode call"""
    __slots__ = ("kargs", "obj", "attrs", "calls", "reject", "attrnames")

    def __init__(self, attrnames, reject):
        self.kargs = None
        self.obj = None
        self.attrs = {}
        self.calls = 0
        self.reject = reject
        self.attrnames = attrnames


def build(fmt, cls):
    """ispec(fmt, vmn=..., _vk=...)(recording hook) in the scratch module"""
    m = scratch_module()
    del m.ISPECS[:]
    box = [None]

    def hook(obj, **kargs):
        r = box[0]
        r.calls += 1
        r.obj = obj
        r.kargs = dict(kargs)
        r.attrs = dict((k, getattr(obj, k)) for k in r.attrnames if hasattr(obj, k))
        if r.reject:
            from amoco.arch.core import InstructionError
            raise InstructionError(obj)

    hook.__module__ = SCRATCH
    K = spec_class(cls)
    del COLLECT.msgs[:]
    s = K(fmt, vmn=CONST_ATTR, _vk=CONST_ARG)
    s(hook)
    errs = [x for x in COLLECT.msgs if "not found in decorated function" not in x]
    return s, box, errs


CONST_ATTR = ("attr-constant",)
CONST_ARG = ["arg-constant"]


def canon_fields(lst):
    return sorted((tuple(x["name"]), x["dest"], x["repr"], bool(x["rev"]), x["lo"], x["hi"]) for x in lst)


def canon_got(lst):
    return sorted((tuple(x["name"]), x["dest"], x["val"]["r"], x["val"]["n"], tuple(x["val"]["b"])) for x in lst)


def replay_case(s, box, c):
    """one TLC case on the real spec: returns the list of (clause, got, expected)"""
    from amoco.arch.core import DecodeError, InstructionError, instruction
    ex = extractors(s)
    attrnames = [n for (n, d, f) in ex if d == "attr"]
    argnames = [n for (n, d, f) in ex if d == "arg"]
    rec = HookRec(attrnames, c["hook"] == "reject")
    box[0] = rec
    pre = bytes(c["pre"])
    i0 = instruction(pre) if pre else None
    ins = None
    try:
        ins = s.decode(bytes(c["bytes"]), c["endian"], i=i0, iclass=instruction)
        out = "acc"
    except DecodeError:
        out = "rej"
        ins = i0
    except InstructionError as e:
        out = "hookrej"
        ins = e.ins
    except Exception as e:
        out = "exc:" + type(e).__name__
    bad = []
    if out != c["out"]:
        bad.append(("accept", out, c["out"]))
        return bad
    got = []
    if out in ("acc", "hookrej"):
        for n in argnames:
            if rec.kargs is not None and n in rec.kargs:
                got.append({"name": cps(n), "dest": "arg", "val": proj(rec.kargs[n])})
        src = rec.attrs if out == "hookrej" else dict((k, getattr(ins, k)) for k in attrnames if hasattr(ins, k))
        for n in attrnames:
            if n in src:
                got.append({"name": cps(n), "dest": "attr", "val": proj(src[n])})
        if canon_got(got) != canon_got(c["got"]):
            bad.append(("delivered", canon_got(got), canon_got(c["got"])))
        # constants of the decorator arrive untouched, nothing else arrives
        if rec.kargs is None or rec.kargs.get("_vk") is not CONST_ARG or set(rec.kargs) != set(argnames) | {"_vk"}:
            bad.append(("constants", sorted(rec.kargs or []), sorted(argnames + ["_vk"])))
        if out == "acc" and getattr(ins, "vmn", None) is not CONST_ATTR:
            bad.append(("constants", "vmn", "attr-constant"))
    ib = list(ins.bytes) if ins is not None else []
    if ib != c["ibytes"]:
        bad.append(("bytes" if out == "acc" else "rollback", ib, c["ibytes"]))
    if ins is not None:
        after = sorted(cps(n) for n in attrnames if hasattr(ins, n))
        if after != sorted(c["attrs_after"]):
            bad.append(("rollback" if out == "hookrej" else "delivered", after, sorted(c["attrs_after"])))
    return bad


def replay_behaviour(b):
    """-> (fails [(clause, what)], drifts [str], ncases, signature)"""
    fmt = "".join(map(chr, b["fmt"]))
    fails, drifts = [], []
    try:
        s, box, errs = build(fmt, b["cls"])
    except Exception as e:
        return [("build", "ispec(%r) raised %s: %s" % (fmt, type(e).__name__, e))], drifts, 0
    if errs:
        drifts.append("buildspec logged an error on a well-formed format")
    lay = b["lay"]
    obs = dump_layout(s)
    if s.format != "".join(map(chr, b["seen"])):
        fails.append(("macro", "%s(%r).format = %r, expected %r" % (b["cls"], fmt, s.format, "".join(map(chr, b["seen"])))))
    for k, clause in (("size", "size"), ("n", "size"), ("mask", "mask"), ("fix", "fix"), ("pfx", "suffix")):
        if obs[k] != lay[k]:
            fails.append((clause, "%r: %s = %r, documented %r" % (fmt, k, obs[k], lay[k])))
    if canon_fields(obs["ex"]) != canon_fields(lay["ex"]):
        fails.append(("fields", "%r: extractors %r, documented %r" % (fmt, canon_fields(obs["ex"]), canon_fields(lay["ex"]))))
    n = 0
    if not fails:
        for c in b["cases"]:
            n += 1
            for clause, got, exp in replay_case(s, box, c):
                fails.append((clause, "%r decode(%s, endian=%d, pre=%s, hook=%s): %s: got %r, documented %r"
                              % (fmt, bytes(c["bytes"]).hex(), c["endian"], bytes(c["pre"]).hex(), c["hook"],
                                 clause, got, exp)))
            if len(fails) > 3:
                break
    return fails, drifts, n


def replay_chunk(args):
    from . import tlc
    path, lo, hi = args
    quiet()
    out = {"n": 0, "cases": 0, "fails": [], "drifts": {}, "formats": [], "sample": None, "kinds": {}}
    for b in tlc.iter_spool_range(path, lo, hi):
        out["n"] += 1
        fails, drifts, n = replay_behaviour(b)
        out["cases"] += n
        fmt = "".join(map(chr, b["fmt"]))
        out["formats"].append(fmt)
        for clause, what in fails[:3]:
            if len(out["fails"]) < 20:
                out["fails"].append({"clause": clause, "what": what, "behaviour": b if len(out["fails"]) < 3 else fmt})
        for d in drifts:
            out["drifts"][d] = out["drifts"].get(d, 0) + 1
        if out["sample"] is None and len(b["cases"]) > 2:
            out["sample"] = {"format": fmt, "class": b["cls"], "layout": {"size": b["lay"]["n"], "pfx": b["lay"]["pfx"],
                             "fields": [["".join(map(chr, x["name"])), x["dest"], x["repr"], x["lo"], x["hi"]] for x in b["lay"]["ex"]]},
                             "case": b["cases"][2]}
    return out
