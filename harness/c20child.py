"""C20 replayer child:  python -m harness.c20child <batch.json> <out.ndjson>

Runs amoco.system.core.read_program on every input of the batch, in this one process (many inputs per child;
the parent only isolates an input when the child dies on it), and records for each input
  * the chain, as read_program's OWN log lines tell it (a logging handler on amoco.system.core's logger): one
    event per line, with the exception being handled at that moment (sys.exc_info) and the position of the file
    cursor (the local `f` of the read_program frame),
  * how the call ended: type of the returned object / type of the escaping exception and the innermost amoco
    frame of its traceback,
  * the bounded-liveness surrogates of "no unbounded loop / allocation": a CPU-time limit per input
    (ITIMER_PROF, so that a loaded machine cannot cause a false timeout), RLIMIT_AS, and any MemoryError /
    RecursionError RAISED during the call, even if some except clause swallowed it (sys.monitoring RAISE).
    (A peak-RSS criterion was tried and dropped: ru_maxrss is a high-water mark of the whole child, so whether an
    input trips it depends on the inputs that ran before it.)
Nothing is judged here; the events go to specs/IdentTrace.tla."""
import hashlib
import json
import logging
import os
import resource
import signal
import sys

RESULT_FORMAT = {"Elf": "ELF", "PE": "PE", "MachO": "MachO", "COFF": "COFF", "HEX": "HEX", "SREC": "SREC",
                 "shellcode": "raw"}
REJECT_LINES = (("ElfError raised", "ELF"), ("PEError raised", "PE"), ("MachOError raised", "MachO"),
                ("COFFError raised", "COFF"), ("HEX FormatError raised", "HEX"), ("SREC FormatError raised", "SREC"))
ACCEPT_LINES = (("ELF format detected", "ELF"), ("PE format detected", "PE"), ("Mach-O format detected", "MachO"),
                ("COFF format detected", "COFF"), ("HEX format detected", "HEX"), ("SREC format detected", "SREC"),
                ("unknown format", "raw"))
STAGE_MODULE = {"ELF": "system/elf.py", "PE": "system/pe.py", "MachO": "system/macho.py", "COFF": "system/coff.py",
                "HEX": "system/structs/HEX.py", "SREC": "system/structs/SREC.py"}
ORDER = ("ELF", "PE", "MachO", "COFF", "HEX", "SREC")
AS_LIMIT = 1 << 30


class _Timeout(BaseException):
    pass


class State(object):
    ev = None
    logres = None
    fired = 0
    where = None
    exh = None
    wstage = None
    active = False


S = State()


def tname(t):
    m = getattr(t, "__module__", "builtins")
    if m == "builtins" or m.startswith("amoco."):
        return t.__name__
    return "%s.%s" % (m, t.__name__)


def relname(fn):
    """path of a source file relative to the amoco package"""
    return fn.rsplit("/amoco/", 1)[1] if "/amoco/" in fn else os.path.basename(fn)


def amoco_frames_of(frame):
    """[(file, function)] innermost first, amoco frames only, from a live frame"""
    out = []
    while frame is not None:
        fn = frame.f_code.co_filename
        if "/amoco/" in fn:
            out.append((relname(fn), frame.f_code.co_qualname))
        frame = frame.f_back
    return out


STAGE_CLASSES = {"ELF": ("Elf.",), "PE": ("PE.",), "MachO": ("MachO.",), "COFF": ("COFF.",),
                 "HEX": ("HEX.", "HEXline."), "SREC": ("SREC.", "SRECline.")}


def pick_frame(frames, stage):
    """the frame a finding is keyed with: the innermost amoco frame (file relative to the package : qualified
    function name); for a timeout the innermost method of the stage's parser class (the loop that does not end),
    since the deeper frames only say where the timer happened to fire"""
    mod = STAGE_MODULE.get(stage)
    for f in frames:
        if f[0] == mod and f[1].startswith(STAGE_CLASSES[stage]):
            return "%s:%s" % f
    return "%s:%s" % frames[0] if frames else "?:?"


class ChainHandler(logging.Handler):
    def emit(self, record):
        if not S.active:
            return
        try:
            msg = record.getMessage()
        except Exception:
            msg = str(record.msg)
        for pat, f in REJECT_LINES:
            if pat in msg:
                et = sys.exc_info()[0]
                cur = -1
                fr = sys._getframe()
                while fr is not None:
                    if fr.f_code.co_name == "read_program":
                        fo = fr.f_locals.get("f")
                        try:
                            cur = int(fo.tell())
                        except Exception:
                            cur = -1
                        break
                    fr = fr.f_back
                S.ev.append({"a": "reject", "f": f, "e": tname(et) if et else "none", "cur": cur})
                return
        for pat, f in ACCEPT_LINES:
            if pat in msg:
                S.logres = f
                return


def on_prof(sig, frame):
    S.fired += 1
    if S.where is None:
        S.where = amoco_frames_of(frame)
        S.wstage = stage_of(S.ev)
    raise _Timeout()


def on_raise(code, offset, exc):
    if S.active and isinstance(exc, (MemoryError, RecursionError)) and S.exh is None:
        S.exh = (tname(type(exc)), relname(code.co_filename), code.co_qualname)
        S.wstage = stage_of(S.ev)


def setup(cwd):
    import amoco.system.core as core
    lg = core.logger
    for h in list(lg.handlers):
        h.setLevel(logging.CRITICAL + 10)  # the shared stream handler of every amoco logger: keep quiet
    lg.setLevel(logging.DEBUG)
    lg._cache.clear()  # amoco's Log objects are not registered with logging's manager: setLevel leaves the cache stale
    lg.addHandler(ChainHandler(level=logging.DEBUG))
    signal.signal(signal.SIGPROF, on_prof)
    mon = sys.monitoring
    mon.use_tool_id(mon.PROFILER_ID, "c20")
    mon.register_callback(mon.PROFILER_ID, mon.events.RAISE, on_raise)
    mon.set_events(mon.PROFILER_ID, mon.events.RAISE)
    # the format modules are imported inside read_program on first use (1-2 s of CPU): not part of any input's time
    from amoco.system import elf, pe, macho, coff
    from amoco.system.structs import HEX, SREC
    os.makedirs(cwd, exist_ok=True)
    os.chdir(cwd)  # read_program(bytes) first tries open(bytes): nothing to find in this empty directory
    resource.setrlimit(resource.RLIMIT_AS, (AS_LIMIT, AS_LIMIT))
    return core


def guarded(fn, cpu):
    """run fn() under the limits -> (result or None, exception or None, cpu seconds)"""
    S.ev, S.logres, S.fired, S.where, S.exh = [], None, 0, None, None
    r0 = resource.getrusage(resource.RUSAGE_SELF)
    res = exc = None
    done = False
    S.active = True
    try:
        try:
            signal.setitimer(signal.ITIMER_PROF, cpu, 0.25)
            res = fn()
            done = True
            signal.setitimer(signal.ITIMER_PROF, 0)
        except _Timeout:
            pass
        except BaseException as e:  # an observation, not a harness failure
            signal.setitimer(signal.ITIMER_PROF, 0)
            done = True
            exc = e
        finally:
            signal.setitimer(signal.ITIMER_PROF, 0)
    except _Timeout:
        pass
    S.active = False
    r1 = resource.getrusage(resource.RUSAGE_SELF)
    cput = (r1.ru_utime + r1.ru_stime) - (r0.ru_utime + r0.ru_stime)
    jump = r1.ru_maxrss - r0.ru_maxrss
    return res, exc, done, cput, jump


def stage_of(ev):
    n = len([e for e in ev if e["a"] == "reject"])
    return ORDER[n] if n < 6 else "raw"


def finish_events(res, exc, done, jump, data=b""):
    """append the terminal event; -> (events, info)"""
    ev = list(S.ev)
    info = {}
    stage = stage_of(ev)
    if S.fired or S.exh is not None:
        stage = S.wstage or stage
    if S.fired:
        ev.append({"a": "timeout", "f": "-", "e": "-", "cur": 0})
        info = {"kind": "timeout", "stage": stage, "exc": "cpu-limit", "frame": pick_frame(S.where or [], stage),
                "swallowed_by_bare_except": bool(done)}
    elif S.exh is not None:
        ev.append({"a": "exhaust", "f": "-", "e": S.exh[0], "cur": 0})
        info = {"kind": "exhaust", "stage": stage, "exc": S.exh[0], "frame": "%s:%s" % (S.exh[1], S.exh[2]),
                "escaped": exc is not None, "rss_jump_kb": jump}
    elif exc is not None:
        fr, tb = [], exc.__traceback__
        while tb is not None:
            co = tb.tb_frame.f_code
            if "/amoco/" in co.co_filename:
                fr.append((relname(co.co_filename), co.co_qualname))
            tb = tb.tb_next
        fr.reverse()
        ev.append({"a": "raise", "f": "-", "e": tname(type(exc)), "cur": 0})
        info = {"kind": "raise", "stage": stage, "exc": tname(type(exc)), "frame": pick_frame(fr, None),
                "msg": str(exc)[:120]}
    else:
        cls = type(res).__name__
        f = RESULT_FORMAT.get(cls, "?" + cls)
        e = {"a": "raw" if f == "raw" else "accept", "f": "-" if f == "raw" else f, "e": "-", "cur": 0}
        if f in ("ELF", "PE", "MachO"):  # what their magic gates look at (read off the input, judged by Ident!MagicOK)
            e["h"] = list(data[:4])
            lfanew = int.from_bytes(data[60:64], "little") if data[:2] == b"MZ" and len(data) >= 64 else -1
            e["g"] = list(data[lfanew:lfanew + 4]) if lfanew >= 0 else []
        ev.append(e)
        info = {"kind": "return", "result": f, "logres": S.logres or "none"}
    return ev, info


def main():
    batch = json.load(open(sys.argv[1]))
    from harness import c20
    bases, _ = c20.load_bases()
    byid = dict((b["id"], b) for b in bases)
    core = setup(batch["cwd"])
    from amoco.system.core import DataIO
    cpu = batch["cpu"]
    out = open(sys.argv[2], "a")
    for ci, case in batch["cases"]:
        data = c20.concretise(case, byid)
        rec = {"c": ci, "len": len(data), "sha": hashlib.sha1(data).hexdigest()[:16]}
        out.write(json.dumps({"c": ci, "begin": 1}) + "\n")
        out.flush()
        if case.get("mode") == "parser":
            evs = []
            for f in ORDER:
                def call(f=f):
                    if f == "ELF":
                        from amoco.system import elf
                        return elf.Elf(DataIO(data))
                    if f == "PE":
                        from amoco.system import pe
                        return pe.PE(DataIO(data))
                    if f == "MachO":
                        from amoco.system import macho
                        return macho.MachO(DataIO(data))
                    if f == "COFF":
                        from amoco.system import coff
                        return coff.COFF(DataIO(data))
                    if f == "HEX":
                        from amoco.system.structs.HEX import HEX
                        return HEX(DataIO(data))
                    from amoco.system.structs.SREC import SREC
                    return SREC(DataIO(data))
                res, exc, done, cput, jump = guarded(call, cpu)
                o = "hang" if S.fired else (tname(type(exc)) if exc is not None else "accept")
                evs.append({"a": "parser", "f": f, "e": o, "cur": 0})
            rec["parser"] = evs
        else:
            res, exc, done, cput, jump = guarded(lambda: core.read_program(data), cpu)
            rec["ev"], rec["info"] = finish_events(res, exc, done, jump, data)
            rec["cpu"] = round(cput, 4)
        out.write(json.dumps(rec, separators=(",", ":")) + "\n")
        out.flush()
    out.write(json.dumps({"end": 1}) + "\n")
    out.close()


if __name__ == "__main__":
    main()
