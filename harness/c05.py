"""C05 driver: call families around one input, recorded as observations <<mode, input, outcome>> for
specs/DecoderTrace.tla (clauses Consumes / PrefixDetermined / Window / Functional).

For an input b with d(b) = o of length n the family is
    d(b), d(b[:n]), d(b[:n-1]), d(b[:n] + t) for three replacement suffixes t, d(b[:maxlen]), d(b) again.
The driver only performs the calls and fingerprints what comes back (harness.dec_common.outcome: bytes,
length, mnemonic, fingerprint of the whole instance dictionary - operands' trees, misc, spec, type);
whether two outcomes must be equal is decided by TLC.
"""
import random

from . import dec_common as D


def suffixes(rng, b, n, maxlen):
    """three replacement tails for b[n:]: random; the original tail with its first byte complemented;
    a constant tail of 0x00 or 0xff (whichever the original does not start with)"""
    t1 = bytes(rng.getrandbits(8) for _ in range(rng.randrange(1, maxlen + 3)))
    rest = b[n:]
    if rest:
        t2 = bytes([rest[0] ^ 0xFF]) + rest[1:]
        t3 = (b"\xff" if rest[0] == 0 else b"\x00") * (maxlen + 2)
    else:
        t2 = b"\x00"
        t3 = b"\xff" * (maxlen + 2)
    return [t1, t2, t3]


def family(isa, rng, b):
    maxlen = isa.maxlen
    ev = []
    seen = set()

    def call(x, what, again=False):
        x = bytes(x)
        if x in seen and not again:
            return None
        seen.add(x)
        i, o = D.decode(isa, x)
        e = {"in": list(x), "out": o, "what": what}
        if i is not None:
            e["sp"] = " ".join(i.spec.format.split())
            h = i.spec.hook
            e["hook"] = "%s:%s" % (h.__module__.replace("amoco.arch.", ""), h.__name__)
        ev.append(e)
        return o

    o = call(b, "d(b)")
    if o["k"] == "raised":
        return ev       # C17's subject; nothing to relate (and a call that hangs is not repeated 8 times)
    if o["k"] == "instr":
        n = o["len"]
        if 1 <= n <= len(b):
            call(b[:n], "d(b[:n])")
            if n >= 2:
                call(b[:n - 1], "d(b[:n-1])")
            for k, t in enumerate(suffixes(rng, b, n, maxlen)):
                call(b[:n] + t, "d(b[:n]+t%d)" % (k + 1))
    else:
        # no instruction: nothing is claimed about b itself, but its truncations / window are still inputs
        if len(b) > 1:
            call(b[:rng.randrange(1, len(b))], "d(b[:k])")
    if len(b) > maxlen:
        call(b[:maxlen], "d(b[:maxlen])")
    call(b, "d(b) again", again=True)
    return ev


def run_chunk(args):
    """worker: (isa, mode, lo, hi, fillings, nrandom, seed) -> traces (one per family)"""
    from . import c17
    isa_name, mode, lo, hi, fillings, nrandom, seed = args
    D.watchdog_init()
    D.mute_stdout()
    try:
        isa = D.Isa(isa_name, mode)
    except Exception as ex:
        return {"isa": isa_name, "mode": mode, "import_error": "%s: %s" % (type(ex).__name__, ex), "traces": []}
    D.quiet()
    rng = random.Random("c05/%s/%s/%d/%d" % (isa_name, mode, lo, seed))
    specs = list(enumerate(isa.specs()))[lo:hi]
    traces = []
    hung = {}
    for src, b in c17.gen_inputs(isa, rng, specs, fillings, nrandom):
        sp = src.rsplit(":", 1)[0]
        if hung.get(sp, 0) >= c17.MAX_TIMEOUTS_PER_SPEC:
            continue            # two inputs of this spec already ran into the watchdog
        ev = family(isa, rng, b)
        if any(e["out"].get("exc") == "Timeout" for e in ev):
            hung[sp] = hung.get(sp, 0) + 1
        traces.append({"kind": "c05", "m": "%s/%s" % (isa_name, mode), "maxlen": isa.maxlen, "src": src, "ev": ev})
    return {"isa": isa_name, "mode": mode, "maxlen": isa.maxlen, "traces": traces}


def replay_family(args):
    """re-execute the recorded inputs of one family, in order, on the current tree (./check C05 --replay)"""
    isa_name, mode, inputs, whats = args
    D.watchdog_init()
    D.mute_stdout()
    isa = D.Isa(isa_name, mode)
    D.quiet()
    ev = []
    for hx, what in zip(inputs, whats):
        x = bytes.fromhex(hx)
        i, o = D.decode(isa, x)
        e = {"in": list(x), "out": o, "what": what}
        if i is not None:
            e["sp"] = " ".join(i.spec.format.split())
            h = i.spec.hook
            e["hook"] = "%s:%s" % (h.__module__.replace("amoco.arch.", ""), h.__name__)
        ev.append(e)
    return {"kind": "c05", "m": "%s/%s" % (isa_name, mode), "maxlen": isa.maxlen, "src": "replay", "ev": ev}
