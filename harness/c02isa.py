"""ISA side of C02 / C10: which ISA modules have semantics, how to obtain instruction byte strings that
reach every i_XXX, how to build a fully concrete start state.

  * ISAS / variants()     the ISA modules with a semantics table (uarch), their decode-mode globals and
                          their data-endianness variants
  * Isa                   import, mode/endianness selection, decode, registers, flag reset
  * Isa.draw_instruction  bytes of a randomly chosen shipped ispec with random free bits (+ tail)
  * StatePlan             plain-data description of a fully concrete start state (register values and
                          memory ranges), Isa.build_state() turns it into a fresh concrete mapper

Nothing here computes an expected value.  Everything random comes from the rng handed in.
"""
import importlib
import inspect
import sys

# name, cpu module, env module with `internals` (or None), decode-mode internals, data-endian variants
# (variant name, internals update, data endianness it selects).  ppc32 has no semantics table, wasm's and
# dwarf's mnemonics are stack-machine operators: they are tried like every other module and kept when
# decode+execute works (see usable()).
ISAS = [
    ("x64", "amoco.arch.x64.cpu_x64", "amoco.arch.x64.env", {"mode": 64}, [("le", {}, 1)]),
    ("x86", "amoco.arch.x86.cpu_x86", "amoco.arch.x86.env", {"mode": 32}, [("le", {}, 1)]),
    ("rv32i", "amoco.arch.riscv.cpu_rv32i", None, {}, [("le", {}, 1)]),
    ("rv64i", "amoco.arch.riscv.cpu_rv64i", None, {}, [("le", {}, 1)]),
    ("armv7", "amoco.arch.arm.cpu_armv7", "amoco.arch.arm.v7.env",
     {"isetstate": 0, "itstate": 0, "endianstate": 0, "ibigend": 0},
     [("le", {"endianstate": 0}, 1), ("be", {"endianstate": 1}, -1)]),
    ("thumb", "amoco.arch.arm.cpu_armv7", "amoco.arch.arm.v7.env",
     {"isetstate": 1, "itstate": 0, "endianstate": 0, "ibigend": 0},
     [("le", {"endianstate": 0}, 1), ("be", {"endianstate": 1}, -1)]),
    ("armv8", "amoco.arch.arm.cpu_armv8", "amoco.arch.arm.v8.env64",
     {"endianstate": 0, "ibigend": 0},
     [("le", {"endianstate": 0}, 1), ("be", {"endianstate": 1}, -1)]),
    ("sparc", "amoco.arch.sparc.cpu_v8", None, {}, [("be", {}, -1)]),
    ("mips", "amoco.arch.mips.cpu_r3000", None, {}, [("be", {}, -1)]),
    ("mipsLE", "amoco.arch.mips.cpu_r3000LE", None, {}, [("le", {}, 1)]),
    ("msp430", "amoco.arch.msp430.cpu", None, {}, [("le", {}, 1)]),
    ("sh2", "amoco.arch.superh.cpu_sh2", None, {}, [("be", {}, -1)]),
    ("tricore", "amoco.arch.tricore.cpu", None, {}, [("le", {}, 1)]),
    ("v850", "amoco.arch.v850.cpu_v850e2s", None, {}, [("le", {}, 1)]),
    ("z80", "amoco.arch.z80.cpu_z80", None, {}, [("le", {}, 1)]),
    ("gb", "amoco.arch.z80.cpu_gb", None, {}, [("le", {}, 1)]),
    ("w65c02", "amoco.arch.w65c02.cpu", None, {}, [("le", {}, 1)]),
    ("pic18", "amoco.arch.pic.cpu_pic18f46k22", None, {}, [("le", {}, 1)]),
    ("eBPF", "amoco.arch.eBPF.cpu", None, {}, [("le", {}, 1)]),
    ("bpf", "amoco.arch.eBPF.cpu_bpf", None, {}, [("le", {}, 1)]),
    ("dwarf", "amoco.arch.dwarf.cpu", None, {}, [("le", {}, 1)]),
    ("wasm", "amoco.arch.wasm.cpu", None, {}, [("le", {}, 1)]),
]
FIRST = ("x64", "x86", "rv32i", "rv64i", "armv7", "thumb", "armv8", "sparc", "mips", "mipsLE")
# the ISA modules of the quick tier: the ones whose ISA-specific findings are enumerated per mnemonic and stable
# across seeds (the ARM family and SPARC have a long tail of python-level branching on concreteness - save/restore,
# exclusive stores, SMLAxy, shifts by register, interworking branches - that only the thorough tier samples)
QUICK = ("x64", "x86", "rv32i", "rv64i", "mips", "mipsLE")

# registers that the architecture hard-wires to zero but amoco models as ordinary symbols: a realistic
# concrete state binds them to 0
ZERO_REGS = {"sparc": ("g0",), "v850": ("r0",), "sh2": ()}


def names(only=None):
    return [e[0] for e in ISAS if only is None or e[0] in only]


def variants(name):
    return [v[0] for v in [e for e in ISAS if e[0] == name][0][4]]


def quiet():
    from amoco.logger import Log
    h = Log.__init__.__defaults__[0]
    h.setLevel(1000)


def flat_specs(tree):
    f, l = tree
    if f == 0:
        return list(l)
    out = []
    for k in sorted(l.keys()):
        out += flat_specs(l[k])
    return out


def _unwrap(fn):
    """the innermost python function of a decorated semantics function (closures of the __npc-style
    decorators of the asm modules)"""
    seen = set()
    out = [fn]
    stack = [fn]
    while stack:
        f = stack.pop()
        if id(f) in seen:
            continue
        seen.add(id(f))
        for c in (getattr(f, "__closure__", None) or ()):
            try:
                v = c.cell_contents
            except ValueError:
                continue
            if inspect.isfunction(v):
                out.append(v)
                stack.append(v)
        w = getattr(f, "__wrapped__", None)
        if inspect.isfunction(w):
            out.append(w)
            stack.append(w)
    return out


class Isa(object):
    def __init__(self, name, variant=None):
        ent = [e for e in ISAS if e[0] == name]
        if not ent:
            raise KeyError(name)
        self.name, self.modname, self.envname, self.mode, self.variants = ent[0]
        self.cpu = importlib.import_module(self.modname)
        self.env = importlib.import_module(self.envname) if self.envname else None
        self.dis = self.cpu.disassemble
        self.uarch = getattr(self.cpu, "uarch", {}) or {}
        self.variant = None
        self.data_endian = 1
        self.set_variant(variant or self.variants[0][0])
        self._specs = flat_specs(self.dis.specs[self.dis.iset()])
        self.needs_code = any(s.pfx == "xdata" for s in self._specs)
        self.prefix_specs = [s for s in self._specs if s.pfx is True]
        self.body_specs = [s for s in self._specs if s.pfx is not True]
        self.by_mnemonic = {}
        for s in self.body_specs:
            self.by_mnemonic.setdefault(self.spec_mnemonic(s), []).append(s)
        self.mn_sem = sorted(k for k in self.by_mnemonic if k is not None and ("i_%s" % k) in self.uarch)
        self.mn_all = sorted(self.by_mnemonic, key=lambda x: "" if x is None else str(x))
        self._regs = None

    # -- globals ----------------------------------------------------------------------------------
    def set_variant(self, variant):
        v = [x for x in self.variants if x[0] == variant][0]
        self.variant = v[0]
        self.data_endian = v[2]
        self.reset_globals()

    def reset_globals(self):
        """decode-mode / endianness globals of the env module back to the selected mode"""
        if self.env is not None and hasattr(self.env, "internals"):
            self.env.internals.update(self.mode)
            v = [x for x in self.variants if x[0] == self.variant][0]
            self.env.internals.update(v[1])

    def globals_snapshot(self):
        """the decode-mode globals of the env module as plain data"""
        if self.env is not None and hasattr(self.env, "internals"):
            return ["%s=%s" % (k, self.env.internals[k]) for k in sorted(self.env.internals, key=str)]
        return []

    def arch_objects(self):
        """every reg / slc object reachable from the env namespace (module attributes, lists, dicts)"""
        from amoco.cas import expressions as X
        envmod = sys.modules[self.cpu.__name__]
        seen, out = set(), []

        def visit(o, depth):
            if isinstance(o, X.exp):
                if id(o) not in seen and (o._is_reg or o._is_slc or o._is_cst):
                    seen.add(id(o))
                    out.append(o)
                    if o._is_slc and isinstance(o.x, X.exp) and id(o.x) not in seen:
                        visit(o.x, depth + 1)
                return
            if depth > 2:
                return
            if isinstance(o, (list, tuple)):
                for x in o:
                    visit(x, depth + 1)
            elif isinstance(o, dict):
                for x in o.values():
                    visit(x, depth + 1)

        for k, v in list(vars(envmod).items()):
            if k.startswith("__"):
                continue
            visit(v, 0)
        return out

    def reset_sf(self):
        """sf=False on every architectural register object (C02 only: C10 is about exactly this state)"""
        for o in self.arch_objects():
            if (o._is_reg or o._is_slc) and o.sf:
                o.sf = False

    def sf_set(self):
        """names of the architectural register objects whose sf flag is currently set"""
        return sorted(set(str(getattr(o, "ref", "?")) for o in self.arch_objects()
                          if (o._is_reg or o._is_slc) and o.sf))

    # -- registers --------------------------------------------------------------------------------
    def registers(self):
        """the observed registers: cpu.registers (as shipped: reg or slc objects), or for a module
        without that list every reg object of its env namespace"""
        regs = getattr(self.cpu, "registers", None)
        if regs is None:
            regs = [o for o in self.arch_objects() if o._is_reg]
        return [r for r in regs if (r._is_reg or r._is_slc)]

    def base_registers(self, extra=()):
        """distinct reg objects to bind in a concrete state: bases of cpu.registers, every reg of the
        env namespace when there are at most 160 of them, and `extra` (registers met in operands)"""
        out, seen = [], set()

        def add(r):
            b = r.x if r._is_slc else r
            if b._is_reg and b.ref not in seen:
                seen.add(b.ref)
                out.append(b)

        for r in self.registers():
            add(r)
        allr = [o for o in self.arch_objects() if o._is_reg]
        if len(allr) <= 160:
            for r in allr:
                add(r)
        for r in extra:
            add(r)
        return out

    def pc(self):
        try:
            return self.cpu.PC()
        except Exception:
            return None

    # -- instructions -----------------------------------------------------------------------------
    @staticmethod
    def spec_mnemonic(s):
        return s.iattr.get("mnemonic")

    def endian(self):
        return self.dis.endian()

    def spec_bytes(self, spec, rng):
        n = spec.mask.size
        fix, mask = spec.fix.ival, spec.mask.ival
        free = ((1 << n) - 1) & ~mask
        x = rng.random()
        if x < 0.70:
            fill = rng.getrandbits(n)
        elif x < 0.80:
            fill = 0
        elif x < 0.88:
            fill = (1 << n) - 1
        else:
            fill = rng.getrandbits(n) & rng.getrandbits(n)  # sparse: small register numbers / immediates
        v = fix | (fill & free)
        bs = v.to_bytes(n // 8, "little")
        return bs[::-1] if self.endian() == -1 else bs

    def decode(self, b, address=None):
        """the decode call as a fetcher issues it; returns an instruction or None; raises what amoco raises"""
        kargs = {}
        if address is not None:
            kargs["address"] = address
        if self.needs_code:
            kargs.setdefault("address", 0)
            kargs["code"] = b
        return self.dis(b, **kargs)

    def draw_instruction(self, rng, want=None):
        """bytes (exactly the bytes the decoded instruction consumes) of a decodable instruction built from a
        shipped spec; `want` = mnemonic to aim at (the result may decode to another spec: returned as is).
        returns (bytes, mnemonic) or None after 30 failed attempts"""
        for _ in range(30):
            if want is not None and want in self.by_mnemonic:
                sp = rng.choice(self.by_mnemonic[want])
            else:
                sp = rng.choice(self.body_specs)
            head = self.spec_bytes(sp, rng)
            pre = b""
            if self.prefix_specs and rng.random() < 0.15:
                for _k in range(rng.choice((1, 1, 2))):
                    pre += self.spec_bytes(rng.choice(self.prefix_specs), rng)
            x = rng.random()
            n = self.dis.maxlen + 4
            if x < 0.6:
                tail = bytes(rng.getrandbits(8) for _ in range(n))
            elif x < 0.8:
                tail = bytes(rng.choice((0, 1, 4, 8, 0x10, 0x24, 0x40, 0x7F, 0x80, 0xFF)) for _ in range(n))
            else:
                tail = bytes(n)
            b = pre + head + tail
            try:
                self.reset_globals()
                i = self.decode(b)
            except Exception:
                i = None
                # decoder state after a raise is C11's subject: clear a pending prefix by decoding garbage-free input
                try:
                    self.dis(b"")
                except Exception:
                    pass
            if i is None or not i.bytes:
                continue
            return bytes(i.bytes) if not self.needs_code else b[:max(len(i.bytes), 1) + 12], i.mnemonic
        return None

    def has_semantics(self, mnemonic):
        return ("i_%s" % mnemonic) in self.uarch

    def semantics_sources(self, mnemonic):
        """python sources of i_<mnemonic> (all functions found through decorator closures)"""
        f = self.uarch.get("i_%s" % mnemonic)
        if f is None:
            return []
        out = []
        for g in _unwrap(f):
            try:
                out.append(inspect.getsource(g))
            except (OSError, TypeError):
                pass
        return out

    # -- concrete states --------------------------------------------------------------------------
    def plan_state(self, rng, extra_regs=(), overlap=False):
        """plain data of a fully concrete start state: {"regs": [[name, width, value]], "mem": [[start, bytes]]}
        Pointer-like values live in slots that are far apart (so that distinct pointer registers do not
        overlap); with overlap=True some of them share a slot.  Addresses stay below 2^30 (TLC integers)."""
        regs = self.base_registers(extra_regs)
        pc = self.pc()
        pcname = getattr(pc, "ref", None) if pc is not None else None
        zero = ZERO_REGS.get(self.name, ())
        R, V, M = [], {}, []
        slot = 0
        ptrs = []
        for r in regs:
            w = r.size
            name = str(r.ref)
            if name in zero:
                v = 0
            elif 16 <= w <= 64 and (name == pcname or (len(ptrs) < 12 and rng.random() < 0.5)):
                slot += 1
                if overlap and ptrs and rng.random() < 0.35:
                    base = rng.choice(ptrs) + rng.choice((-8, -4, -3, -2, -1, 0, 1, 2, 3, 4, 8))
                    v = base
                elif w >= 30:
                    v = 0x100000 * slot + rng.choice((0x800, 0x800, 0x7FC, 0x801, 0x803, 0x810, 0x8F0))
                else:
                    v = (0x200 * slot + 0x100 + rng.choice((0, 0, 1, 2, 4, 0x10))) & 0xFFFF
                v &= (1 << w) - 1
                ptrs.append(v)
            else:
                x = rng.random()
                m = (1 << w) - 1
                if x < 0.35:
                    v = rng.choice((0, 1, 2, m, m >> 1, (m >> 1) + 1, m - 1, 0x80 & m, 0xFF & m, 3, 7))
                elif x < 0.55:
                    v = rng.getrandbits(min(w, 5))
                else:
                    v = rng.getrandbits(w)
            R.append([name, w, v])
            V[name] = v
        # memory: bytes around every pointer-like value (loads through them are defined)
        rad = 64
        spans = []
        for a in sorted(set(ptrs)):
            lo, hi = max(0, a - rad), a + rad
            if spans and lo <= spans[-1][1]:
                spans[-1][1] = max(spans[-1][1], hi)
            else:
                spans.append([lo, hi])
        if self.name in ("w65c02", "z80", "gb", "pic18", "msp430"):
            spans.append([0, 0x200])
            spans.sort()
            merged = []
            for lo, hi in spans:
                if merged and lo <= merged[-1][1]:
                    merged[-1][1] = max(merged[-1][1], hi)
                else:
                    merged.append([lo, hi])
            spans = merged
        for lo, hi in spans:
            hi = min(hi, 1 << 30)
            if hi <= lo:
                continue
            M.append([lo, [rng.getrandbits(8) for _ in range(hi - lo)]])
        return {"regs": R, "mem": M}

    def build_state(self, plan, regobjs=None):
        """a fresh concrete mapper for the plan (new constant objects every time)"""
        from amoco.cas.mapper import mapper
        from amoco.cas.expressions import cst
        objs = regobjs or dict((str(r.ref), r) for r in self.base_registers())
        s = mapper()
        for name, w, v in plan["regs"]:
            r = objs.get(name)
            if r is None:
                continue
            s[r] = cst(v, w)
        psz = self.pointer_size()
        for start, data in plan["mem"]:
            s.mmap.write(cst(start, psz), bytes(data))
        return s

    def pointer_size(self):
        pc = self.pc()
        if pc is not None and hasattr(pc, "size"):
            return pc.size
        return 32


def usable(name):
    """the module imports, has a semantics table and at least one shipped spec decodes and executes"""
    try:
        isa = Isa(name)
    except Exception:
        return False
    return bool(isa.uarch) and bool(isa.mn_sem)
