"""Pipeline shared by C01, C12, C13:
   generate (TLC, specs/ExprGen.tla)  ->  execute + log (harness/c01.py on real amoco)  ->
   validate (TLC, specs/ExprTrace.tla with the reference semantics specs/lib/Expr.tla).
The property argument selects which clauses of the verdict decide the exit status."""
import json
import multiprocessing as mp
import multiprocessing.pool
import os

from . import tlc, c01

DEVS = ["LtuGeuSigned", "SignedDivFloor"]
DEV_WHAT = {
    "LtuGeuSigned": "unsigned comparisons `<.` / `>=.` evaluate as SIGNED comparisons on constants "
                    "(ltu()/geu() set sf=True before comparing), e.g. cst(0xff,8) <. cst(1,8) gives 1",
    "SignedDivFloor": "signed `/` and `%` on constants use Python floor semantics instead of truncation "
                      "toward zero, e.g. -7/2 gives -4",
}


def _replay_chunk(args):
    path, lo, hi, seed, stride, offset, base, thresholds = args
    out = []
    n = 0
    for idx, beh in enumerate(tlc.iter_spool_range(path, lo, hi)):
        if stride > 1 and (idx % stride) != offset:
            continue
        for thr in thresholds:
            n += 1
            tid = base + lo * 4 + idx * 4 + thresholds.index(thr)
            out.append(c01.replay(tid, beh, seed * 1000003 + tid, thr))
    return out


def _validate(args):
    path, tag = args
    return tlc.run("ExprTrace", "ExprTrace.cfg", workers=1, env={"TRACE_FILE": path}, tag=tag,
                   timeout=6000, xmx="3g", xss="1g")


def generate(ctx, cfg, kind, simulate=None, depth=None, stride=1, thresholds=(0,), base=0, workers=None):
    """returns list of recorded traces"""
    wd = tlc.workdir("c01gen_" + kind)
    spool = os.path.join(wd, "beh.spool")
    res = tlc.run("ExprGen", cfg, simulate=simulate, depth=depth, seed=ctx.seed if simulate else None,
                  spool=spool, tag="c01" + kind, timeout=3000, workers=workers)
    ctx.add_tlc(res, "G:" + cfg)
    chunks = tlc.spool_chunks(spool, 64)
    offset = ctx.seed % stride if stride > 1 else 0
    jobs = [(spool, lo, hi, ctx.seed, stride, offset, base, list(thresholds)) for lo, hi in chunks]
    traces = []
    with mp.Pool(min(tlc.NCPU if workers is None else 6, max(1, len(jobs)))) as pool:
        for out in pool.imap_unordered(_replay_chunk, jobs):
            traces.extend(out)
    tlc.cleanup(wd)
    if not traces:
        raise tlc.MachineryError("generator %s produced no behaviour" % cfg)
    ctx.count("behaviours_" + kind, len(traces))
    return traces


def validate(ctx, traces, prop, kind):
    # renumber trace ids so that verdicts can be matched back
    for i, t in enumerate(traces):
        t["t"] = i + 1
    wd = tlc.workdir("c01val_" + kind)
    # balance shards by cost: big widths are far more expensive
    order = sorted(range(len(traces)), key=lambda i: -traces[i]["w"] * len(traces[i]["ev"]))
    nsh = min(tlc.NCPU, len(traces))
    shards = [[] for _ in range(nsh)]
    for k, i in enumerate(order):
        shards[k % nsh].append(traces[i])
    paths = []
    for i, sh in enumerate(shards):
        p = os.path.join(wd, "tr%d.ndjson" % i)
        tlc.write_ndjson(p, sh)
        paths.append((p, "c01T%s%d" % (kind, i)))
    with mp.pool.ThreadPool(len(paths)) as tp:
        results = tp.map(_validate, paths)
    verdicts = {}
    for res in results:
        ctx.add_tlc(res, "T:ExprTrace(" + kind + ")")
        for v in res.printed:
            verdicts[v["t"]] = v
    for t in traces:
        v = verdicts.get(t["t"])
        if v is None:
            raise tlc.MachineryError("no verdict for trace %s (%s)" % (t["t"], kind))
        acts = tuple(e["act"] + ":" + e.get("s", "") for e in t["ev"] if e["act"] not in ("evals", "frame"))
        nontrivial = len(acts) >= 2 or any(len(e.get("live", [])) > 0 for e in t["ev"])
        ctx.case(key=(t["w"], t["thr"], acts) if nontrivial else None)
        ctx.trace()
        if prop == "C01":
            for d in v.get("devs", []):
                ctx.fail("C01:dev:" + d, DEV_WHAT.get(d, d), {"trace": t, "deviation": d})
        if v[prop] != "ok":
            d = json.loads(v[prop])
            line = d["line"]
            e = t["ev"][line - 1]
            brief = dict((k, e[k]) for k in e if k not in ("live", "vals"))
            key = "%s:%s" % (prop, d["clause"])
            if d["clause"] in ("Total",):
                key += ":%s:%s" % (e.get("s", e["act"]), e.get("raised", "").split(":")[0])
                if e.get("s") in (">>>", "<<<", "<<", ">>", ".>>"):
                    wd = [t["w"]] * c01.NLEAVES + [c.get("rw", 0) for c in t["ev"] if "rw" in c]
                    if wd[e["j"] - 1] < wd[e["i"] - 1]:
                        key += ":amount-narrower-than-operand"
            elif d["clause"] == "EvalTotal":
                what = [x.get("what", "") for x in e["vals"][d["env"] - 1] if x["h"] == d["h"]]
                key += ":%s:%s" % (d.get("top", "?"), (what or [""])[0].split(":")[0])
                if d.get("top") in (">>>", "<<<", "<<", ">>", ".>>"):
                    key += ":amount-flagged-%s" % ("signed" if d.get("rsf") == 1 else "unsigned")
            elif d["clause"] == "EvalConst":
                key += ":%s" % d.get("top", "?")
                if d.get("top") in (">>>", "<<<") and d.get("aw", 0) < d.get("lw", 0):
                    key += ":amount-narrower-than-operand"
            elif d["clause"] == "Width":
                key += ":%s" % e.get("s", e["act"])
            ctx.fail(key, "%s trace (w=%d thr=%d): clause %s at call %d %s handle %s env#%s"
                     % (kind, t["w"], t["thr"], d["clause"], line, json.dumps(brief), d["h"], d["env"]),
                     {"trace": t, "verdict": d})
    tlc.cleanup(wd)
    return verdicts


def run_replay(ctx, prop):
    """./check <ID> --replay PATH : perform the recorded calls again on the current tree and validate"""
    d = json.load(open(ctx.replay))
    case = d.get("case") or {}
    ctx.rule = "replay of one recorded case"
    res = tlc.run("BitVecMC", "BitVecMC.cfg", tag="bvmc", workers=2)
    ctx.add_tlc(res, "M:BitVecMC.cfg")
    if "trace" in case:
        t = case["trace"]
        drop = ("lsf", "rsf", "lc", "rc", "raised", "live", "same", "vals")
        calls = [dict((k, v) for k, v in e.items() if k not in drop) for e in t["ev"] if e["act"] not in ("evals", "frame")]
        beh = {"w": t["w"], "calls": calls}
        tr = c01.replay(1, beh, d.get("seed", 0) * 1000003 + t.get("t", 1), t.get("thr", 0))
        validate(ctx, [tr], prop, "replay")
        ctx.sample({"source": "replay", "calls": calls})
    elif "event" in case:
        ctx.note("replay_note", "hook events are re-recorded by running the suite and the ISA driver again")
        hook_traces(ctx, prop)
    else:
        raise tlc.MachineryError("replay file has no trace/event")


def run(ctx, prop):
    if ctx.replay:
        return run_replay(ctx, prop)
    quick = ctx.tier == "quick"
    ctx.rule = ("API-call behaviours of specs/ExprGen.tla performed on real amoco objects and validated by "
                "specs/ExprTrace.tla against the reference semantics specs/lib/Expr.tla over a set of register "
                "valuations (all valuations when the used registers total <= 5 bits, boundary + seeded random "
                "otherwise); a case is non-trivial when it has >= 2 calls; distinct = distinct (width, threshold, "
                "call-kind sequence)")
    ctx.assume("signedness of < <= > >= ** / % is read from the flags the operand objects show when the operator "
               "is applied; mixed flags (other than a constant with a clear top bit) evaluate to Unknown = outside the claim")
    ctx.assume("specs/lib/BitVec.tla is anchored to integer arithmetic exhaustively for widths 1..4 only (BitVecMC)")
    hk = hook_start(ctx)   # the recorders (suite under hooks, ISA drivers) run while TLC generates
    res = tlc.run("BitVecMC", "BitVecMC.cfg", tag="bvmc", workers=2)
    ctx.add_tlc(res, "M:BitVecMC.cfg")
    if quick:
        specs = [("ExprGenEx1.cfg", "ex1", dict(stride=16, thresholds=(0,))),
                 ("ExprGenSim_small.cfg", "simsmall", dict(simulate="num=16", depth=9, thresholds=(0, 4))),
                 ("ExprGenMap.cfg", "map", dict(stride=5, thresholds=(0,))),
                 ("ExprGenEx2s.cfg", "ex2s", dict(stride=16, thresholds=(0,))),
                 ("ExprGenEx3.cfg", "ex3", dict(stride=80, thresholds=(0,))),
                 ("ExprGenSim_big.cfg", "simbig", dict(simulate="num=8", depth=8, thresholds=(0,)))]
        with mp.pool.ThreadPool(len(specs)) as tp:
            outs = tp.map(lambda a: generate(ctx, a[0], a[1], workers=4, **a[2]), specs)
        tr = [t for o in outs[:5] for t in o]
        tb = outs[5]
        validate(ctx, tr + tb, prop, "all")
    else:
        # thorough: the exhaustive families unstrided (or lightly strided) and larger simulations
        tr = generate(ctx, "ExprGenEx1.cfg", "ex1", thresholds=(0, 3))
        validate(ctx, tr, prop, "ex1")
        tr = generate(ctx, "ExprGenEx2s.cfg", "ex2s", thresholds=(0,))
        tr += generate(ctx, "ExprGenEx3.cfg", "ex3", stride=8, thresholds=(0,))
        validate(ctx, tr, prop, "ex2s3")
        tr = generate(ctx, "ExprGenEx2.cfg", "ex2", stride=120, thresholds=(0,))
        tr += generate(ctx, "ExprGenMap.cfg", "map", thresholds=(0,))
        tr += generate(ctx, "ExprGenMap6.cfg", "map6", stride=8, thresholds=(0,))
        tr += generate(ctx, "ExprGenMap2.cfg", "map2", stride=128, thresholds=(0,))
        validate(ctx, tr, prop, "ex2map")
        tr = generate(ctx, "ExprGenSim_small.cfg", "simsmall", simulate="num=120", depth=9, thresholds=(0, 4))
        tb = generate(ctx, "ExprGenSim_big.cfg", "simbig", simulate="num=30", depth=8, thresholds=(0, 6))
        validate(ctx, tr + tb, prop, "sims")
    ctx.exhaustive = False
    hook_finish(ctx, prop, hk)


# ---- code -> spec through the guarded hooks -----------------------------------------------------------
ISAS = ["amoco.arch.x64.cpu_x64", "amoco.arch.x86.cpu_x86", "amoco.arch.riscv.rv32i.cpu_rv32i",
        "amoco.arch.riscv.rv64i.cpu_rv64i", "amoco.arch.arm.cpu_armv7", "amoco.arch.arm.cpu_armv8",
        "amoco.arch.sparc.cpu_v8", "amoco.arch.mips.cpu_r3000", "amoco.arch.msp430.cpu",
        "amoco.arch.z80.cpu_z80", "amoco.arch.tricore.cpu", "amoco.arch.v850.cpu_v850e2s",
        "amoco.arch.superh.cpu_sh2", "amoco.arch.pic.cpu_pic18", "amoco.arch.w65c02.cpu",
        "amoco.arch.eBPF.cpu"]


def _validate_op(args):
    path, tag = args
    return tlc.run("ExprOpTrace", "ExprOpTrace.cfg", workers=1, env={"TRACE_FILE": path}, tag=tag,
                   timeout=6000, xmx="3g", xss="1g")


def hook_start(ctx):
    import subprocess
    import sys
    quick = ctx.tier == "quick"
    repo = os.environ.get("VERIF_REPO", "/repo")
    wd = tlc.workdir("c01hook")
    env = dict(os.environ)
    env.update({"AMOCO_VERIF": "1", "PYTHONHASHSEED": "0", "VERIF_SEED": str(ctx.seed),
                "PYTHONPATH": "%s:%s" % (repo, tlc.VERIF), "AMOCO_VERIF_MAXEV": "4000" if quick else "40000"})
    files = []
    # (1) the repository's own test-suite, guard on
    f1 = os.path.join(wd, "suite.ndjson")
    e1 = dict(env)
    e1["AMOCO_VERIF_TRACE"] = f1
    psuite = subprocess.Popen([sys.executable, "-m", "pytest", "-q", "-x", "-p", "harness.c01hook", "-p", "no:cacheprovider",
                               "--timeout=900", "tests"], cwd=repo, env=e1, stdout=subprocess.DEVNULL,
                              stderr=subprocess.DEVNULL)
    # (2) ISA driver: symbolic execution of decoded instructions, one process per ISA
    procs = []
    n = 150 if quick else 2500
    for k, isa in enumerate(ISAS):
        fk = os.path.join(wd, "isa%d.ndjson" % k)
        procs.append((isa, fk, subprocess.Popen([sys.executable, "-m", "harness.c01hook", fk, str(ctx.seed * 131 + k),
                                                  str(n), isa], cwd=tlc.VERIF, env=env,
                                                 stdout=subprocess.PIPE, stderr=subprocess.DEVNULL)))
    return {"wd": wd, "files": files, "procs": procs, "psuite": psuite, "f1": f1}


def hook_finish(ctx, prop, st):
    wd, files, procs, psuite, f1 = st["wd"], st["files"], st["procs"], st["psuite"], st["f1"]
    psuite.wait()
    ctx.note("suite_with_hooks_exit", psuite.returncode)
    if os.path.exists(f1):
        files.append(("suite", f1))
    for isa, fk, pr in procs:
        pr.wait()
        if os.path.exists(fk):
            files.append((isa.split(".")[-1], fk))
    events = []
    for src, f in files:
        for line in open(f):
            line = line.strip()
            if line:
                e = json.loads(line)
                e["src"] = src
                events.append(e)
    if not events:
        raise tlc.MachineryError("hooks recorded no event (guard not effective?)")
    for i, e in enumerate(events):
        e["t"] = i + 1
    nsh = min(tlc.NCPU, max(1, len(events) // 50))
    shards = [events[i::nsh] for i in range(nsh)]
    paths = []
    for i, sh in enumerate(shards):
        pth = os.path.join(wd, "ev%d.ndjson" % i)
        tlc.write_ndjson(pth, sh)
        paths.append((pth, "c01H%d" % i))
    with mp.pool.ThreadPool(len(paths)) as tp:
        results = tp.map(_validate_op, paths)
    verdicts = {}
    for res in results:
        ctx.add_tlc(res, "T:ExprOpTrace")
        for v in res.printed:
            verdicts[v["t"]] = v
    skipped = 0
    for e in events:
        v = verdicts.get(e["t"])
        if v is None:
            raise tlc.MachineryError("no verdict for hook event %s" % e["t"])
        if v[prop] == "skip":
            skipped += 1
            continue
        ctx.case(key=("hook", e["src"], e["ev"], e.get("s", ""), e["res"].get("k")))
        ctx.trace()
        brief = {"src": e["src"], "ev": e["ev"], "s": e.get("s", ""), "raised": e["raised"],
                 "ops": json.dumps(e["ops"])[:700]}
        if prop == "C01" and v.get("dev"):
            ctx.fail("C01:dev:" + v["dev"], DEV_WHAT.get(v["dev"], v["dev"]), {"event": e})
        if v[prop] != "ok":
            ctx.fail("%s:hook:%s:%s" % (prop, v[prop], e.get("s", e["ev"])),
                     "recorded %s call (%s): clause %s: %s" % (e["ev"], e["src"], v[prop], json.dumps(brief)[:900]),
                     {"event": e})
    ctx.count("hook_events_validated", len(events) - skipped)
    ctx.count("hook_events_outside_claim", skipped)
    ctx.sample({"source": "hook event", "event": {k: events[0][k] for k in ("src", "ev", "ops", "res") if k in events[0]}}, cap=8)
    tlc.cleanup(wd)


def hook_traces(ctx, prop):
    hook_finish(ctx, prop, hook_start(ctx))
