"""C14 replayers (ELF part): open TLC-generated ELF bytes with amoco.system.elf.Elf and compare what amoco
reports with what TLC (specs/Elf.tla: Report, Query) says the file encodes.

Only API calls, attribute reads and equality comparisons happen here.  Field values travel as "digits"
(little-endian base-256, see specs/lib/Bytes.tla); dval() turns them into a Python int for comparison.
Each mismatch is returned as (key, what); keys name the reported item, never the input, so that a known
finding can be listed narrowly.
"""
import logging

EHDR = ("e_type", "e_machine", "e_version", "e_entry", "e_phoff", "e_shoff", "e_flags", "e_ehsize",
        "e_phentsize", "e_phnum", "e_shentsize", "e_shnum", "e_shstrndx")
PHDR = ("p_type", "p_offset", "p_vaddr", "p_paddr", "p_filesz", "p_memsz", "p_flags", "p_align")
SHDR = ("sh_name", "sh_type", "sh_flags", "sh_addr", "sh_offset", "sh_size", "sh_link", "sh_info",
        "sh_addralign", "sh_entsize")
SYM = ("st_name", "st_value", "st_size", "st_info", "st_other", "st_shndx")
IDENT = ("EI_CLASS", "EI_DATA", "EI_VERSION", "EI_OSABI", "EI_ABIVERSION")


def quiet():
    logging.disable(logging.CRITICAL)


def dval(d):
    v = 0
    for i, x in enumerate(d):
        v |= x << (8 * i)
    return v


def text(t):
    return "".join(chr(c) for c in t)


def open_elf(data):
    from amoco.system.core import DataIO
    from amoco.system import elf
    return elf.Elf(DataIO(bytes(data)))


def index_of(lst, obj):
    for i, x in enumerate(lst):
        if x is obj:
            return i
    return -1


def compare_report(p, exp, out, fmt="elf"):
    """p: amoco Elf object; exp: Report record from TLC; out: list receiving (key, what)."""
    def bad(key, what):
        out.append(("C14:%s:%s" % (fmt, key), what))

    # ELF identification and header
    for i, n in enumerate(IDENT):
        got = getattr(p.Ehdr.e_ident, n)
        if got != exp["ident"][i]:
            bad("Ehdr.e_ident." + n, "reported %r, file encodes %r" % (got, exp["ident"][i]))
    for n in EHDR:
        got = getattr(p.Ehdr, n)
        want = dval(exp["eh"][n])
        if got != want:
            bad("Ehdr." + n, "reported %#x, file encodes %#x" % (got, want))
    e = p.entrypoints[0]
    if e != dval(exp["entry"]):
        bad("entry", "entrypoints[0]=%#x, e_entry=%#x" % (e, dval(exp["entry"])))
    # program headers
    if len(p.Phdr) != len(exp["ph"]):
        bad("Phdr.count", "reported %d program headers, file encodes %d" % (len(p.Phdr), len(exp["ph"])))
    else:
        for k, (g, w) in enumerate(zip(p.Phdr, exp["ph"])):
            for n in PHDR:
                got, want = getattr(g, n), dval(w[n])
                if got != want:
                    bad("Phdr." + n, "program header %d: reported %#x, file encodes %#x" % (k, got, want))
    # section headers and names
    if len(p.Shdr) != len(exp["sh"]):
        bad("Shdr.count", "reported %d section headers, file encodes %d" % (len(p.Shdr), len(exp["sh"])))
        return
    for k, (g, w) in enumerate(zip(p.Shdr, exp["sh"])):
        for n in SHDR:
            got, want = getattr(g, n), dval(w[n])
            if got != want:
                bad("Shdr." + n, "section header %d: reported %#x, file encodes %#x" % (k, got, want))
        if exp["named"]:
            want = text(exp["names"][k])
            if g.name != want:
                bad("Shdr.name", "section %d: reported name %r, file encodes %r" % (k, g.name, want))
    # symbol tables
    for st in exp["symtabs"]:
        try:
            syms = p.readsection(st["sec"])
        except Exception as ex:
            bad("symtab:raises:" + type(ex).__name__, "readsection(%d) raised %r" % (st["sec"], ex))
            continue
        if syms is None or len(syms) != len(st["syms"]):
            bad("Sym.count", "symbol table in section %d: reported %s entries, file encodes %d"
                % (st["sec"], "no" if syms is None else len(syms), len(st["syms"])))
            continue
        strtab = None
        if st["strsec"] >= 0:
            try:
                strtab = p.readsection(st["strsec"])
            except Exception as ex:
                bad("strtab:raises:" + type(ex).__name__, "readsection(%d) raised %r" % (st["strsec"], ex))
        for k, (g, w) in enumerate(zip(syms, st["syms"])):
            for n in SYM:
                got, want = getattr(g, n), dval(w[n])
                if got != want:
                    bad("Sym." + n, "symbol %d of section %d: reported %#x, file encodes %#x" % (k, st["sec"], got, want))
            if strtab is not None:
                want = text(st["names"][k])
                try:
                    got = strtab[g.st_name].decode("latin1")
                except Exception as ex:
                    bad("Sym.name:raises:" + type(ex).__name__, "string table lookup raised %r" % (ex,))
                    continue
                if got != want:
                    bad("Sym.name", "symbol %d of section %d: string table gives %r, file encodes %r" % (k, st["sec"], got, want))
        # the names amoco itself attaches to addresses (functions / variables), for the table named .symtab
        if exp["named"] and text(exp["names"][st["sec"]]) == ".symtab" and st["strsec"] >= 0 \
                and text(exp["names"][st["strsec"]]) == ".strtab":
            for dic, ty, label in ((p.functions, 2, "functions"), (p.variables, 1, "variables")):
                wanted = {}
                for k, w in enumerate(st["syms"]):
                    if (dval(w["st_info"]) & 0xF) == ty and dval(w["st_value"]) != 0:
                        wanted.setdefault(dval(w["st_value"]), []).append(
                            (text(st["names"][k]), dval(w["st_size"]), dval(w["st_info"]), dval(w["st_shndx"])))
                for addr, cands in wanted.items():
                    got = dic.get(addr)
                    if got is None:
                        bad(label + ".missing", "symbol %r at %#x not reported in %s" % (cands[0][0], addr, label))
                    elif tuple(got) not in cands:
                        bad(label + ".name", "%s[%#x]=%r, file encodes %r" % (label, addr, got, cands))
                for addr, got in dic.items():
                    if isinstance(got, tuple) and addr not in wanted:
                        bad(label + ".invented", "%s[%#x]=%r is not a symbol of the file" % (label, addr, got))


def compare_queries(p, exp, queries, out, drifts, fmt="elf"):
    def bad(key, what):
        out.append(("C14:%s:%s" % (fmt, key), what))
    from amoco.system import elf
    nsh = len(exp["sh"])
    for q in queries:
        a = dval(q["a"])
        nonalloc = False
        # address -> section / segment
        try:
            s, off, base = p.getinfo(a)
        except Exception as ex:
            bad("getinfo:raises:" + type(ex).__name__, "getinfo(%#x) raised %r" % (a, ex))
            s, off, base = "raised", 0, 0
        if s is None:
            if nsh and q["psecs"]:
                bad("getinfo.none", "getinfo(%#x) finds nothing; the address lies in section(s) %s" % (a, q["psecs"]))
            elif not nsh and q["fsegs"]:
                bad("getinfo.none", "getinfo(%#x) finds nothing; the address lies in segment(s) %s" % (a, q["fsegs"]))
            elif q["secs"] or q["msegs"]:
                drifts.append("getinfo answers None for an address inside an allocated non-PROGBITS section or a bss tail")
        elif isinstance(s, elf.Shdr):
            i = index_of(p.Shdr, s)
            if i not in q["secs"]:
                nonalloc = 0 <= i < nsh and not (dval(exp["sh"][i]["sh_flags"]) & 2)
                if nonalloc:
                    bad("getinfo.section:nonalloc", "getinfo(%#x) answers section %d, which does not occupy memory (no SHF_ALLOC); "
                        "sections holding the address: %s" % (a, i, q["secs"]))
                else:
                    bad("getinfo.section", "getinfo(%#x) answers section %d; sections holding the address: %s" % (a, i, q["secs"]))
            else:
                w = exp["sh"][i]
                if base != dval(w["sh_addr"]) or off != a - dval(w["sh_addr"]):
                    bad("getinfo.offset", "getinfo(%#x) answers offset %#x base %#x for section %d at %#x"
                        % (a, off, base, i, dval(w["sh_addr"])))
        elif isinstance(s, elf.Phdr):
            i = index_of(p.Phdr, s)
            if i not in q["fsegs"]:
                bad("getinfo.segment", "getinfo(%#x) answers segment %d; segments whose file-backed part holds the address: %s"
                    % (a, i, q["fsegs"]))
            else:
                w = exp["ph"][i]
                if base != dval(w["p_vaddr"]) or off != a - dval(w["p_vaddr"]):
                    bad("getinfo.offset", "getinfo(%#x) answers offset %#x base %#x for segment %d at %#x"
                        % (a, off, base, i, dval(w["p_vaddr"])))
        # address -> file offset
        try:
            fo = p.getfileoffset(a)
        except Exception as ex:
            bad("getfileoffset:raises:" + type(ex).__name__, "getfileoffset(%#x) raised %r" % (a, ex))
            continue
        accept = set()
        if q["fo"]:
            accept.add(dval(q["fo"]))
        if q["secfo"]:
            accept.add(dval(q["secfo"]))
        if fo is None:
            if (nsh and q["secfo"]) or (not nsh and q["fo"]):
                bad("getfileoffset.none", "getfileoffset(%#x) answers None; the file maps the address at offset %s"
                    % (a, sorted(hex(x) for x in accept)))
            elif accept:
                drifts.append("getfileoffset answers None for a file-backed address outside every PROGBITS section")
        elif fo not in accept:
            bad("getfileoffset.value:nonalloc" if nonalloc else "getfileoffset.value", "getfileoffset(%#x)=%#x; the file maps the address at %s"
                % (a, fo, sorted(hex(x) for x in accept) or "no offset"))


def replay_elf(beh):
    """one generated behaviour -> dict(fails=[(key, what)], drifts=[...], sig=structure signature)"""
    out, drifts = [], []
    exp = beh["expect"]
    try:
        p = open_elf(beh["bytes"])
    except Exception as ex:
        out.append(("C14:elf:open:raises:" + type(ex).__name__, "Elf(bytes) raised %r on a well-formed image" % (ex,)))
        return {"fails": out, "drifts": drifts}
    try:
        compare_report(p, exp, out)
        compare_queries(p, exp, beh["queries"], out, drifts)
    except Exception as ex:
        out.append(("C14:elf:report:raises:" + type(ex).__name__, "reading the parsed object raised %r" % (ex,)))
    return {"fails": out, "drifts": drifts}


def signature(beh):
    e = beh["expect"]
    return (beh["cls"], beh["ord"], len(e["ph"]), tuple(dval(s["sh_type"]) for s in e["sh"]),
            tuple(len(t["syms"]) for t in e["symtabs"]), dval(e["eh"]["e_phoff"]) < dval(e["eh"]["e_shoff"]),
            e["named"])


def replay_chunk(args):
    from . import tlc
    spool, lo, hi = args
    quiet()
    res = {"n": 0, "fails": [], "drifts": {}, "sigs": set(), "sample": None, "rt_bad": 0}
    for beh in tlc.iter_spool_range(spool, lo, hi):
        res["n"] += 1
        if not beh.get("rt", True):
            res["rt_bad"] += 1
        r = replay_elf(beh)
        for d in r["drifts"]:
            res["drifts"][d] = res["drifts"].get(d, 0) + 1
        seen = set()
        for key, what in r["fails"]:
            if key in seen:
                continue
            seen.add(key)
            if len(res["fails"]) < 200:
                res["fails"].append({"key": key, "what": what, "replayer": "c14.replay_elf", "behaviour": beh})
        res["sigs"].add(signature(beh))
        if res["sample"] is None:
            res["sample"] = {"cls": beh["cls"], "ord": beh["ord"], "size": len(beh["bytes"]),
                             "bytes_head": beh["bytes"][:64], "expect": beh["expect"], "queries": beh["queries"][:4]}
    return res
