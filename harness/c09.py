"""C09 - execute store/load programs on a real amoco mapper and log what it returns.

A behaviour (from specs/Mapper.tla, or from the random driver below) is
    {"cf": {"na":0|1, "mt":0|1, "en":1|-1, "mi":0|1}, "pv": {"p":6,"q":5,..}, "prog": [op,...]}
    op = {"o":"st","p":ptr,"off":k,"n":bytes,"vk":"d"|"c"|"r","src":name} | {"o":"ld","p":ptr,"off":k,"n":bytes,"dst":name}
in MODEL units. The replayer is deliberately dumb: it scales the units to real sizes, draws the byte values of
the data symbols and of the initial memory from the seeded rng, performs the API calls
    m[mem(p+off, 8n, endian=en)] = value        m[r] = m(mem(p+off, 8n, endian=en))        r = c >> m
and serialises (attribute reads only, harness/ser.py) the loaded registers, the bytes of the resulting
memory and the pointer items of the resulting map. It computes no expected value: the trace goes to
specs/MapperTrace.tla, which runs the byte-level machine and interprets every logged tree (a `mem` carrying
`mods` is read "together with its mods").
"""
import random

from harness import ser

PTRW = 32


def scaled(beh, rng, scale=None, base=None):
    """model units -> real units (a concretisation chosen with the seeded rng)"""
    scale = scale or rng.choice((1, 1, 2))
    base = base if base is not None else 0x1000 * rng.randint(1, 0x3FF) + 0x10 * rng.randint(0, 0xFF)
    prog = []
    for op in beh["prog"]:
        o = dict(op)
        o["off"] = op["off"] * scale
        o["n"] = op["n"] * scale
        prog.append(o)
    pv = dict((k, base + v * scale) for k, v in beh["pv"].items())
    lo = min(pv[o["p"]] + o["off"] for o in prog) if prog else base
    hi = max(pv[o["p"]] + o["off"] + o["n"] for o in prog) if prog else base + 1
    pad = rng.randint(1, 4)
    lo, hi = lo - pad, hi + pad
    # byte values: initial memory from 0x01..0x3f, data from 0x40..0xff, all data bytes distinct when possible
    pool = list(range(0x40, 0x100))
    rng.shuffle(pool)
    dv = {}
    for o in prog:
        if o["o"] == "st" and o["vk"] != "r":
            b = []
            for _ in range(o["n"]):
                b.append(pool.pop() if pool else rng.randint(0x40, 0xFF))
            dv[o["src"]] = b
    im = [rng.randint(1, 0x3F) for _ in range(hi - lo)]
    return {"cf": dict(beh["cf"]), "prog": prog, "pv": pv, "dv": dv, "imlo": lo, "im": im, "scale": scale}


def _int(b):
    return sum(x << (8 * i) for i, x in enumerate(b))


def execute(tid, case):
    """run one scaled case on real amoco; returns the trace record (plain data)"""
    from amoco.cas import expressions as X
    from amoco.cas.mapper import mapper
    from amoco.config import conf
    cf = case["cf"]
    saved = (conf.Cas.noaliasing, conf.Cas.memtrace, conf.Cas.complexity)
    conf.Cas.noaliasing = bool(cf["na"])
    conf.Cas.memtrace = bool(cf["mt"])
    conf.Cas.complexity = 0
    rec = {"t": tid, "cf": cf, "prog": case["prog"], "pv": case["pv"], "dv": case["dv"], "imlo": case["imlo"],
           "im": case["im"], "raised": "", "at": 0, "loads": [], "mem": [], "items": [], "cregs": []}
    try:
        en = cf["en"]
        ptrs = dict((k, X.reg(k, PTRW)) for k in case["pv"])
        m = mapper()
        lregs = {}
        dregs = {}
        step = 0
        try:
            for op in case["prog"]:
                step += 1
                w = 8 * op["n"]
                loc = X.mem(ptrs[op["p"]] + op["off"], w, endian=en) if op["off"] else X.mem(ptrs[op["p"]], w, endian=en)
                if op["o"] == "st":
                    if op["vk"] == "d":
                        v = dregs[op["src"]] = X.reg(op["src"], w)
                    elif op["vk"] == "c":
                        v = X.cst(_int(case["dv"][op["src"]]), w)
                    else:
                        v = m(lregs[op["src"]])
                    m[loc] = v
                else:
                    r = lregs[op["dst"]] = X.reg(op["dst"], w)
                    m[r] = m(loc)
            step += 1
            c = mapper()
            for k in sorted(ptrs):
                c[ptrs[k]] = X.cst(case["pv"][k], PTRW)
                rec["cregs"].append(k)
            for k in sorted(dregs):
                c[dregs[k]] = X.cst(_int(case["dv"][k]), dregs[k].size)
                rec["cregs"].append(k)
            if cf["mi"]:
                for i, b in enumerate(case["im"]):
                    c[X.mem(X.cst(case["imlo"] + i, PTRW), 8)] = X.cst(b, 8)
            step += 1
            r = c >> m
        except Exception as ex:  # an observation, not a harness failure
            rec["raised"] = "%s: %s" % (type(ex).__name__, str(ex)[:200])
            rec["at"] = step
            return rec
        items = list(r)
        vals = dict((str(l.ref), v) for l, v in items if l._is_reg)
        for op in case["prog"]:
            if op["o"] == "ld":
                v = vals.get(op["dst"])
                rec["loads"].append({"r": op["dst"], "n": op["n"],
                                     "tree": ser.tree(v) if v is not None else {"k": "missing", "w": 0, "sf": 0}})
        mm = r.mmap
        for i in range(len(case["im"])):
            a = case["imlo"] + i
            try:
                parts = mm.read(X.ptr(X.cst(a, PTRW)), 1)
                p0 = parts[0]
                t = ser.tree(p0) if len(parts) == 1 else {"k": "odd", "w": 0, "sf": 0}
            except Exception as ex:
                t = {"k": "raised", "w": 0, "sf": 0, "what": type(ex).__name__}
            rec["mem"].append({"a": a, "tree": t})
        for l, v in items:
            if l._is_ptr:
                rec["items"].append({"loc": ser.tree(l), "val": ser.tree(v)})
        return rec
    finally:
        conf.Cas.noaliasing, conf.Cas.memtrace, conf.Cas.complexity = saved


def replay(tid, beh, seed, scale=None):
    rng = random.Random(seed)
    return execute(tid, scaled(beh, rng, scale))


# --- T: programs drawn by the seeded rng, beyond the model's bounds ---------------------------------
def reload_case(rng):
    """load r := [p]; store [q] := x; store [s] := r (the LOADED value, through another pointer); another store;
    reload [s] - with the first load and the first store really overlapping more often than not"""
    n = rng.choice((1, 2, 4, 8))
    cf = {"na": 0, "mt": 1, "en": rng.choice((1, 1, -1)), "mi": rng.choice((0, 1))}
    names = ["p", "q", "s", "u"]
    pv = {"p": 64, "q": 64 + rng.choice((0, 0, 0, 1, -1, n - 1, 1 - n, n, 16)), "s": 64 + rng.choice((12, 16, -12, n, 2 * n)),
          "u": 64 + rng.choice((20, 12, 0, 13, -8))}
    off = lambda: rng.choice((0, 0, 0, 1, -1, 2))
    so = off()
    prog = [{"o": "ld", "p": "p", "off": off(), "n": n, "dst": "r1"},
            {"o": "st", "p": "q", "off": off(), "n": rng.choice((n, n, 1, 2)), "vk": rng.choice("dc"), "src": "d1"},
            {"o": "st", "p": "s", "off": so, "n": n, "vk": "r", "src": "r1"},
            {"o": "st", "p": rng.choice(("u", "u", "q", "p")), "off": off(), "n": rng.choice((1, 2, 4)), "vk": rng.choice("dc"), "src": "d2"},
            {"o": "ld", "p": "s", "off": rng.choice((so, so, so + 1 if n > 1 else so)), "n": n if rng.random() < 0.8 else 1, "dst": "r2"}]
    return scaled({"cf": cf, "pv": pv, "prog": prog}, rng, scale=1, base=0x1000 * rng.randint(1, 0x3FF))


def random_case(rng, nptr=3, maxops=8):
    if rng.random() < 0.25:
        return reload_case(rng)
    names = ["p", "q", "s"][:nptr]
    cf = {"na": rng.choice((0, 0, 1)), "mt": 1, "en": rng.choice((1, -1)), "mi": rng.choice((0, 1))}
    if cf["na"]:
        cf["mt"] = rng.choice((1, 1, 0))
    base = 0x1000 * rng.randint(1, 0x3FF)
    nops = rng.randint(2, maxops)
    prog = []
    nst = nld = 0
    loaded = []
    for _ in range(nops):
        p = rng.choice(names)
        off = rng.choice((-8, -4, -2, -1, 0, 0, 0, 1, 2, 3, 4, 8))
        n = rng.choice((1, 2, 4, 8))
        if rng.random() < 0.6:
            nst += 1
            cands = [l for l in loaded if l[1] == n]
            if cands and rng.random() < 0.3:
                prog.append({"o": "st", "p": p, "off": off, "n": n, "vk": "r", "src": rng.choice(cands)[0]})
            else:
                prog.append({"o": "st", "p": p, "off": off, "n": n, "vk": rng.choice("dc"), "src": "d%d" % nst})
        else:
            nld += 1
            prog.append({"o": "ld", "p": p, "off": off, "n": n, "dst": "r%d" % nld})
            loaded.append(("r%d" % nld, n))
    # pointer values: clustered so that overlaps of every kind are frequent
    pv = {"p": 64}
    for k in names[1:]:
        pv[k] = 64 + rng.choice(list(range(-9, 10)) + [0, 0, 1, -1, 2, -2, 32, -32])
    beh = {"cf": cf, "pv": pv, "prog": prog}
    if cf["na"]:
        # never generate inputs the statement excludes: under noaliasing, ranges accessed through different
        # pointers must be disjoint
        for i, a in enumerate(prog):
            for b in prog[:i]:
                if a["p"] != b["p"]:
                    x, y = pv[a["p"]] + a["off"], pv[b["p"]] + b["off"]
                    if not (x + a["n"] <= y or y + b["n"] <= x):
                        return None
    return scaled(beh, rng, scale=1, base=base)
