"""Run TLC (and SANY) from Python, parse what it prints.

Everything the checks know about the model comes through here:
  * run(...)            one TLC invocation (model checking, -simulate, or trace validation)
  * TLCResult.printed   JSON values printed by the spec with PrintT(ToJson(v))
  * TLCResult.states / .distinct / .coverage
A TLC run that does not finish normally is a *machinery failure* (MachineryError -> exit 2),
never a property verdict, unless the caller passes expect_violation=True (used when a model is
deliberately run with a deviation action enabled).
"""
import json
import os
import re
import shutil
import subprocess
import sys
import time

VERIF = os.path.dirname(os.path.dirname(os.path.abspath(__file__)))
SPECS = os.path.join(VERIF, "specs")
WORK = os.environ.get("VERIF_WORK", os.path.join(VERIF, ".work"))
JAR = "/opt/veriftools/tla/tla2tools.jar"
CM = "/opt/veriftools/tla/CommunityModules-deps.jar"
NCPU = os.cpu_count() or 4


class MachineryError(Exception):
    pass


class TLCResult(object):
    def __init__(self):
        self.rc = None
        self.out = ""
        self.states = 0  # states generated (= transitions + initial states)
        self.distinct = 0
        self.depth = 0
        self.printed = []  # decoded JSON values, in output order
        self.coverage = {}  # action name -> (distinct, taken)
        self.violation = None  # text of the first "Error:" block, if any
        self.wall = 0.0
        self.cmd = ""

    @property
    def transitions(self):
        return max(self.states - 1, 0)


def workdir(tag):
    d = os.path.join(WORK, "%s.%d" % (tag, os.getpid()))
    if os.path.isdir(d):
        shutil.rmtree(d)
    os.makedirs(d)
    return d


def cleanup(d):
    shutil.rmtree(d, ignore_errors=True)


_RE_STATES = re.compile(r"(\d+) states generated, (\d+) distinct states found")
_RE_SIMSTATES = re.compile(r"The number of states generated: (\d+)")
_RE_DEPTH = re.compile(r"The depth of the complete state graph search is (\d+)")
_RE_COV = re.compile(r"^<(\w+) line (\d+), col (\d+) to line (\d+), col (\d+) of module (\w+)>: (\d+):(\d+)")


def parse_output(res, out):
    for line in out.splitlines():
        if line.startswith('"') and line.endswith('"') and len(line) > 1:
            try:
                inner = json.loads(line)
                res.printed.append(json.loads(inner))
                continue
            except ValueError:
                pass
        m = _RE_STATES.search(line)
        if m:
            res.states = int(m.group(1))
            res.distinct = int(m.group(2))
            continue
        m = _RE_SIMSTATES.search(line)
        if m:
            res.states = int(m.group(1))
            res.distinct = max(res.distinct, 0)
            continue
        m = _RE_DEPTH.search(line)
        if m:
            res.depth = int(m.group(1))
            continue
        m = _RE_COV.match(line)
        if m:
            name = m.group(1)
            d, t = int(m.group(7)), int(m.group(8))
            old = res.coverage.get(name, (0, 0))
            res.coverage[name] = (old[0] + d, old[1] + t)
            continue
        if line.startswith("Error:") and res.violation is None:
            res.violation = line


def run(module, cfg, specdir=None, workers=None, simulate=None, depth=None, seed=None,
        env=None, timeout=3600, coverage=False, expect_violation=False, deadlock=None,
        xss="512m", xmx="8g", tag=None, extra=(), dfs=False, keep=False, spool=None):
    """Run TLC on specs/<specdir>/<module>.tla with <cfg> (path relative to the module dir).

    simulate: None or "num=N" (N behaviours); depth for -simulate.
    Returns TLCResult; raises MachineryError on anything but a clean finish
    (or a reported invariant violation when expect_violation).
    """
    sdir = SPECS if specdir is None else (specdir if os.path.isabs(specdir) else os.path.join(SPECS, specdir))
    tag = tag or module
    meta = workdir("tlc_" + tag)
    jopts = ["-Xss" + xss, "-Xmx" + xmx, "-XX:+UseParallelGC"]
    if dfs:
        jopts.append("-Dtlc2.tool.queue.IStateQueue=StateDeque")
    libpath = os.path.join(SPECS, "lib")
    jopts.append("-DTLA-Library=" + libpath)
    cmd = ["java"] + jopts + ["-cp", JAR + ":" + CM, "tlc2.TLC",
                              "-workers", str(workers or NCPU), "-metadir", meta, "-noGenerateSpecTE",
                              "-config", cfg]
    if simulate is not None:
        cmd += ["-simulate", simulate]
        if depth is not None:
            cmd += ["-depth", str(depth)]
        if seed is not None:
            cmd += ["-seed", str(seed)]
    if coverage:
        cmd += ["-coverage", "1"]
    if deadlock is False:
        cmd += ["-deadlock"]
    cmd += list(extra)
    cmd += [module + ".tla"]
    e = dict(os.environ)
    e.pop("JAVA_TOOL_OPTIONS", None)
    if env:
        e.update({k: str(v) for k, v in env.items()})
    res = TLCResult()
    res.cmd = " ".join(cmd)
    t0 = time.time()
    try:
        if spool:
            # printed values go to the spool file (one JSON-in-a-TLA-string per line); only the
            # other lines are kept in memory
            with open(spool, "wb") as fo:
                p = subprocess.run(cmd, cwd=sdir, env=e, stdout=fo, stderr=subprocess.STDOUT, timeout=timeout)
            keepl = []
            with open(spool, "rb") as fi:
                for bl in fi:
                    if not bl.startswith(b'"'):
                        keepl.append(bl.decode("utf-8", "replace"))
            out = "".join(keepl)
        else:
            p = subprocess.run(cmd, cwd=sdir, env=e, stdout=subprocess.PIPE, stderr=subprocess.STDOUT,
                               timeout=timeout)
            out = p.stdout.decode("utf-8", "replace")
    except subprocess.TimeoutExpired as ex:
        cleanup(meta)
        raise MachineryError("TLC timeout after %ss: %s" % (timeout, res.cmd))
    res.wall = time.time() - t0
    res.rc = p.returncode
    res.out = out
    parse_output(res, res.out)
    if not keep:
        cleanup(meta)
    finished = ("Model checking completed" in res.out) or ("Finished in" in res.out) or \
               (simulate is not None and "The number of states generated" in res.out)
    if res.rc == 0 and finished:
        return res
    if expect_violation and res.rc in (12, 13) and res.violation:
        return res
    tail = "\n".join(res.out.splitlines()[-40:])
    raise MachineryError("TLC failed rc=%s cmd=%s\n%s" % (res.rc, res.cmd, tail))


def sany(module, specdir=None):
    sdir = SPECS if specdir is None else os.path.join(SPECS, specdir)
    cmd = ["java", "-DTLA-Library=" + os.path.join(SPECS, "lib"), "-cp", JAR + ":" + CM,
           "tla2sany.SANY", module + ".tla"]
    p = subprocess.run(cmd, cwd=sdir, stdout=subprocess.PIPE, stderr=subprocess.STDOUT)
    out = p.stdout.decode("utf-8", "replace")
    ok = p.returncode == 0 and "Semantic errors" not in out and "***Parse Error***" not in out \
        and "Fatal" not in out
    return ok, out


def write_ndjson(path, records):
    with open(path, "w") as f:
        for r in records:
            f.write(json.dumps(r, separators=(",", ":")))
            f.write("\n")


def shard(seq, n):
    """Split seq into at most n contiguous shards of near-equal size (no empty shards)."""
    seq = list(seq)
    n = max(1, min(n, len(seq)))
    k, r = divmod(len(seq), n)
    out, i = [], 0
    for s in range(n):
        j = i + k + (1 if s < r else 0)
        out.append(seq[i:j])
        i = j
    return out


if __name__ == "__main__":
    ok, out = sany(sys.argv[1], sys.argv[2] if len(sys.argv) > 2 else None)
    print(out)
    sys.exit(0 if ok else 1)


def iter_spool(path):
    """yield decoded JSON values from a spool file written by run(spool=...)"""
    with open(path, "rb") as f:
        for bl in f:
            if bl.startswith(b'"'):
                try:
                    yield json.loads(json.loads(bl.decode("utf-8")))
                except ValueError:
                    continue


def spool_chunks(path, nchunks):
    """byte ranges [(lo,hi)] of the spool file aligned on line boundaries"""
    size = os.path.getsize(path)
    if size == 0:
        return []
    step = max(1, size // nchunks)
    cuts = [0]
    with open(path, "rb") as f:
        pos = step
        while pos < size:
            f.seek(pos)
            f.readline()
            q = f.tell()
            if q >= size:
                break
            if q > cuts[-1]:
                cuts.append(q)
            pos = q + step
    cuts.append(size)
    return [(cuts[i], cuts[i + 1]) for i in range(len(cuts) - 1) if cuts[i + 1] > cuts[i]]


def iter_spool_range(path, lo, hi):
    with open(path, "rb") as f:
        f.seek(lo)
        while f.tell() < hi:
            bl = f.readline()
            if not bl:
                break
            if bl.startswith(b'"'):
                try:
                    yield json.loads(json.loads(bl.decode("utf-8")))
                except ValueError:
                    continue
