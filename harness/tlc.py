"""Run TLC (and SANY) from Python, parse what it prints.

Everything the checks know about the model comes through here:
  * run(...)            one TLC invocation (model checking, -simulate, or trace validation)
  * TLCResult.printed   JSON values printed by the spec with PrintT(ToJson(v))
  * TLCResult.states / .distinct / .coverage
A TLC run that does not finish normally is a *machinery failure* (MachineryError -> exit 2),
never a property verdict, unless the caller passes expect_violation=True (used when a model is
deliberately run with a deviation action enabled).
"""
import json
import os
import random
import re
import shutil
import subprocess
import sys
import time

VERIF = os.path.dirname(os.path.dirname(os.path.abspath(__file__)))
SPECS = os.path.join(VERIF, "specs")
WORK = os.environ.get("VERIF_WORK", os.path.join(VERIF, ".work"))
JAR = "/opt/veriftools/tla/tla2tools.jar"
CM = "/opt/veriftools/tla/CommunityModules-deps.jar"
NCPU = os.cpu_count() or 4


class MachineryError(Exception):
    pass


class TLCResult(object):
    def __init__(self):
        self.rc = None
        self.out = ""
        self.states = 0  # states generated (= transitions + initial states)
        self.distinct = 0
        self.depth = 0
        self.printed = []  # decoded JSON values, in output order
        self.coverage = {}  # action name -> (distinct, taken)
        self.violation = None  # text of the first "Error:" block, if any
        self.wall = 0.0
        self.cmd = ""

    @property
    def transitions(self):
        return max(self.states - 1, 0)


def workdir(tag):
    d = os.path.join(WORK, "%s.%d" % (tag, os.getpid()))
    if os.path.isdir(d):
        shutil.rmtree(d)
    os.makedirs(d)
    return d


def cleanup(d):
    shutil.rmtree(d, ignore_errors=True)


_RE_STATES = re.compile(r"(\d+) states generated, (\d+) distinct states found")
_RE_SIMSTATES = re.compile(r"The number of states generated: (\d+)")
_RE_DEPTH = re.compile(r"The depth of the complete state graph search is (\d+)")
_RE_COV = re.compile(r"^<(\w+) line (\d+), col (\d+) to line (\d+), col (\d+) of module (\w+)>: (\d+):(\d+)")


def parse_output(res, out):
    for line in out.splitlines():
        if line.startswith('"') and line.endswith('"') and len(line) > 1:
            try:
                inner = json.loads(line)
                res.printed.append(json.loads(inner))
                continue
            except ValueError:
                pass
        m = _RE_STATES.search(line)
        if m:
            res.states = int(m.group(1))
            res.distinct = int(m.group(2))
            continue
        m = _RE_SIMSTATES.search(line)
        if m:
            res.states = int(m.group(1))
            res.distinct = max(res.distinct, 0)
            continue
        m = _RE_DEPTH.search(line)
        if m:
            res.depth = int(m.group(1))
            continue
        m = _RE_COV.match(line)
        if m:
            name = m.group(1)
            d, t = int(m.group(7)), int(m.group(8))
            old = res.coverage.get(name, (0, 0))
            res.coverage[name] = (old[0] + d, old[1] + t)
            continue
        if line.startswith("Error:") and res.violation is None:
            res.violation = line


class _Slots(object):
    """Machine-wide limit on concurrently running TLC JVMs (many checks / builders may share the box).
    A run takes 1 slot (workers <= 2) or 3 slots; slots are lock files under .work/slots."""
    N = int(os.environ.get("VERIF_TLC_SLOTS", "32"))

    def __init__(self, want):
        self.want = min(want, self.N)
        self.held = []

    def __enter__(self):
        import fcntl
        d = os.path.join(VERIF, ".work", "slots")
        os.makedirs(d, exist_ok=True)
        t0 = time.time()
        while len(self.held) < self.want:
            got = False
            for i in range(self.N):
                if any(i == h[0] for h in self.held):
                    continue
                f = open(os.path.join(d, "slot%d" % i), "w")
                try:
                    fcntl.flock(f, fcntl.LOCK_EX | fcntl.LOCK_NB)
                    self.held.append((i, f))
                    got = True
                    if len(self.held) >= self.want:
                        break
                except OSError:
                    f.close()
            if len(self.held) < self.want:
                if not got:
                    # do not sit on a partial set while others wait (deadlock avoidance)
                    if len(self.held) > 0 and time.time() - t0 > 5:
                        for _, f in self.held:
                            f.close()
                        self.held = []
                    time.sleep(0.2 + 0.3 * random.random())
        return self

    def __exit__(self, *a):
        for _, f in self.held:
            try:
                f.close()
            except Exception:
                pass
        self.held = []


def run(module, cfg, specdir=None, workers=None, simulate=None, depth=None, seed=None,
        env=None, timeout=3600, coverage=False, expect_violation=False, deadlock=None,
        xss="512m", xmx="8g", tag=None, extra=(), dfs=False, keep=False, spool=None):
    """Run TLC on specs/<specdir>/<module>.tla with <cfg> (path relative to the module dir).

    simulate: None or "num=N" (N behaviours); depth for -simulate.
    Returns TLCResult; raises MachineryError on anything but a clean finish
    (or a reported invariant violation when expect_violation).
    """
    sdir = SPECS if specdir is None else (specdir if os.path.isabs(specdir) else os.path.join(SPECS, specdir))
    tag = tag or module
    meta = workdir("tlc_" + tag)
    jopts = ["-Xss" + xss, "-Xmx" + xmx, "-XX:+UseParallelGC"]
    if dfs:
        jopts.append("-Dtlc2.tool.queue.IStateQueue=StateDeque")
    libpath = os.path.join(SPECS, "lib")
    jopts.append("-DTLA-Library=" + libpath)
    cmd = ["java"] + jopts + ["-cp", JAR + ":" + CM, "tlc2.TLC",
                              "-workers", str(workers or NCPU), "-metadir", meta, "-noGenerateSpecTE",
                              "-config", cfg]
    if simulate is not None:
        cmd += ["-simulate", simulate]
        if depth is not None:
            cmd += ["-depth", str(depth)]
        if seed is not None:
            cmd += ["-seed", str(seed)]
    if coverage:
        cmd += ["-coverage", "1"]
    if deadlock is False:
        cmd += ["-deadlock"]
    cmd += list(extra)
    cmd += [module + ".tla"]
    e = dict(os.environ)
    e.pop("JAVA_TOOL_OPTIONS", None)
    if env:
        e.update({k: str(v) for k, v in env.items()})
    res = TLCResult()
    res.cmd = " ".join(cmd)
    nworkers = int(workers or NCPU)
    slots = _Slots(1 if nworkers <= 2 else 3)
    slots.__enter__()
    t0 = time.time()
    try:
        if spool:
            # printed values go to the spool file (one JSON-in-a-TLA-string per line); only the
            # other lines are kept in memory
            with open(spool, "wb") as fo:
                p = subprocess.run(cmd, cwd=sdir, env=e, stdout=fo, stderr=subprocess.STDOUT, timeout=timeout)
            keepl = []
            with open(spool, "rb") as fi:
                for bl in fi:
                    if not bl.startswith(b'"'):
                        keepl.append(bl.decode("utf-8", "replace"))
            out = "".join(keepl)
        else:
            p = subprocess.run(cmd, cwd=sdir, env=e, stdout=subprocess.PIPE, stderr=subprocess.STDOUT,
                               timeout=timeout)
            out = p.stdout.decode("utf-8", "replace")
    except subprocess.TimeoutExpired as ex:
        slots.__exit__()
        cleanup(meta)
        raise MachineryError("TLC timeout after %ss: %s" % (timeout, res.cmd))
    except BaseException:
        slots.__exit__()
        raise
    slots.__exit__()
    res.wall = time.time() - t0
    res.rc = p.returncode
    res.out = out
    parse_output(res, res.out)
    if not keep:
        cleanup(meta)
    finished = ("Model checking completed" in res.out) or ("Finished in" in res.out) or \
               (simulate is not None and "The number of states generated" in res.out)
    if res.rc == 0 and finished:
        return res
    if expect_violation and res.rc in (12, 13) and res.violation:
        return res
    tail = "\n".join(res.out.splitlines()[-40:])
    raise MachineryError("TLC failed rc=%s cmd=%s\n%s" % (res.rc, res.cmd, tail))


def sany(module, specdir=None):
    sdir = SPECS if specdir is None else os.path.join(SPECS, specdir)
    cmd = ["java", "-DTLA-Library=" + os.path.join(SPECS, "lib"), "-cp", JAR + ":" + CM,
           "tla2sany.SANY", module + ".tla"]
    p = subprocess.run(cmd, cwd=sdir, stdout=subprocess.PIPE, stderr=subprocess.STDOUT)
    out = p.stdout.decode("utf-8", "replace")
    ok = p.returncode == 0 and "Semantic errors" not in out and "***Parse Error***" not in out \
        and "Fatal" not in out
    return ok, out


def write_ndjson(path, records):
    with open(path, "w") as f:
        for r in records:
            f.write(json.dumps(r, separators=(",", ":")))
            f.write("\n")


def shard(seq, n):
    """Split seq into at most n contiguous shards of near-equal size (no empty shards)."""
    seq = list(seq)
    n = max(1, min(n, len(seq)))
    k, r = divmod(len(seq), n)
    out, i = [], 0
    for s in range(n):
        j = i + k + (1 if s < r else 0)
        out.append(seq[i:j])
        i = j
    return out


if __name__ == "__main__":
    ok, out = sany(sys.argv[1], sys.argv[2] if len(sys.argv) > 2 else None)
    print(out)
    sys.exit(0 if ok else 1)


def iter_spool(path):
    """yield decoded JSON values from a spool file written by run(spool=...)"""
    with open(path, "rb") as f:
        for bl in f:
            if bl.startswith(b'"'):
                try:
                    yield json.loads(json.loads(bl.decode("utf-8")))
                except ValueError:
                    continue


def spool_chunks(path, nchunks):
    """byte ranges [(lo,hi)] of the spool file aligned on line boundaries"""
    size = os.path.getsize(path)
    if size == 0:
        return []
    step = max(1, size // nchunks)
    cuts = [0]
    with open(path, "rb") as f:
        pos = step
        while pos < size:
            f.seek(pos)
            f.readline()
            q = f.tell()
            if q >= size:
                break
            if q > cuts[-1]:
                cuts.append(q)
            pos = q + step
    cuts.append(size)
    return [(cuts[i], cuts[i + 1]) for i in range(len(cuts) - 1) if cuts[i + 1] > cuts[i]]


def iter_spool_range(path, lo, hi):
    with open(path, "rb") as f:
        f.seek(lo)
        while f.tell() < hi:
            bl = f.readline()
            if not bl:
                break
            if bl.startswith(b'"'):
                try:
                    yield json.loads(json.loads(bl.decode("utf-8")))
                except ValueError:
                    continue
