"""Maintenance tool for C05/C11/C17 (not used by the checks): run a check over several seeds / tiers with
the known-findings list ignored, collect every failing key with one example, and print / merge them into
known_findings.d/<ID>.json.  Every entry written here must afterwards be reviewed as a genuine defect
(each carries a self-contained repro line).

usage: PYTHONPATH=/repo:/verif python -m harness.dec_findings C17 --seeds 0 1 2 --tier quick [--write]
"""
import argparse
import importlib
import json
import os
import sys

from . import framework, tlc


def repro_for(pid, key, case):
    tr = (case or {}).get("trace") or {}
    m = tr.get("m", "?/?")
    isa, mode = (m.split("/") + ["?"])[:2]
    if pid == "C17" and "in" in tr:
        line = case.get("line", 1)
        st = tr["ev"][line - 1].get("st", "decode")
        syn = tr["ev"][line - 1].get("syn")
        return ("PYTHONPATH=/repo:/verif /venv/bin/python -m harness.dec_repro %s %s %s %s%s"
                % (isa, mode, bytes(tr["in"]).hex() or '""', st, (" " + syn) if syn else ""))
    if pid == "C05" and tr.get("ev"):
        ins = " ".join(bytes(e["in"]).hex() or '""' for e in tr["ev"])
        return "PYTHONPATH=/repo:/verif /venv/bin/python -m harness.dec_repro %s %s family %s" % (isa, mode, ins)
    if pid == "C11" and tr.get("ev"):
        ins = " ".join(bytes(e["in"]).hex() or '""' for e in tr["ev"])
        return "PYTHONPATH=/repo:/verif /venv/bin/python -m harness.dec_repro %s %s history %s" % (isa, mode, ins)
    return ""


def deep(a):
    import multiprocessing as mp
    from . import c17, dec_common as D
    import checks.C17 as C
    found = {}
    fill = ["zeros", "ones"] + ["boundary"] * (a.deep // 2) + ["random"] * a.deep + ["random+p"] * (a.deep // 4)
    for seed in a.seeds:
        with mp.get_context("fork").Pool(tlc.NCPU, maxtasksperchild=1) as pool:
            counts = pool.map(c17.spec_count, D.isa_modes())
            jobs = []
            for isa, mode, n, err in counts:
                step = max(8, -(-n // 12))
                for lo in range(0, n, step):
                    jobs.append((isa, mode, lo, min(n, lo + step), fill, seed))
            outs = pool.map(c17.deep_chunk, jobs, chunksize=1)
        ninputs = 0
        for o in outs:
            ninputs += o["n"]
            for tr in o["traces"]:
                line = tr["line"]
                e = tr["ev"][line - 1]
                clauses = []
                if e["k"] == "raised":
                    clauses.append("Raised")
                elif e["st"] == "decode" and e["k"] == "instr":
                    if not (e["mnstr"] == 1 and e["mnlen"] >= 1):
                        clauses.append("Mnemonic")
                    if e["type"] not in range(-1, 6):
                        clauses.append("Type")
                    if e["len"] < 1:
                        clauses.append("Length")
                    if e["opsl"] != 1 or any(k != "exp" for k in e["opk"]):
                        clauses.append("Operands")
                for cl in clauses:
                    k = C.fail_key(tr, line, cl)
                    if k not in found:
                        found[k] = (C.describe(tr, line, cl), {"trace": tr, "line": line})
        print("deep seed %d: %d inputs, %d candidate keys so far" % (seed, ninputs, len(found)))
        sys.stdout.flush()
    if a.dump:
        json.dump(sorted(found), open(a.dump, "w"), indent=0)
    merge("C17", found, a.write)


def merge(pid, found, write):
    path = os.path.join(tlc.VERIF, "known_findings.d", pid + ".json")
    old = {"findings": []}
    if os.path.exists(path):
        old = json.load(open(path))
    have = set(f["key"] for f in old["findings"])
    added = 0
    for k in sorted(found):
        what, case = found[k]
        if k in have:
            continue
        added += 1
        old["findings"].append({"property": pid, "status": "known", "key": k, "what": what[:300],
                                "repro": repro_for(pid, k, case)})
        print("NEW", k, "::", what[:200])
    print("%d keys observed, %d not yet listed" % (len(found), added))
    if write:
        old["findings"].sort(key=lambda f: f["key"])
        with open(path, "w") as f:
            json.dump(old, f, indent=1)
        print("written", path)


def main():
    ap = argparse.ArgumentParser()
    ap.add_argument("pid")
    ap.add_argument("--seeds", type=int, nargs="+", default=[0])
    ap.add_argument("--tier", default="quick")
    ap.add_argument("--write", action="store_true")
    ap.add_argument("--dump", default=None, help="write the list of observed keys to this JSON file (used to prune stale entries)")
    ap.add_argument("--deep", type=int, default=0,
                    help="C17 only: decode+render discovery with N random fillings per spec (no TLC: clauses are "
                         "mimicked here only to NAME candidate keys; the check itself stays TLC-judged)")
    a = ap.parse_args()
    if a.deep:
        return deep(a)
    mod = importlib.import_module("checks." + a.pid)
    found = {}
    for seed in a.seeds:
        ctx = framework.Ctx(a.pid, a.tier, seed)
        ctx.known = []
        seen = {}

        def fail(key, what, replay_obj=None, seen=seen):
            if key not in seen:
                seen[key] = (what, replay_obj)
            return True
        ctx.fail = fail
        mod.run(ctx)
        for ck, fines in ctx.extra.get("apply_crashes_by_class", {}).items():
            ex = [seen[f] for f in fines if f in seen]
            isa, exc, at = ck.split(":")[1], ck.split(":")[3], ":".join(ck.split(":")[4:])
            seen[ck] = ("%s: semantics functions fail for some operand values with %s in %s (class of apply-stage "
                        "crashes, %d functions seen; e.g. %s)" % (isa, exc, at, len(fines), ex[0][0] if ex else "?"),
                        ex[0][1] if ex else None)
        new = [k for k in seen if k not in found]
        for k in new:
            found[k] = seen[k]
        print("seed %d: %d keys, %d new (total %d), evaluations %d, drive %ss validate %ss" % (seed, len(seen), len(new), len(found), ctx.evaluations, ctx.extra.get("wall_drive_s"), ctx.extra.get("wall_validate_s")))
        print("   ", dict((k, v) for k, v in ctx.extra.items() if k.startswith("wall_")), [(r["kind"], r["wall_s"]) for r in ctx.tlc_runs if not r["kind"].startswith("T:")])
        sys.stdout.flush()
    if a.dump:
        json.dump(sorted(found), open(a.dump, "w"), indent=0)
    path = os.path.join(tlc.VERIF, "known_findings.d", a.pid + ".json")
    old = {"findings": []}
    if os.path.exists(path):
        old = json.load(open(path))
    have = set(f["key"] for f in old["findings"])
    added = 0
    for k in sorted(found):
        what, case = found[k]
        if k in have:
            continue
        added += 1
        old["findings"].append({"property": a.pid, "status": "known", "key": k, "what": what[:300],
                                "repro": repro_for(a.pid, k, case)})
        print("NEW", k, "::", what[:200])
    print("%d keys observed, %d not yet listed" % (len(found), added))
    if a.write:
        old["findings"].sort(key=lambda f: f["key"])
        with open(path, "w") as f:
            json.dump(old, f, indent=1)
        print("written", path)


if __name__ == "__main__":
    main()
