"""C20 maintenance helper (not used by the check):  python -m harness.c20findings <tier> <seed> [<seed> ...]

Runs the C20 pipeline with NO known finding loaded, collects every failing key with its smallest example and
prints known_findings.d entries (with a self-contained repro one-liner) for the keys that are not listed yet in
known_findings.d/C20.json.  A human reads them, reproduces, and pastes."""
import json
import os
import sys

from . import framework, tlc, c20


def repro(case, data, base):
    if len(data) <= 96 or base is None:
        return "python -c \"import amoco.system.core as c; c.read_program(bytes.fromhex('%s'))\"" % data.hex()
    src = base["src"].split(":", 1)
    path = ("/repo/" if src[0] == "repo" else "/verif/corpus/ident/") + src[1]
    orig = base["data"]
    edits = []
    i, n = 0, min(len(orig), len(data))
    while i < n:
        if orig[i] != data[i]:
            j = i
            while j < n and (orig[j] != data[j] or (j + 1 < n and orig[j + 1] != data[j + 1])):
                j += 1
            edits.append("b[%d:%d]=bytes.fromhex('%s')" % (i, j, data[i:j].hex()))
            i = j
        else:
            i += 1
    if len(data) < len(orig):
        edits.append("del b[%d:]" % len(data))
    return "python -c \"import amoco.system.core as c; b=bytearray(open('%s','rb').read()); %s; c.read_program(bytes(b))\"" % (
        path, "; ".join(edits))


def main():
    from checks import C20 as K
    tier = sys.argv[1]
    listed = set()
    kf = os.path.join(tlc.VERIF, "known_findings.d", "C20.json")
    if os.path.exists(kf):
        listed = set(f["key"] for f in json.load(open(kf))["findings"])
    state = os.environ.get("C20_STATE", os.path.join(tlc.WORK, "c20findings_state.json"))
    collector = json.load(open(state)) if os.path.exists(state) and "--resume" in sys.argv else {}
    for seed in [int(x) for x in sys.argv[2:] if x != "--resume"]:
        ctx = framework.Ctx("C20", tier, seed)
        ctx.known = []
        K.campaign(ctx, collector)
        print("seed %d: %d failing keys so far" % (seed, len(collector)), file=sys.stderr)
        with open(state, "w") as f:      # survive a crash of the (long) campaign
            json.dump(collector, f)
    bases, _ = c20.load_bases()
    byid = dict((b["id"], b) for b in bases)
    out = []
    for key in sorted(collector):
        _, case, r, clause = collector[key]
        data = c20.concretise(case, byid)
        info = r["info"]
        what = "%s: read_program %s at the %s stage (%s), e.g. on [%s]" % (
            clause.split(":")[0], {"raise": "lets %s escape" % info.get("exc"), "timeout": "does not terminate",
                                   "exhaust": "raises %s (allocation/recursion)" % info.get("exc"),
                                   "killed": "kills the interpreter"}.get(info["kind"], "misbehaves"),
            info.get("stage"), info.get("frame"), c20.describe(case, byid))
        e = {"property": "C20", "status": "known", "key": key, "what": what,
             "repro": repro(case, data, byid.get(case["b"]))}
        if key not in listed:
            out.append(e)
    print(json.dumps({"findings": out}, indent=1))
    print("%d new keys (%d already listed)" % (len(out), len(collector) - len(out)), file=sys.stderr)


if __name__ == "__main__":
    main()
