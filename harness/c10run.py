"""C10 pipeline: pools (scratch process per ISA) -> base (fresh process per block) -> histories from TLC
(specs/History.tla) -> executed per ISA (harness/c10child.py hist: one fork of a pristine process per history)
-> validated by TLC (specs/HistoryTrace.tla) -> failures keyed (isa, leaking instruction > witness, register)."""
import json
import os
import subprocess
import sys
from concurrent.futures import ThreadPoolExecutor

from . import tlc, c02isa


def _env(repo=None):
    env = dict(os.environ)
    env["PYTHONPATH"] = (repo or os.environ.get("VERIF_REPO", "/repo")) + os.pathsep + tlc.VERIF
    env["PYTHONHASHSEED"] = "0"
    env["PYTHONDONTWRITEBYTECODE"] = "1"
    return env


def child(args, repo=None, timeout=3000):
    p = subprocess.run([sys.executable, "-m", "harness.c10child"] + [str(a) for a in args], cwd=tlc.VERIF, env=_env(repo),
                       stdout=subprocess.PIPE, stderr=subprocess.STDOUT, timeout=timeout)
    if p.returncode != 0:
        raise tlc.MachineryError("c10child %s failed: %s" % (args[:2], p.stdout.decode("utf-8", "replace")[-1500:]))


def build_pools(names, wd, repo=None):
    def one(n):
        path = os.path.join(wd, "pool_%s.json" % n)
        child(["pool", n, path], repo)
        with open(path) as f:
            return n, json.load(f)
    with ThreadPoolExecutor(min(tlc.NCPU, max(1, len(names)))) as ex:
        return dict(ex.map(one, names))


def build_bases(pools, wd, repo=None):
    jobs = []
    for n, pool in pools.items():
        for b in pool["blocks"]:
            jobs.append((n, b["id"]))

    def one(job):
        n, b = job
        out = os.path.join(wd, "base_%s_%d.json" % (n, b))
        child(["base", n, os.path.join(wd, "pool_%s.json" % n), b, out], repo)
        with open(out) as f:
            return n, json.load(f)
    bases = {}
    with ThreadPoolExecutor(min(tlc.NCPU, max(1, len(jobs)))) as ex:
        for n, o in ex.map(one, jobs):
            bases.setdefault(n, []).append(o)
    return bases


def concretise(h, nblocks):
    """abstract history (block ids 1..6) -> history over the blocks the pool of this ISA has"""
    out = []
    for a in h:
        a = dict(a)
        if "b" in a:
            a["b"] = ((a["b"] - 1) % nblocks) + 1
        out.append(a)
    return out


def run_histories(pools, hists, wd, trees=False, repo=None, npar=None, suffix=""):
    """hists: {isa: [{"t": id, "h": [...]}]} -> {isa: [log]}; the pool file of isa n is wd/pool_<n><suffix>.json"""
    names = [n for n in hists if hists[n]]
    npar = npar or max(1, tlc.NCPU // max(1, min(len(names), tlc.NCPU // 2 or 1)))

    def one(n):
        hp = os.path.join(wd, "hist_%s%s_%d.json" % (n, suffix, 1 if trees else 0))
        op = os.path.join(wd, "log_%s%s_%d.ndjson" % (n, suffix, 1 if trees else 0))
        with open(hp, "w") as f:
            json.dump([{"t": x["t"], "h": x["h"], "trees": 1 if trees else 0} for x in hists[n]], f)
        child(["hist", n, os.path.join(wd, "pool_%s%s.json" % (n, suffix)), hp, op, npar], repo)
        logs = []
        with open(op) as f:
            for line in f:
                line = line.strip()
                if line:
                    logs.append(json.loads(line))
        return n, logs
    out = {}
    with ThreadPoolExecutor(min(max(1, tlc.NCPU // 2), max(1, len(names)))) as ex:
        for n, logs in ex.map(one, names):
            out[n] = logs
    return out


def strip_for_tlc(log):
    """what HistoryTrace.tla reads (the globals / trees stay on the Python side for reporting)"""
    steps = []
    for s in log["steps"]:
        d = {"act": s["act"], "raised": s["raised"],
             "obs": [{"k": o["k"], "b": o["b"], "vals": o["vals"]} for o in s["obs"]]}
        if "b" in s:
            d["b"] = s["b"]
        if "skipped" in s:
            d["skipped"] = 1
        steps.append(d)
    return {"kind": "hist", "t": log["t"], "isa": log["isa"], "steps": steps}


def _validate(args):
    path, tag = args
    return tlc.run("HistoryTrace", "HistoryTrace.cfg", workers=1, env={"TRACE_FILE": path}, tag=tag,
                   timeout=6000, xmx="3g", xss="512m")


def validate(logs, bases, wd, tag="c10T"):
    """logs: {isa: [log]}, bases: {isa: [base]} -> {(isa, t): verdict}, [TLCResult]"""
    paths = []
    for n, ll in logs.items():
        good = [l for l in ll if "steps" in l]
        if not good:
            continue
        base = {"kind": "base", "isa": n, "t": 0,
                "blocks": [{"b": b["b"], "raised": b["raised"], "vals": b["vals"]} for b in bases.get(n, [])]}
        nsh = max(1, min(4, len(good) // 150))
        for i in range(nsh):
            part = good[i::nsh]
            p = os.path.join(wd, "%s_%s_%d.ndjson" % (tag, n, i))
            tlc.write_ndjson(p, [base] + [strip_for_tlc(l) for l in part])
            paths.append((p, "%s%s%d" % (tag, n, i)))
    with ThreadPoolExecutor(min(tlc.NCPU, max(1, len(paths)))) as tp:
        results = list(tp.map(_validate, paths))
    verdicts = {}
    for res in results:
        for v in res.printed:
            verdicts[(v["isa"], v["t"])] = v["v"]
    return verdicts, results


# ----------------------------------------------------------------------------------------------------------
# reporting: which node changed

def sf_leaves(t, path, out):
    """(path, name, sf) of every reg / slc-of-reg node of a serialised tree"""
    if isinstance(t, dict):
        if t.get("k") == "reg":
            out.append((path, t.get("n"), t.get("sf")))
        elif t.get("k") == "slc" and isinstance(t.get("x"), dict) and t["x"].get("k") == "reg":
            out.append((path + "/slc", t["x"].get("n"), t.get("sf")))
        for k in sorted(t):
            sf_leaves(t[k], path + "/" + k, out)
    elif isinstance(t, list):
        for i, x in enumerate(t):
            sf_leaves(x, path + "/%d" % i, out)


def changed_regs(tree_a, tree_b):
    """register names whose leaf flag differs between two serialisations of the same location"""
    a, b = [], []
    sf_leaves(tree_a, "", a)
    sf_leaves(tree_b, "", b)
    da = dict(((p, n), s) for p, n, s in a)
    out = set()
    for p, n, s in b:
        if (p, n) in da and da[(p, n)] != s:
            out.add(n)
    return sorted(out)


def loc_name(s):
    return s.split("=", 1)[0] if isinstance(s, str) else "?"


def split_pool(pool):
    """the pool with every instruction as a block of its own: (pool2, {(block id, index): new id})"""
    blocks, ids = [], {}
    for b in pool["blocks"]:
        for i, (c, mn) in enumerate(zip(b["code"], b["mnem"])):
            nid = len(blocks) + 1
            ids[(b["id"], i)] = nid
            blocks.append({"id": nid, "role": b["role"], "code": [c], "mnem": [mn], "of": b["id"]})
    p2 = dict(pool)
    p2["blocks"] = blocks
    return p2, ids


def first_pass_suspects(log, d):
    """(actions that may have caused failure d of history log, witness block): for Stable the acting step,
    for HistoryFree every earlier step"""
    s = d["step"]
    if d["clause"] == "Stable":
        return [log["steps"][s - 1]], d["b"]
    return list(log["steps"][:s - 1]), d["b"]


def blame_histories(pool, ids, suspects):
    """mini-histories over the split pool: for every suspect action a and every instruction V_j of the witness
    block:  [Analyse(V_j), a_i]  (does a_i change the stored meaning?)  and  [a_i, Analyse(V_j)]  (does V_j mean
    something else after a_i?), a_i ranging over the single instructions of a's block (or a itself)"""
    blocks = dict((b["id"], b) for b in pool["blocks"])
    out, seen = [], set()
    base_needed = set()
    for act, vb in suspects:
        if vb not in blocks:
            continue
        vjs = [ids[(vb, j)] for j in range(len(blocks[vb]["code"]))]
        if act["act"] in ("Analyse", "Decode") and act.get("b") in blocks:
            alts = [{"act": act["act"], "b": ids[(act["b"], i)]} for i in range(len(blocks[act["b"]]["code"]))]
        elif act["act"] == "Reevaluate":
            alts = [{"act": "Reevaluate", "k": 1, "env": act.get("env", "partial")}]
        elif act["act"] == "Unrelated":
            alts = [{"act": "Unrelated", "h": act.get("h", "fmt")}]
        else:
            continue
        for vj in vjs:
            base_needed.add(vj)
            for a in alts:
                if a["act"] == "Analyse":
                    base_needed.add(a["b"])
                hs = [[{"act": "Analyse", "b": vj}, a]]
                if a["act"] in ("Analyse", "Decode"):
                    hs.append([a, {"act": "Analyse", "b": vj}])
                for h in hs:
                    k = json.dumps(h, sort_keys=True)
                    if k not in seen:
                        seen.add(k)
                        out.append(h)
    return out, sorted(base_needed)


def actor_name(a, blocks):
    if a["act"] in ("Analyse", "Decode"):
        mn = "/".join(blocks[a["b"]]["mnem"]) if a.get("b") in blocks else "?"
        return mn if a["act"] == "Analyse" else "Decode(%s)" % mn
    if a["act"] == "Reevaluate":
        return "Reevaluate(%s)" % a.get("env")
    return "Unrelated(%s)" % a.get("h")


def blame_key(isa, log, d, pool2, base_tree):
    """key + text of a failing mini-history (two single-instruction blocks): which register leaf changed"""
    blocks = dict((b["id"], b) for b in pool2["blocks"])
    s = d["step"]
    st = log["steps"][s - 1]
    loc = loc_name(d["before"]) if d["before"] not in ("?", "nobase") else loc_name(d["after"])
    if d.get("locidx") == -1:
        loc = "*"                       # the evaluation as a whole changed (one of them raised)
    witness = "/".join(blocks[d["b"]]["mnem"]) if d["b"] in blocks else "?"
    regs = []

    def diff(ta, tb):
        if not (isinstance(ta, dict) and isinstance(tb, dict)):
            return []
        if loc in ta and loc in tb:
            return changed_regs(ta[loc], tb[loc])
        out = set()
        for k_ in ta:                       # the evaluation as a whole changed (raised): any location
            if k_ in tb:
                out.update(changed_regs(ta[k_], tb[k_]))
        return sorted(out)
    if d["clause"] == "Stable" and s >= 2:
        ta = [o for o in log["steps"][s - 2]["obs"] if o["k"] == d["k"]]
        tb = [o for o in st["obs"] if o["k"] == d["k"]]
        if ta and tb:
            regs = diff(ta[0].get("tree"), tb[0].get("tree"))
        actor = actor_name(log["steps"][s - 1], blocks)
    else:
        tb = [o for o in st["obs"] if o["k"] == d["k"]]
        if tb:
            regs = diff(base_tree, tb[0].get("tree"))
        actor = actor_name(log["steps"][0], blocks) if s >= 2 else "?"
    rn = ",".join(regs) if regs else "none"
    key = "C10:%s:%s>%s:%s.sf" % (isa, actor, witness, rn)
    arec = log["steps"][s - 1] if d["clause"] == "Stable" else log["steps"][0]
    abytes = ""
    if arec.get("act") in ("Analyse", "Decode") and arec.get("b") in blocks:
        abytes = " (bytes %s)" % " ".join(bytes(c).hex() for c in blocks[arec["b"]]["code"])
    what = ("%s: after `%s`%s the map of `%s` (bytes %s) %s: amoco's own evaluation of location %s on valuation %d is %s instead of %s; "
            "sf flag changed on the shared register object(s) %s"
            % (isa, actor, abytes, witness, " ".join(bytes(c).hex() for c in blocks[d["b"]]["code"]) if d["b"] in blocks else "?",
               "changes its meaning (Stable)" if d["clause"] == "Stable" else "differs from its meaning in a fresh process (HistoryFree)",
               loc, d["val"], d["after"], d["before"], rn))
    return key, what


def describe(log, base, d, pool):
    """key + text for one failing clause `d` (decoded HistoryTrace detail) of history `log` (executed with
    trees).  key: C10:<isa>:<leaking instruction(s)>><witness instruction>:<register>.sf"""
    isa = log["isa"]
    s = d["step"]
    st = log["steps"][s - 1]
    loc = loc_name(d["before"]) if d["before"] not in ("?", "nobase") else loc_name(d["after"])
    blocks = dict((b["id"], b) for b in pool["blocks"])
    vb = d["b"]
    # witness instruction: the last instruction of the witness block that wrote the location
    witness = "/".join(blocks[vb]["mnem"]) if vb in blocks else "?"
    per_w = None
    if d["clause"] == "Stable":
        for q in log["steps"][:s]:
            if any(o["k"] == d["k"] for o in q["obs"]):
                per_w = q.get("per")      # the step that created handle k
                break
    else:
        per_w = st.get("per")
    if per_w:
        for p in per_w:
            if loc in p.get("w", []):
                witness = p["mn"]
    # which register leaf changed its flag
    regs = []
    if d["clause"] == "Stable" and s >= 2:
        ta = [o for o in log["steps"][s - 2]["obs"] if o["k"] == d["k"]]
        tb = [o for o in st["obs"] if o["k"] == d["k"]]
        if ta and tb and isinstance(ta[0].get("tree"), dict) and isinstance(tb[0].get("tree"), dict):
            regs = changed_regs(ta[0]["tree"].get(loc), tb[0]["tree"].get(loc))
    elif d["clause"] == "HistoryFree":
        tb = [o for o in st["obs"] if o["k"] == d["k"]]
        if tb and isinstance(tb[0].get("tree"), dict):
            lv = []
            sf_leaves(tb[0]["tree"].get(loc), "", lv)
            regs = sorted(set(n for _p, n, sf in lv if sf))
    # who wrote those flags: for Stable the acting step, for HistoryFree the last earlier step that set them
    def writers(step_rec, regs):
        out = []
        for p in step_rec.get("per", []) or []:
            hit = set(p.get("set", []) + p.get("clr", []))
            if not regs or hit & set(regs) or any(r in hit for r in regs):
                if hit:
                    out.append(p["mn"])
        return out
    slc_of = pool.get("slc_base", {})
    rnames = set(regs) | set(k for k, v in slc_of.items() if v in regs)
    if d["clause"] == "Stable":
        if st["act"] == "Analyse":
            w = writers(st, rnames)
            leaker = "+".join(sorted(set(w))) if w else "Analyse(%s)" % "/".join(st.get("mnem", []))
        else:
            leaker = st["act"] + ("(%s)" % st.get("env", st.get("h", "")) if st["act"] != "Decode" else "")
    else:
        leaker = "?"
        for q in reversed(log["steps"][:s - 1]):
            if q["act"] == "Analyse":
                w = writers(q, rnames)
                if w:
                    leaker = "+".join(sorted(set(w)))
                    break
            elif set(q["g"]["sf"]) != set(log["g0"]["sf"]):
                leaker = q["act"]
        if leaker == "?" and regs == []:
            leaker = "history"
    what_regs = ",".join(regs) if regs else "none"
    key = "C10:%s:%s>%s:%s.sf" % (isa, leaker, witness, what_regs)
    hist = " ; ".join("%s(%s)" % (q["act"], q.get("b", q.get("k", q.get("h", "")))) for q in log["steps"][:s])
    what = ("%s: %s of location %s of block %d (%s) - amoco's own evaluation %s -> %s on valuation %d after history %s; "
            "flag changed on shared register object(s): %s (written by %s)"
            % (isa, "meaning changed" if d["clause"] == "Stable" else "meaning differs from a fresh process",
               loc, vb, witness, d["before"], d["after"], d["val"], hist, what_regs, leaker))
    return key, what
