"""Collect the C06 finding keys observed on the tree under VERIF_REPO (how known_findings.d/C06.json was derived).

    cd /verif && PYTHONPATH=$VERIF_REPO:/verif /venv/bin/python -m harness.c06findings x86 <corpus vectors> <host vectors> <seed> > keys.json

Runs the same pipeline as checks/C06.py (amoco vs processor, judged by specs/X86Trace.tla) with known findings switched
off and prints every key with its count and one example.  Each key class was then reviewed by hand (reproduced with
harness/c06repro.py) before it was listed as a finding."""
import json
import random
import sys

from . import framework, tlc, c06x86


class Collect(framework.Ctx):
    def __init__(self, seed):
        framework.Ctx.__init__(self, "C06", "quick", seed)
        self.known = []
        self.keys = {}

    def fail(self, key, what, replay_obj=None):
        d = self.keys.setdefault(key, {"n": 0, "what": what})
        d["n"] += 1
        return True


def main(argv):
    import checks.C06 as C
    ncorp, nhost, seed = int(argv[1]), int(argv[2]), int(argv[3])
    ctx = Collect(seed)
    forms, enc = C.x86_forms(ctx)
    rng = random.Random(seed)
    meta, lines = c06x86.load_corpus()
    pick = lines if ncorp >= len(lines) else rng.sample(lines, ncorp)
    vc = [x for x in (c06x86.corpus_vector(d, forms, enc) for d in pick) if x]
    C.x86_batch(ctx, [v for v, _ in vc], [c for _, c in vc], "corpus")
    if nhost and c06x86.have_runner():
        recs = sorted(forms.values(), key=c06x86.form_key)
        vs = [v for v in (c06x86.concretise(rng.choice(recs), rng, enc) for _ in range(nhost)) if v]
        cpus = c06x86.native_parallel(vs, 4)
        keep = [(v, c) for v, c in zip(vs, cpus) if c is not None and (c["sig"] == 0 or 0 < c["sig"] < 64)]
        C.x86_batch(ctx, [v for v, _ in keep], [c for _, c in keep], "host")
    json.dump({"keys": ctx.keys, "drift": ctx.drifts, "extra": ctx.extra}, sys.stdout, indent=1, sort_keys=True, default=str)


if __name__ == "__main__":
    main(sys.argv[1:])
