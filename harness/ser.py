"""Read-only projections of amoco objects.

Nothing here calls str(), simplify(), eval() or any operator of the expression being observed:
observing must not trigger the in-place rewrites that some of the properties are about.
Only attributes are read.
"""
from amoco.cas import expressions as X

LIMB = 16


def limbs(v, w):
    """non-negative int v of width w -> little-endian 16-bit limbs (TLC ints are 32-bit)."""
    v &= (1 << w) - 1
    out = []
    for _ in range(max(1, (w + LIMB - 1) // LIMB)):
        out.append(v & 0xFFFF)
        v >>= LIMB
    return out


def unlimbs(l):
    v = 0
    for i, x in enumerate(l):
        v |= x << (LIMB * i)
    return v


def is_exp(x):
    return isinstance(x, X.exp)


def kind(e):
    """etype-based classification that does not depend on class identity (top-ified nodes keep class)."""
    if not is_exp(e):
        return "raw"
    t = e.etype
    if t < 0:
        return "top"
    if t == 0:
        return "bot"
    if t & X.et_vec:
        return "vec"
    if t & X.et_cst:
        return "cst"
    if t & X.et_slc:
        return "slc"      # a slice of a register/ext keeps the base's type bits: test this first
    if t & X.et_lab:
        return "lab"
    if t & X.et_ext:
        return "ext"
    if t & X.et_reg:
        return "reg"
    if t & X.et_cmp:
        return "comp"
    if t & X.et_mem:
        return "mem"
    if t & X.et_ptr:
        return "ptr"
    if t & X.et_tst:
        return "tst"
    if t & X.et_eqn:
        return "op" if isinstance(e, X.op) else "uop"
    return "unk"


def resolve_bit(e, i, depth=0):
    """Structural origin of bit i of expression e: ('r', regname, bit) | ('c', 0|1) | ('?', kind).

    Follows only reg / cst / slc / comp nodes: these are the nodes MemoryZone creates when it
    cuts stored values, and their meaning is positional (no arithmetic involved).
    """
    k = kind(e)
    if k == "reg":
        return ("r", e.ref, i)
    if k == "cst":
        return ("c", (e.v >> i) & 1)
    if k == "slc":
        return resolve_bit(e.x, e.pos + i, depth + 1)
    if k == "comp":
        for (lo, hi), p in e.parts.items():
            if lo <= i < hi:
                return resolve_bit(p, i - lo, depth + 1)
        return ("?", "comp-gap")
    return ("?", k)


def byte_desc(e, k):
    """tuple of the 8 resolved bits of value-byte k of e"""
    return tuple(resolve_bit(e, 8 * k + t) for t in range(8))


def raw_desc(b):
    return tuple(("c", (b >> t) & 1) for t in range(8))


UNDEF = "U"


def bits(v, w):
    """non-negative int -> list of w bits, LSB first (the wire format of BitVec.tla)"""
    v &= (1 << w) - 1
    return [(v >> i) & 1 for i in range(w)]


def unbits(b):
    return sum((x & 1) << i for i, x in enumerate(b))


class Ids(object):
    """stable small integers for object identities, to make sharing visible in serialised trees"""

    def __init__(self):
        self.m = {}
        self.keep = []

    def __call__(self, o):
        k = id(o)
        if k not in self.m:
            self.m[k] = len(self.m) + 1
            self.keep.append(o)  # keep alive: id() must stay unique
        return self.m[k]


def tree(e, ids=None, depth=0):
    """JSON-able record of an expression tree (specs/lib/Expr.tla format). Attribute reads only."""
    if depth > 200:
        return {"k": "deep", "w": 0, "sf": 0}
    k = kind(e)
    if k == "raw":
        return {"k": "raw", "w": 8 * len(e), "sf": 0, "b": list(e)}
    d = {"k": k, "w": e.size, "sf": 1 if e.sf else 0}
    if ids is not None:
        d["id"] = ids(e)
    if k == "cst":
        d["v"] = bits(e.v, e.size)
    elif k in ("reg", "ext", "lab"):
        d["n"] = str(e.ref)
        if k != "reg":
            d["k"] = "ext"
    elif k == "slc":
        d["x"] = tree(e.x, ids, depth + 1)
        d["pos"] = e.pos
    elif k == "comp":
        d["parts"] = [{"pos": lo, "hi": hi, "t": tree(p, ids, depth + 1)} for (lo, hi), p in sorted(e.parts.items())]
    elif k == "tst":
        d["c"] = tree(e.tst, ids, depth + 1)
        d["l"] = tree(e.l, ids, depth + 1)
        d["r"] = tree(e.r, ids, depth + 1)
    elif k == "op":
        d["s"] = e.op.symbol
        d["l"] = tree(e.l, ids, depth + 1)
        d["r"] = tree(e.r, ids, depth + 1)
    elif k == "uop":
        d["s"] = e.op.symbol
        d["r"] = tree(e.r, ids, depth + 1)
    elif k == "ptr":
        d["base"] = tree(e.base, ids, depth + 1)
        d["dv"] = bits(e.disp, e.size)
        d["disp"] = e.disp if -2 ** 30 < e.disp < 2 ** 30 else 0
        sg = e.seg   # may be '', None or an expression: never compare an expression with != (overloaded)
        d["seg"] = "" if (sg is None or isinstance(sg, str)) else "seg"
    elif k == "mem":
        d["a"] = tree(e.a, ids, depth + 1)
        d["en"] = e.endian
        d["mods"] = [{"loc": tree(l, ids, depth + 1), "val": tree(v, ids, depth + 1)} for (l, v) in (e.mods or [])]
    elif k == "vec":
        d["l"] = [tree(x, ids, depth + 1) for x in e.l]
    return d
