"""Read-only projections of amoco objects.

Nothing here calls str(), simplify(), eval() or any operator of the expression being observed:
observing must not trigger the in-place rewrites that some of the properties are about.
Only attributes are read.
"""
from amoco.cas import expressions as X

LIMB = 16


def limbs(v, w):
    """non-negative int v of width w -> little-endian 16-bit limbs (TLC ints are 32-bit)."""
    v &= (1 << w) - 1
    out = []
    for _ in range(max(1, (w + LIMB - 1) // LIMB)):
        out.append(v & 0xFFFF)
        v >>= LIMB
    return out


def unlimbs(l):
    v = 0
    for i, x in enumerate(l):
        v |= x << (LIMB * i)
    return v


def is_exp(x):
    return isinstance(x, X.exp)


def kind(e):
    """etype-based classification that does not depend on class identity (top-ified nodes keep class)."""
    if not is_exp(e):
        return "raw"
    t = e.etype
    if t < 0:
        return "top"
    if t == 0:
        return "bot"
    if t & X.et_vec:
        return "vec"
    if t & X.et_cst:
        return "cst"
    if t & X.et_lab:
        return "lab"
    if t & X.et_ext:
        return "ext"
    if t & X.et_slc:
        return "slc"
    if t & X.et_reg:
        return "reg"
    if t & X.et_cmp:
        return "comp"
    if t & X.et_mem:
        return "mem"
    if t & X.et_ptr:
        return "ptr"
    if t & X.et_tst:
        return "tst"
    if t & X.et_eqn:
        return "op" if isinstance(e, X.op) else "uop"
    return "unk"


def resolve_bit(e, i, depth=0):
    """Structural origin of bit i of expression e: ('r', regname, bit) | ('c', 0|1) | ('?', kind).

    Follows only reg / cst / slc / comp nodes: these are the nodes MemoryZone creates when it
    cuts stored values, and their meaning is positional (no arithmetic involved).
    """
    k = kind(e)
    if k == "reg":
        return ("r", e.ref, i)
    if k == "cst":
        return ("c", (e.v >> i) & 1)
    if k == "slc":
        return resolve_bit(e.x, e.pos + i, depth + 1)
    if k == "comp":
        for (lo, hi), p in e.parts.items():
            if lo <= i < hi:
                return resolve_bit(p, i - lo, depth + 1)
        return ("?", "comp-gap")
    return ("?", k)


def byte_desc(e, k):
    """tuple of the 8 resolved bits of value-byte k of e"""
    return tuple(resolve_bit(e, 8 * k + t) for t in range(8))


def raw_desc(b):
    return tuple(("c", (b >> t) & 1) for t in range(8))


UNDEF = "U"
