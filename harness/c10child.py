"""child processes of C10 (fresh interpreters, amoco imported from PYTHONPATH):

  python -m harness.c10child pool ISA OUT.json            scan + pool construction (scratch process)
  python -m harness.c10child base ISA POOL.json B OUT     Analyse(block B) alone in this fresh process
  python -m harness.c10child hist ISA POOL.json HIST.json OUT.ndjson [NPAR]
        the process imports the ISA module and NOTHING else happens in it; every history is then executed
        in its own fork of this pristine process (so each history starts from the state of a fresh process
        that has only imported the module), NPAR forks at a time.
"""
import json
import os
import sys

from . import c02isa, c10


def setup(name):
    c02isa.quiet()
    from amoco.config import conf
    conf.Cas.noaliasing = True
    conf.Cas.memtrace = True
    conf.Cas.complexity = 0
    return c02isa.Isa(name)


def main(argv):
    mode, name = argv[0], argv[1]
    if mode == "pool":
        try:
            isa = setup(name)
            ok = bool(isa.uarch) and bool(isa.mn_sem)
        except Exception:
            ok = False
        pool = c10.build_pool(isa) if ok else {"isa": name, "blocks": [], "flagged": [], "flagged_dynamically": [], "sensitive": [],
                                               "flagregs": [], "slc_base": {}}
        with open(argv[2], "w") as f:
            json.dump(pool, f)
        return 0
    with open(argv[2]) as f:
        pool = json.load(f)
    isa = setup(name)
    vals = c10.valuations(isa, pool)
    if mode == "base":
        out = c10.run_base(isa, pool, vals, int(argv[3]))
        with open(argv[4], "w") as f:
            json.dump(out, f)
        return 0
    if mode == "hist":
        with open(argv[3]) as f:
            hists = json.load(f)          # [{"t": id, "h": [...], "trees": 0/1}]
        outp = argv[4]
        npar = int(argv[5]) if len(argv) > 5 else 4
        running = {}
        parts = []
        import gc
        gc.collect()
        gc.freeze()          # forks share the heap copy-on-write: keep the collector from touching (= copying) it

        for j, hh in enumerate(hists):
            part = "%s.part%d" % (outp, j)
            while len(running) >= npar:
                pid, status = os.wait()
                p = running.pop(pid, None)
                if p is not None:
                    parts.append((p, status))
            pid = os.fork()
            if pid == 0:
                code = 0
                gc.disable()
                try:
                    r = c10.Runner(isa, pool, vals)
                    log = r.execute(hh["t"], hh["h"], bool(hh.get("trees")))
                    with open(part, "w") as f:
                        f.write(json.dumps(log, separators=(",", ":")))
                        f.write("\n")
                except BaseException as e:      # keep the failure visible to the parent
                    try:
                        with open(part, "w") as f:
                            f.write(json.dumps({"t": hh["t"], "isa": name,
                                                "harness_error": "%s: %s" % (type(e).__name__, e)}))
                            f.write("\n")
                    except Exception:
                        pass
                    code = 3
                os._exit(code)
            running[pid] = part
        while running:
            pid, status = os.wait()
            p = running.pop(pid, None)
            if p is not None:
                parts.append((p, status))
        with open(outp, "w") as fo:
            for j in range(len(hists)):
                part = "%s.part%d" % (outp, j)
                if os.path.exists(part):
                    with open(part) as fi:
                        fo.write(fi.read())
                    os.unlink(part)
                else:
                    fo.write(json.dumps({"t": hists[j]["t"], "isa": name, "harness_error": "child died"}) + "\n")
        return 0
    return 2


if __name__ == "__main__":
    sys.exit(main(sys.argv[1:]))
