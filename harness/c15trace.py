"""C15, code -> spec: load the shipped sample programs with amoco's loaders, record the memory image of every loadable
segment (as the task's memory answers), the program counter and the instruction fetched at the entry point, and let
TLC (specs/LoaderTrace.tla) validate each recording against Image(file bytes)."""
import os
from concurrent.futures import ThreadPoolExecutor

from . import tlc, c14, c15

SAMPLES = os.path.join(os.environ.get("VERIF_REPO", "/repo"), "tests", "samples")

ELF_SAMPLES = ("x86/flow.elf", "x86/loop_simple.elf", "x86/prefixes.elf", "x86/test_full.elf", "x86/test_partial.elf",
               "x86/test_pie.elf", "x64/continue.elf64", "x64/cxx.elf64", "x64/flow.elf64", "x64/loop_simple.elf64",
               "x64/merge.elf64", "x64/test_full.elf64", "x64/test_partial.elf64", "arm/hw", "arm/sc",
               "sparc/saverestore", "sparc/solaris-sed.elf", "riscv/TA.elf.signed")
QUICK_ELF = ("x86/flow.elf", "x86/prefixes.elf", "x86/test_pie.elf", "x64/flow.elf64", "x64/test_full.elf64", "arm/sc",
             "sparc/saverestore", "riscv/TA.elf.signed")


def digits(v, w=8):
    return [(v >> (8 * i)) & 0xFF for i in range(w)]


def elf_ranges(task):
    return [(p.p_vaddr, p.p_memsz) for p in task.bin.Phdr if p.p_type == 1]


def pe_ranges(task):
    return [(task.bin.basemap + s.RVA, s.VirtualSize) for s in task.bin.sections]


def macho_ranges(task):
    from amoco.system import macho
    return [(c.vmaddr, c.vmsize) for c in task.bin.cmds
            if c.cmd in (macho.LC_SEGMENT, macho.LC_SEGMENT_64) and not c.segname.startswith(b"__PAGEZERO")]


FORMATS = {
    "elf": {"ranges": elf_ranges, "module": "LoaderTrace", "cfg": "LoaderTrace.cfg",
            "all": ELF_SAMPLES, "quick": QUICK_ELF},
    "pe": {"ranges": pe_ranges, "module": "PeLoadTrace", "cfg": "PeLoadTrace.cfg",
           "all": ("x86/puttygen.exe", "x86/CoST.exe"), "quick": ("x86/puttygen.exe", "x86/CoST.exe")},
    "macho": {"ranges": macho_ranges, "module": "MachOLoadTrace", "cfg": "MachOLoadTrace.cfg",
              "all": ("x64/toc.osx/toc.mach-o",), "quick": ("x64/toc.osx/toc.mach-o",)},
}


def record(rel, ranges):
    """load one sample, return (trace line without 't', loader name) or (None, reason)"""
    path = os.path.join(SAMPLES, rel)
    data = open(path, "rb").read()
    c15.set_pagesize(4096)
    try:
        task = c15.load(data)
    except Exception as ex:
        return None, "load_program raised %r" % (ex,)
    if task is None:
        return None, "no loader accepts the file"
    obs, exts = [], []
    for j, (va, n) in enumerate(ranges(task)):
        cells = c15.read_range(task, va, n)
        wire = []
        k = 0
        while k < len(cells):
            c = cells[k]
            if isinstance(c, tuple):
                if c[2] == 0:
                    size = 1
                    while k + size < len(cells) and isinstance(cells[k + size], tuple) and cells[k + size][1] == c[1] \
                            and cells[k + size][2] == size:
                        size += 1
                    exts.append({"seg": j, "off": k, "name": [ord(ch) for ch in c[1]], "size": size})
                wire.append(-3)
            else:
                wire.append(c)
            k += 1
        obs.append({"va": digits(va), "cells": wire})
    pc = c15.pc_value(task)
    entry = task.bin.entrypoints[0]
    fetch = {"a": digits(entry), "bytes": []}
    try:
        i = task.read_instruction(entry)
        if i is not None and hasattr(i, "bytes") and isinstance(i.bytes, (bytes, bytearray)):
            fetch["bytes"] = list(i.bytes)
    except Exception:
        pass
    line = {"bytes": list(data), "obs": obs, "exts": exts, "pc": digits(pc) if pc is not None else [], "fetch": fetch}
    return line, type(task.OS).__module__ if getattr(task, "OS", None) is not None else type(task).__module__


def run_shard(args):
    module, cfg, lines, tag = args
    wd = tlc.workdir(tag)
    tf = os.path.join(wd, "loaded.ndjson")
    tlc.write_ndjson(tf, lines)
    res = tlc.run(module, cfg, env={"TRACE_FILE": tf}, workers=1, tag=tag, timeout=1800, xss="256m", xmx="3g")
    tlc.cleanup(wd)
    return res


def run_elf(ctx, quick):
    return run_fmt(ctx, quick, "elf")


def run_fmt(ctx, quick, fmt, only=None):
    F = FORMATS[fmt]
    c14.quiet()
    names = F["quick"] if quick else F["all"]
    if only is not None:
        names = tuple(n for n in F["all"] if n in only)
        if not names:
            return
    lines, loaders = [], {}
    for t, rel in enumerate(names):
        if not os.path.exists(os.path.join(SAMPLES, rel)):
            ctx.count("samples_missing", 1)
            continue
        line, info = record(rel, F["ranges"])
        if line is None:
            ctx.fail("C15:%s:sample-not-loaded" % fmt, "sample %s: %s" % (rel, info), {"file": rel})
            continue
        line["t"] = t
        loaders[t] = info
        lines.append(line)
    c15.set_pagesize(4096)
    if not lines:
        raise tlc.MachineryError("no %s sample could be recorded" % fmt)
    lines.sort(key=lambda l: -len(l["bytes"]))
    nsh = min(4 if quick else 6, len(lines))
    buckets = [[] for _ in range(nsh)]
    for k, l in enumerate(lines):
        buckets[k % nsh].append(l)
    with ThreadPoolExecutor(nsh) as ex:
        results = list(ex.map(run_shard, [(F["module"], F["cfg"], b, "c15trace_%s_%d" % (fmt, k)) for k, b in enumerate(buckets)]))
    verdicts = {}
    for res in results:
        ctx.add_tlc(res, "T:" + F["cfg"])
        for r in res.printed:
            verdicts[r["t"]] = r
    for l in lines:
        t = l["t"]
        rel = names[t]
        if t not in verdicts:
            raise tlc.MachineryError("no verdict for the recording of " + rel)
        v = verdicts[t]
        ctx.case(key=(fmt + "-sample", rel, loaders[t]))
        for sv in v["segs"]:
            if sv["clause"] != "ok":
                ctx.fail("C15:%s:%s" % (fmt, sv["clause"]),
                         "sample %s loaded by %s: segment %d, byte %d reads %r, the file maps %r (%s)"
                         % (rel, loaders[t], sv["seg"], sv["off"], sv["got"], sv["want"], sv["clause"]),
                         {"source": "T:samples", "file": rel})
        if v["pc"] != "ok":
            ctx.fail("C15:%s:%s" % (fmt, v["pc"]), "sample %s loaded by %s: program counter %s, entry point %#x"
                     % (rel, loaders[t], c14.dval(l["pc"]) if l["pc"] else None, c14.dval(v["entry"])), {"file": rel})
        if v["fetch"] != "ok":
            ctx.fail("C15:%s:%s" % (fmt, v["fetch"]), "sample %s: instruction fetched at the entry point has bytes %s"
                     % (rel, bytes(l["fetch"]["bytes"]).hex()), {"file": rel})
        ctx.count("relocation_slots_in_%s_samples" % fmt, v.get("nslots", 0))
        ctx.count("external_symbols_observed_%s" % fmt, len(l["exts"]))
    ctx.trace(len(lines))
    ctx.count("%s_samples_loaded" % fmt, len(lines))
