"""C08 replayer: step TLC-generated MemZone behaviours through real MemoryMap objects.

The behaviour (a list of records produced by specs/MemZone.tla under a generator config) says
what to do and what the abstract store must be after each action; this module only
  * maps actions to API calls (MemoryMap.write/read/copy/restruct/merge, MemoryZone.shift),
  * projects what amoco returns to per-byte descriptors (harness.ser, attribute reads only),
  * compares the projection with the cells TLC put in the record.
"""
import random

from amoco.cas.expressions import reg, cst, ptr, composer
from amoco.system.memory import MemoryMap

from . import ser

ZREG = {}


def zone_reg(z):
    if z not in ZREG:
        ZREG[z] = reg("z_" + z, 32)
    return ZREG[z]


class Writer(object):
    __slots__ = ("w", "n", "en", "kind", "obj", "descs")

    def __init__(self, w, n, raw, en, rng):
        self.w = w
        self.n = n
        if raw:
            self.kind = rng.choice(("bytes", "bytes", "cst"))
            data = [((w * 37 + k * 11 + 5) & 0xFF) for k in range(n)]
            if self.kind == "bytes":
                self.en = 1
                self.obj = bytes(data)
                self.descs = [ser.raw_desc(b) for b in data]
            else:
                self.en = rng.choice((1, -1))
                v = 0
                for k, b in enumerate(data):
                    v |= b << (8 * k)
                self.obj = cst(v, 8 * n)
                mem = data if self.en == 1 else data[::-1]
                self.descs = [ser.raw_desc(b) for b in mem]
        else:
            self.en = en
            kinds = ["reg", "slc"] + (["comp"] if n >= 2 else [])
            self.kind = rng.choice(kinds)
            if self.kind == "reg":
                e = reg("w%d" % w, 8 * n)
            elif self.kind == "slc":
                e = reg("w%d" % w, 8 * n + 16)[8:8 + 8 * n]
            else:
                k = rng.randrange(1, n)
                e = composer([reg("w%da" % w, 8 * k), reg("w%db" % w, 8 * (n - k))])
            self.obj = e
            # descriptors of the bytes in MEMORY order, computed before amoco sees the object
            vb = range(n) if en == 1 else range(n - 1, -1, -1)
            self.descs = [ser.byte_desc(e, k) for k in vb]


class Replay(object):
    def __init__(self, seed):
        self.rng = random.Random(seed)
        self.maps = {}
        self.writers = {}
        self.owner = {}  # register name -> writer
        self.frozen = []
        self.fail = []
        self.drift = []
        self.nw = 0

    def map(self, m):
        if m not in self.maps:
            self.maps[m] = MemoryMap()
        return self.maps[m]

    def addr(self, z, a):
        return a if z == "none" else ptr(zone_reg(z), disp=a)

    # --- projection ------------------------------------------------------------------------
    def flatten(self, items):
        out = []
        for it in items:
            if isinstance(it, (bytes, bytearray)):
                out.extend(ser.raw_desc(b) for b in it)
                continue
            k = ser.kind(it)
            if k == "bot":
                out.extend([ser.UNDEF] * (it.size // 8))
                continue
            n = it.size // 8
            d = [ser.byte_desc(it, i) for i in range(n)]
            en = 1
            o = d[0][0] if d else None
            if o is not None and o[0] == "r":
                wr = self.owner.get(o[1])
                if wr is not None:
                    en = wr.en
            if en == -1:
                d.reverse()
            out.extend(d)
        return out

    def expected(self, cells, lo, n):
        out = []
        for a in range(lo, lo + n):
            c = cells.get(a)
            if c is None:
                out.append(ser.UNDEF)
            else:
                out.append(self.writers[c[0]].descs[c[1]])
        return out

    def read(self, mm, z, a, n):
        try:
            if z == "none":
                return self.flatten(mm.read(a, n)), None
            if not any((k is not None and getattr(k, "ref", None) == "z_" + z) for k in mm._zones):
                return [ser.UNDEF] * n, None  # zone never written: nothing to read
            return self.flatten(mm.read(self.addr(z, a), n)), None
        except Exception as e:  # the property says reads return the bytes: raising is a failure
            return None, "%s: %s" % (type(e).__name__, e)

    def check_map(self, step, m, mm, st_m, lay_m, full=True):
        for z, snap in st_m.items():
            cells = dict((a, (w, k)) for a, w, k in snap)
            if cells:
                lo, hi = min(cells) - 1, max(cells) + 2
            else:
                lo, hi = -1, 2
            lo = min(lo, -1)
            for a in range(lo, hi):
                got, err = self.read(mm, z, a, 1)
                exp = self.expected(cells, a, 1)
                if got != exp:
                    self.fail.append((step, "read1", m, z, a, 1, err or repr(got), repr(exp)))
                    return
            ranges = [(lo, hi - lo)]
            if full:
                for _ in range(2):
                    a = self.rng.randrange(lo, hi)
                    ranges.append((a, self.rng.randrange(1, hi - a + 1)))
            for a, n in ranges:
                got, err = self.read(mm, z, a, n)
                exp = self.expected(cells, a, n)
                if got != exp:
                    self.fail.append((step, "readN", m, z, a, n, err or repr(got), repr(exp)))
                    return
            if lay_m is not None:
                zone = self.zone_obj(mm, z)
                real = [] if zone is None else [[o.vaddr, len(o.data), 1 if o.data._is_raw else 0] for o in zone._map]
                if real != [list(x) for x in lay_m[z]]:
                    self.drift.append((step, "layout", m, z, real, lay_m[z]))

    def zone_obj(self, mm, z):
        for k, zo in mm._zones.items():
            if (z == "none" and k is None) or (k is not None and getattr(k, "ref", None) == "z_" + z):
                return zo
        return None

    # --- actions ---------------------------------------------------------------------------
    def step(self, i, r):
        op = r["op"]
        err = None
        try:
            if op == "write":
                self.nw += 1
                wr = Writer(self.nw, r["n"], r["raw"] == 1, r["en"], self.rng)
                self.writers[self.nw] = wr
                if wr.kind not in ("bytes", "cst"):
                    for d in wr.descs:
                        for b in d:
                            if b[0] == "r":
                                self.owner[b[1]] = wr
                self.map(r["m"]).write(self.addr(r["z"], r["a"]), wr.obj, wr.en)
            elif op == "restruct":
                self.map(r["m"]).restruct()
            elif op == "copy":
                old = self.map(r["m"])
                self.maps[r["m"]] = old.copy()
                self.frozen.append((i, r["m"], old, r["st"][r["m"] - 1]))
            elif op == "shift":
                zo = self.zone_obj(self.map(r["m"]), r["z"])
                zo.shift(r["a"])
            elif op == "merge":
                self.map(1).merge(self.map(2))
                self.maps[2] = MemoryMap()
        except Exception as e:
            err = "%s: %s" % (type(e).__name__, e)
        if err is not None:
            self.fail.append((i, "raised:" + op, r.get("m"), r.get("z"), r.get("a"), r.get("n"), err, ""))
            return False
        for m in range(1, len(r["st"]) + 1):
            self.check_map(i, m, self.map(m), r["st"][m - 1], r["lay"][m - 1])
            if self.fail:
                return False
        return True

    def run(self, beh):
        for i, r in enumerate(beh):
            if not self.step(i, r):
                break
        if not self.fail:
            for (i, m, old, st_m) in self.frozen:
                self.check_map(("frozen", i), m, old, st_m, None, full=False)
        return self.fail, self.drift


def signature(beh):
    """what makes a behaviour non-trivial for C08: the set of addtomap branches other than a plain
    insertion, plus the non-write actions"""
    s = []
    for r in beh:
        if r["op"] == "write":
            s.append(r["br"])
        else:
            s.append(r["op"])
    return tuple(s)


def replay_chunk(args):
    """worker: replay every behaviour of a spool byte range; returns summary"""
    from . import tlc
    path, lo, hi, seed, stride, offset = args
    n = 0
    fails = []
    drifts = {}
    branches = {}
    nontrivial = set()
    sample = None
    for idx, beh in enumerate(tlc.iter_spool_range(path, lo, hi)):
        if stride > 1 and (idx % stride) != offset:
            continue
        n += 1
        rp = Replay(seed * 1000003 + lo + idx)
        f, d = rp.run(beh)
        sig = signature(beh)
        for b in sig:
            branches[b] = branches.get(b, 0) + 1
        if any(b not in ("A_Before", "A_DropJ_GapLeft") for b in sig):
            nontrivial.add(sig)
        if sample is None:
            sample = [dict((k, r[k]) for k in ("op", "m", "z", "a", "n", "raw", "en", "br")) for r in beh]
        if f and len(fails) < 5:
            fails.append({"behaviour": beh, "seed": seed * 1000003 + lo + idx, "fail": [list(map(str, x)) for x in f]})
        for x in d:
            key = "%s" % (x[1],)
            drifts[key] = drifts.get(key, 0) + 1
    return {"n": n, "fails": fails, "drifts": drifts, "branches": branches,
            "nontrivial": list(nontrivial), "sample": sample}
