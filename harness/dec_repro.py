"""Stand-alone reproduction of C05/C11/C17 findings on the current tree (no TLC involved: it just shows
what amoco does).

  python -m harness.dec_repro <isa> <mode> <hex> decode|render|toks|pickle|apply [syntax]
  python -m harness.dec_repro <isa> <mode> family <hex> <hex> ...     each input on a clean object
  python -m harness.dec_repro <isa> <mode> history <hex> <hex> ...    all inputs on ONE object, vs each input in a fresh process
(isa/mode names: harness/dec_common.py ISAS; run with PYTHONPATH=/repo:/verif)
"""
import pickle
import sys
import traceback

from . import dec_common as D


def show(isa, i):
    if i is None:
        return "None"
    return "%s len %d bytes %s operands %s fp %s" % (i.mnemonic, i.length, bytes(i.bytes).hex(),
                                                   D.operand_kinds(i), D.fingerprint(i))


def main(argv):
    isa = D.Isa(argv[0], argv[1])
    D.quiet()
    if argv[2] in ("family", "history"):
        import copy
        import os

        def outcome(dis, b):
            try:
                return show(isa, isa.call(b, dis))
            except Exception as ex:
                return "raised %s at %s" % D.crash_key(ex)[:2]

        # fresh-process outcomes first (this process has not decoded anything yet): one forked child per input
        fresh = []
        for hx in argv[3:]:
            r, w = os.pipe()
            pid = os.fork()
            if pid == 0:
                os.close(r)
                os.write(w, outcome(copy.copy(isa.dis), bytes.fromhex(hx)).encode())
                os._exit(0)
            os.close(w)
            fresh.append(os.read(r, 1 << 16).decode())
            os.close(r)
            os.waitpid(pid, 0)
        one = copy.copy(isa.dis)
        for hx, c in zip(argv[3:], fresh):
            if argv[2] == "family":
                print("d(%s) = %s" % (hx, c))
                continue
            o = outcome(one, bytes.fromhex(hx))
            print("d(%s) on the one object = %s%s" % (hx, o, "   [__i left set]" if isa.pending(one) is not None else ""))
            if o != c:
                print("      in a fresh process  = %s    <-- differs" % c)
        return 0
    b = bytes.fromhex(argv[2])
    stage = argv[3] if len(argv) > 3 else "decode"
    try:
        i = isa.call(b)
        print("decode:", show(isa, i))
        if i is None or stage == "decode":
            return 0
        if i.address is None:
            i.address = isa.cpu.cst(0x1000, isa.cpu.PC().size)
        if stage in ("render", "toks"):
            from . import c17
            cur, syn = c17.syntaxes(isa)
            for name, f in syn:
                if len(argv) > 4 and name != argv[4]:
                    continue
                isa.dis.iclass.set_formatter(f)
                print("syntax", name)
                print("  str :", str(i))
                print("  toks:", i.toks())
        elif stage == "pickle":
            j = pickle.loads(pickle.dumps(i))
            print("pickle:", show(isa, j), "address kept" if D.fingerprint(j, ()) == D.fingerprint(i, ()) else "CHANGED")
            a, c = D.instr_data(i, ()), D.instr_data(j, ())
            for k in sorted(set(a) | set(c)):
                if a.get(k) != c.get(k):
                    print("   attribute %s: %s -> %s" % (k, a.get(k), c.get(k)))
        elif stage == "apply":
            from amoco.cas.mapper import mapper
            m = mapper()
            i(m)
            print("apply: ok,", len(m), "locations written")
    except Exception:
        traceback.print_exc()
        return 1
    return 0


if __name__ == "__main__":
    sys.exit(main(sys.argv[1:]))
