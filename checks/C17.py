"""C17 - decoding and executing any bytes never crashes; instructions are well formed.

 M  specs/DecoderObs.tla gives the total outcome type (Decode in {None} u well-formed Instr, Render in
    String, Pickle round trip equal, Apply in {Updated, LoggedMissing}); specs/DecoderTrace.tla accepts a
    recorded life of an input only if every event is in that type - a `raised` event is no action of the
    spec (clause Raised).  Seeded-fault traces must be rejected with the named clause (non-vacuity).
 T  for every importable ISA module and decode mode: inputs built from EVERY shipped ispec (fixed bits as
    shipped; free bits all-0, all-1, boundary runs, seeded random; tails likewise; prefix runs for ISAs
    with prefix specs) plus random strings are decoded, rendered in every formatter syntax the ISA ships,
    pickled and applied to a fresh mapper; one trace per input, validated by TLC.
Crash findings are keyed (isa, stage, exception type, innermost amoco/arch frame file:function).
"""
import multiprocessing as mp
import os
import sys

from harness import framework, tlc, c17
from harness import dec_common as D

QUICK_FILL = ["zeros", "ones", "boundary", "random", "random+p"]
THOROUGH_FILL = ["zeros", "ones"] + ["boundary"] * 6 + ["random"] * 14 + ["random+p"] * 6 + ["boundary+p"] * 2


def fail_key(tr, line, clause):
    isa = tr["m"].split("/")[0]
    e = tr["ev"][line - 1]
    dec = tr["ev"][0]
    hook = dec.get("hook", "?")
    if clause == "Raised":
        # str(i) and i.toks() are the same formatter call: one call site, one key
        return "C17:%s:%s:%s:%s" % (isa, "render" if e["st"] == "toks" else e["st"], e["exc"], e["at"])
    if clause == "Operands":
        bad = sorted(set(k for k in e["opk"] if k != "exp")) if e.get("opsl") == 1 else ["notalist"]
        return "C17:%s:wf:Operands:%s:%s" % (isa, hook, "+".join(bad))
    if clause in ("Mnemonic", "Type", "Length"):
        return "C17:%s:wf:%s:%s" % (isa, clause, hook)
    if clause == "PickleChanged":
        return "C17:%s:pickle:changed:%s" % (isa, hook)
    return "C17:%s:%s:%s:%s" % (isa, e.get("st", "?"), clause, e.get("k", "?"))


def coarse_keys(tr, line, clause):
    """apply stage only.  The semantics tables of most ISAs fail for SOME operand values (ill-sized
    expressions rejected by amoco/cas, attributes missing on some operand kinds); which i_MNEMONIC functions
    do so is value dependent and a run samples them.  Such a crash is therefore also listed (a) under the key
    of DESIGN.md 3.5 proper - innermost amoco frame - and (b) per (isa, exception type, semantics FILE).
    They are tried, in this order, only when the narrow (function-level) key is not listed; a new exception
    type, a crash outside the semantics files (e.g. in icore.__call__) or in any other stage is never covered."""
    e = tr["ev"][line - 1]
    out = []
    if clause == "Raised" and e["st"] == "apply":
        isa = tr["m"].split("/")[0]
        if e.get("at0") and e["at0"] != e["at"]:
            out.append("C17:%s:apply:%s:%s" % (isa, e["exc"], e["at0"]))
        if e["at"].startswith("amoco/arch/") and not e["at"].startswith("amoco/arch/core.py"):
            out.append("C17:%s:apply:%s:%s:*" % (isa, e["exc"], e["at"].rsplit(":", 1)[0]))
    return out


def describe(tr, line, clause):
    e = tr["ev"][line - 1]
    dec = tr["ev"][0]
    b = bytes(tr["in"]).hex()
    if clause == "Raised":
        return "%s: %s of input %s raises %s in %s" % (tr["m"], e["st"], b, e["exc"], e["at"])
    return "%s: input %s (%s, hook %s) fails clause %s at stage %s: %s" % (
        tr["m"], b, dec.get("mn", ""), dec.get("hook", "?"), clause, e.get("st"),
        dict((k, v) for k, v in e.items() if k in ("k", "opk", "mnlen", "mnstr", "type", "len", "fp0", "fp1", "syn")))


def report(ctx, traces, verdicts, coarse_seen=None):
    known = set(k.get("key") for k in ctx.known)
    for tr in traces:
        for line, clause, _ in verdicts[tr["t"]]:
            key = fail_key(tr, line, clause)
            cks = coarse_keys(tr, line, clause)
            for ck in cks:
                if coarse_seen is not None:
                    coarse_seen.setdefault(ck, set()).add(key)
            if key not in known:
                for ck in cks:
                    if ck in known:
                        key = ck
                        break
            ctx.fail(key, describe(tr, line, clause), {"source": "T", "trace": tr, "line": line, "clause": clause})


def replay(ctx):
    """./check C17 --replay <file>: the recorded input is taken through the same stages on the current tree
    and the new trace is judged by TLC again"""
    import json
    case = json.load(open(ctx.replay))["case"]
    tr = case["trace"]
    isa, mode = tr["m"].split("/")
    with mp.Pool(1) as pool:
        new = pool.apply(c17.replay_one, ((isa, mode, bytes(tr["in"]).hex()),))
    new["t"] = 1
    new["maxlen"] = 0
    verdicts = D.validate(ctx, [new], "c17r")
    ctx.case(key=("replay", tr["m"], bytes(tr["in"]).hex()))
    ctx.case(key=("replay-events", len(new["ev"])))
    ctx.trace()
    ctx.sample({"replayed": ctx.replay, "events": new["ev"], "verdict": verdicts[1]})
    ctx.rule = "replay of one recorded input through decode/render/pickle/apply on the current tree"
    report(ctx, [new], verdicts)


def run(ctx):
    if ctx.replay:
        return replay(ctx)
    quick = ctx.tier == "quick"
    ctx.rule = ("one case = one input byte string taken through decode / render(every syntax) / pickle / apply "
                "on one ISA module and mode; inputs: every shipped ispec x fillings of its free bits and tail "
                "(%s) + random strings; a case is non-trivial when it decodes to an instruction; distinct = "
                "distinct (isa/mode, spec hook, mnemonic, per-stage outcome kinds)"
                % (", ".join(sorted(set(QUICK_FILL if quick else THOROUGH_FILL)))))
    ctx.assume("the decode call is issued as a fetcher does: bytes only; ISAs with suffix (xdata) specs also get "
               "address=0 and code=<the same bytes>; the fetcher sets i.address (cst 0x1000, PC size) before "
               "rendering/applying, as system/core.py read_instruction does")
    ctx.assume("a call that uses more than %.0f s of CPU time is recorded as raised Timeout" % D.TIMEOUT_S)
    ctx.assume("decode-mode globals (env.internals) and sf flags of architectural registers are restored after "
               "every apply, and the pending-prefix variable is cleared after a decode that raised, so that cases "
               "are independent (the leak itself is C11's finding)")
    ctx.assume("co-import pickle round trips: x86+x64, dwarf+wasm, rv32i+rv64i, z80+gb are loaded in one process, "
               "instructions of both are pickled and loaded back in interleaved order; the copy must have the same "
               "fingerprint (incl. the module of its spec's hook) and the same rendering as the original")
    ctx.assume("the list of importable ISA modules is vendored in harness/dec_common.py (22 modules, 24 modes; "
               "avr.cpu, ppc32.cpu_e200, superh.cpu_sh4 do not import on the pinned tree)")
    # --- M: the trace spec rejects seeded faults --------------------------------------------------------
    D.selftest(ctx, ("c17",))
    # --- T ----------------------------------------------------------------------------------------------
    fillings = QUICK_FILL if quick else THOROUGH_FILL
    nrandom = 150 if quick else 1000
    import time
    t_gen = time.time()
    with mp.get_context("fork").Pool(tlc.NCPU, maxtasksperchild=1) as pool:     # one ISA per process
        counts = pool.map(c17.spec_count, D.isa_modes())
        jobs = []
        for isa, mode, n, err in counts:
            if err:
                ctx.fail("C17:%s:import" % isa, "ISA module %s (%s) no longer imports: %s" % (isa, mode, err), None)
                continue
            step = max(16, -(-n // 6))      # at most 6 chunks per ISA/mode; every chunk runs in its own process
            lo = 0
            first = True
            while lo < n:
                jobs.append((isa, mode, lo, min(n, lo + step), fillings, nrandom if first else 0, ctx.seed, True))
                first = False
                lo += step
        # co-import pickle round trips: pairs of ISA modules whose tables share format strings, in one process
        pairs = [p for p in c17.COPICKLE_PAIRS if not os.environ.get("VERIF_DEC_ISAS")
                 or all(x[0] in os.environ["VERIF_DEC_ISAS"].split(",") for x in p)]
        co = pool.map_async(c17.copickle_task, [(a, b, ["zeros", "random"] if quick else ["zeros", "ones", "random", "random", "boundary"], ctx.seed)
                                                 for a, b in pairs], chunksize=1)
        outs = pool.map(c17.run_chunk, jobs, chunksize=1)
        co = co.get()
    traces = []
    per_isa = {}
    syn = {}
    for o in outs:
        if o.get("import_error"):
            ctx.fail("C17:%s:import" % o["isa"], "ISA module %s no longer imports: %s" % (o["isa"], o["import_error"]), None)
            continue
        syn["%s/%s" % (o["isa"], o["mode"])] = o["syntaxes"]
        ctx.count("inputs_skipped_after_two_timeouts_of_the_same_spec", o.get("skipped_after_timeouts", 0))
        for tr in o["traces"]:
            tr["t"] = len(traces) + 1
            tr["maxlen"] = 0
            traces.append(tr)
    ncop = 0
    for o in co:
        for tr in o["traces"]:
            tr["t"] = len(traces) + 1
            tr["maxlen"] = 0
            traces.append(tr)
            ncop += 1
    ctx.note("copickle_round_trips", ncop)
    ctx.note("wall_drive_s", round(time.time() - t_gen, 1))
    t_val = time.time()
    verdicts = D.validate(ctx, traces, "c17")
    ctx.note("wall_validate_s", round(time.time() - t_val, 1))
    stage_counts = {}
    coarse_seen = {}
    for tr in traces:
        kinds = tuple("%s:%s" % (e["st"], e["k"]) for e in tr["ev"])
        dec = tr["ev"][0]
        for e in tr["ev"]:
            k = "%s:%s" % (e["st"], e["k"])
            stage_counts[k] = stage_counts.get(k, 0) + 1
        ctx.case(key=(tr["m"], dec.get("hook"), dec.get("mn"), kinds) if dec["k"] == "instr" else None)
        ctx.trace()
        st = per_isa.setdefault(tr["m"], {"inputs": 0, "instr": 0, "none": 0, "raised": 0})
        st["inputs"] += 1
        st[dec["k"]] += 1
    report(ctx, traces, verdicts, coarse_seen)
    ctx.note("per_isa_mode", per_isa)
    ctx.note("syntaxes_rendered", syn)
    ctx.note("stage_outcomes", stage_counts)
    ctx.note("inputs", len(traces))
    ctx.note("apply_crashes_by_class", dict((k, sorted(v)) for k, v in sorted(coarse_seen.items())))
    good = [t for t in traces if len(t["ev"]) > 4 and not verdicts[t["t"]]]
    for t in (good[:2] + [t for t in traces if verdicts[t["t"]]][:2]):
        ctx.sample({"m": t["m"], "src": t["src"], "in": bytes(t["in"]).hex(), "events": t["ev"],
                    "verdict": verdicts[t["t"]]}, cap=4)
    ctx.exhaustive = False


if __name__ == "__main__":
    sys.exit(framework.main("C17", run))
