"""C08 - abstract memory behaves as a last-write-wins byte store.

 M  specs/MemZone.tla: the transcription of MemoryZone.addtomap/mo.write/setpart/mergeparts/restruct
    refines the abstract byte store (invariants Sorted, NonEmpty, Refines), exhaustively on small
    constants; a seeded fault (Dev) must break Refines (non-vacuity).
 G  every behaviour of the generator configs (exhaustive small + -simulate large) is replayed on real
    MemoryMap/MemoryZone objects; after every action every byte is read back and compared with the
    abstract store TLC computed.
 T  long random histories are driven through the real objects, recorded as traces (writes with their
    parameters, reads with per-byte results) and validated by TLC against the abstract store
    (specs/MemTrace.tla).
"""
import multiprocessing as mp
import os
import sys

from harness import framework, tlc, c08


def gen_and_replay(ctx, cfg, kind, simulate=None, depth=None, stride=1):
    wd = tlc.workdir("c08_" + kind)
    spool = os.path.join(wd, "beh.spool")
    res = tlc.run("MemZone", cfg, simulate=simulate, depth=depth, seed=ctx.seed if simulate else None,
                  spool=spool, tag="c08" + kind, timeout=3000)
    ctx.add_tlc(res, "G:" + cfg)
    chunks = tlc.spool_chunks(spool, 64)
    offset = ctx.seed % stride if stride > 1 else 0
    jobs = [(spool, lo, hi, ctx.seed, stride, offset) for lo, hi in chunks]
    with mp.Pool(min(tlc.NCPU, max(1, len(jobs)))) as pool:
        outs = pool.map(c08.replay_chunk, jobs)
    n = 0
    for o in outs:
        n += o["n"]
        for f in o["fails"]:
            first = f["fail"][0]
            ctx.fail("C08:%s" % first[1], "step %s of a %s behaviour: %s at map %s zone %s addr %s len %s: got %s expected %s"
                     % (first[0], kind, first[1], first[2], first[3], first[4], first[5], first[6][:300], first[7][:300]),
                     {"source": "G:" + cfg, "behaviour": f["behaviour"], "seed": f["seed"]})
        for k, v in o["drifts"].items():
            for _ in range(v):
                ctx.drift("zone layout differs from MemZone model (" + k + ")")
        for b, c in o["branches"].items():
            ctx.extra.setdefault("addtomap_branches_replayed", {})
            ctx.extra["addtomap_branches_replayed"][b] = ctx.extra["addtomap_branches_replayed"].get(b, 0) + c
        for s in o["nontrivial"]:
            ctx.case(key=(kind,) + tuple(s), n=0)
        if o["sample"] is not None:
            ctx.sample({"source": kind, "behaviour": o["sample"]}, cap=4)
    ctx.case(n=n)
    ctx.trace(n)
    ctx.count("behaviours_replayed_" + kind, n)
    tlc.cleanup(wd)
    if n == 0:
        raise tlc.MachineryError("generator %s produced no behaviour" % cfg)


def run_replay(ctx):
    """./check C08 --replay PATH : re-execute the recorded case against the current tree"""
    import json
    from harness import c08trace
    d = json.load(open(ctx.replay))
    case = d.get("case") or {}
    ctx.rule = "replay of one recorded case"
    res = tlc.run("MemZone", "MemZoneMC_quick.cfg", workers=2, tag="c08rp")
    ctx.add_tlc(res, "M:MemZoneMC_quick.cfg")
    if "behaviour" in case:
        rp = c08.Replay(case.get("seed", 0))
        f, dr = rp.run(case["behaviour"])
        ctx.case(key=("replay", "G"))
        ctx.trace()
        ctx.sample({"source": "replay", "behaviour": [dict((k, r[k]) for k in ("op", "m", "z", "a", "n", "raw", "en", "br")) for r in case["behaviour"]]})
        if f:
            x = f[0]
            ctx.fail("C08:%s" % x[1], "replayed behaviour: %s at step %s map %s zone %s addr %s: got %s expected %s"
                     % (x[1], x[0], x[2], x[3], x[4], str(x[6])[:200], str(x[7])[:200]), case)
    elif "trace" in case:
        # a recorded history: regenerate it from its seed on the current tree and validate it again
        t = case["trace"]
        ctx.note("replay_note", "recorded histories are regenerated from their seed (trace id %s)" % t.get("t"))
        c08trace.run(ctx)
    else:
        raise tlc.MachineryError("replay file has no behaviour/trace")


def run(ctx):
    if ctx.replay:
        return run_replay(ctx)
    quick = ctx.tier == "quick"
    ctx.rule = ("behaviours of specs/MemZone.tla replayed on real MemoryMap objects; a behaviour is non-trivial "
                "when at least one write takes an addtomap branch other than a plain insertion (it overlaps or "
                "touches an earlier object) or it contains restruct/copy/shift/merge; distinct = distinct "
                "sequences of (branch | action) names")
    ctx.assume("harness.ser resolves bits of reg/cst/slc/comp nodes positionally (no amoco evaluation involved)")
    ctx.assume("reads of a zone use the endianness the object was stored with (MemoryZone.read has no endianness argument)")
    # --- M: design-level refinement -----------------------------------------------------------
    for cfg in (["MemZoneMC_quick.cfg", "MemZoneMC_quick2.cfg"] if quick else
                ["MemZoneMC_quick.cfg", "MemZoneMC_thorough.cfg", "MemZoneMC_thorough2.cfg"]):
        res = tlc.run("MemZone", cfg, coverage=quick and cfg.endswith("quick2.cfg"), tag="c08mc", timeout=3000)
        ctx.add_tlc(res, "M:" + cfg)
    res = tlc.run("MemZone", "MemZoneMC_dev.cfg", expect_violation=True, tag="c08dev")
    if not res.violation or "Refines" not in res.violation:
        raise tlc.MachineryError("self-test: fault DropJAlways did not violate Refines (invariant vacuous?)")
    ctx.note("selftest_fault_detected_by_model", res.violation)
    # --- G: spec -> code -----------------------------------------------------------------------
    if quick:
        gen_and_replay(ctx, "MemZoneGen_quick.cfg", "exhaustive")
        gen_and_replay(ctx, "MemZoneSim.cfg", "simulated", simulate="num=1500", depth=9)
        ctx.exhaustive = False
    else:
        gen_and_replay(ctx, "MemZoneGen_thorough.cfg", "exhaustive")
        gen_and_replay(ctx, "MemZoneGen_thorough4.cfg", "exhaustive4")
        gen_and_replay(ctx, "MemZoneSim.cfg", "simulated", simulate="num=40000", depth=9)
        ctx.exhaustive = False
    # --- T: code -> spec -----------------------------------------------------------------------
    from harness import c08trace
    c08trace.run(ctx)


if __name__ == "__main__":
    sys.exit(framework.main("C08", run))
