"""C16 - structure definitions encode, decode and lay out like C.

 M     specs/CStruct.tla: the C layout rule (natural alignment, packed, unions, arrays, nesting) with
       Pack / Unpack over byte sequences; on every generated definition TLC checks the layout invariants
       (offsets aligned and increasing, size a multiple of the alignment with less than one alignment of
       tail padding, |Pack| = SizeOf, Unpack(Pack(v)) = v, Pack(Unpack(b)) = b, 32-bit size <= 64-bit size),
       exhaustively at small scope; the seeded fault NoTailPad must be rejected (non-vacuity).
 T-ref specs/CStructTrace.tla: the vendored gcc table corpus/cabi/cabi.ndjson (sizeof/_Alignof/offsetof for
       -m64 and -m32 -malign-double) is validated row by row against SizeOf / AlignOf / Offsets: the TLA+
       layout rule IS the C ABI on that corpus.
 G     every case TLC generates (exhaustive small scopes + -simulate over the whole definition language)
       carries the definition text, the byte image and the expected observations; harness/c16.py builds the
       classes with StructFactory / UnionFactory / TypeDefine and compares size(psize), align_value(psize),
       offsets(psize), the unpacked field values and pack() with what TLC computed.
"""
import json
import multiprocessing as mp
import os
import sys
import threading
import time

from harness import framework, tlc, c16

CABI = os.path.join(tlc.VERIF, "corpus", "cabi", "cabi.ndjson")
# generous: on an otherwise idle 16-core machine the longest single run takes a few minutes; the machine may be shared
TLC_TIMEOUT = int(os.environ.get("C16_TLC_TIMEOUT", "21600"))

# at most this many TLC JVMs of this check at a time (the machine-wide slot limiter of harness/tlc.py is shared)
GATE = threading.BoundedSemaphore(int(os.environ.get("C16_MAX_JVMS", "9")))


def _gen(cfg, kind, seed, simulate, depth, workers, wd, out):
    spool = os.path.join(wd, kind + ".spool")
    try:
      with GATE:
        res = tlc.run("CStruct", cfg, simulate=simulate, depth=depth, seed=seed if simulate else None,
                      spool=spool, tag="c16" + kind, timeout=TLC_TIMEOUT, workers=workers,
                      env={"C16_PHASE": seed})  # which residue class a strided (quick) configuration samples
        out[kind] = (cfg, res, spool)
    except Exception as ex:  # reported by the main thread
        out[kind] = ex


def _tref(rows, shard, wd, out):
    path = os.path.join(wd, "rows%d.ndjson" % shard)
    with open(path, "w") as f:
        f.write("".join(rows))
    try:
      with GATE:
        res = tlc.run("CStructTrace", "CStructTrace.cfg", tag="c16t%d" % shard, workers=2, timeout=TLC_TIMEOUT,
                      env={"ROWS_FILE": path, "ROWS_LO": 1, "ROWS_HI": len(rows)})
        out["tref%d" % shard] = (res, len(rows))
    except Exception as ex:
        out["tref%d" % shard] = ex


def run(ctx):
    quick = ctx.tier == "quick"
    if ctx.replay:
        # re-execute one recorded case (it carries the values TLC computed) against the current tree
        with open(ctx.replay) as f:
            rec = json.load(f)
        case = rec["case"]["case"]
        # (the model self-test is the one TLC run of a replay: the expected values travel with the case)
        res = tlc.run("CStruct", "CStructMC_dev.cfg", expect_violation=True, tag="c16dev", workers=2)
        ctx.add_tlc(res, "M:CStructMC_dev.cfg (self-test)")
        fails, tags = c16.replay_case(case)
        ctx.case(key=c16.shape(case))
        ctx.trace(1)
        ctx.sample({"ps": case["ps"], "decls": case["decls"], "clauses_ok": sorted(tags)})
        ctx.rule = "replay of one recorded case"
        for key, what in fails:
            ctx.fail(key, what, {"source": "replay", "case": case})
        return
    ctx.rule = ("one case = one definition (text in amoco's definition language) x pointer size x value class, built "
                "with StructFactory/UnionFactory/TypeDefine and observed through size, align_value, offsets, unpack, "
                "pack; non-trivial = has an array, nested definition, bitfield unit, variable-length member, is a union, "
                "or has padding; distinct = distinct (pointer size, tree of kinds/types/counts/orders/packed) shapes")
    ctx.assume("the struct module of CPython is the byte codec of raw scalars (amoco delegates to it); floats are compared "
               "as exact dyadic values m*2^e computed by TLC (IEEE-754 encoder written in TLA+)")
    ctx.assume("a bitfield unit `T *#a/b/..` is the C member `T unit` with sub-fields allocated from the least significant "
               "bit of the value read in the member's byte order (what the language documents); gcc's own bit-field "
               "allocation rule is not the subject")
    ctx.assume("variable-length members (terminated, counted, bound, LEB128) have no C counterpart: they are generated in "
               "packed structures only (sequential layout; also as arrays of 3 packed structures whose elements differ in length); "
               "LEB128 originals are shortest encodings below 2^27 (64-bit boundary values are not generated)")
    wd = tlc.workdir("c16")
    t_start = time.time()
    out = {}
    th = []
    # --- generators (M + G) ------------------------------------------------------------------------
    if quick:
        # strided samples of the exhaustive enumerations (the seed chooses the residue class) + a small simulation
        gens = [("CStructGen_quick.cfg", "flat", None, None, 4),
                ("CStructGenNest_quick.cfg", "nest", None, None, 8),
                ("CStructGenVar_quick.cfg", "var", None, None, 4),
                ("CStructGenUnion_quick.cfg", "union", None, None, 2),
                ("CStructGenOrd_quick.cfg", "ord", None, None, 2),
                ("CStructGenVarArr_quick.cfg", "vararr", None, None, 4),
                ("CStructSim_quick.cfg", "sim", "num=3", 60, 8)]
    else:
        # (longest first: at most C16_MAX_JVMS run at a time)
        gens = [("CStructSim.cfg", "sim", "num=150", 60, 8),
                ("CStructGenNest_thorough.cfg", "nest3", None, None, 8),
                ("CStructGen_thorough.cfg", "flat4", None, None, 8),
                ("CStructGenNest2_thorough.cfg", "nest2", None, None, 8),
                ("CStructGenNest_all.cfg", "nest", None, None, 4),
                ("CStructGen_all.cfg", "flat", None, None, 4),
                ("CStructGenVar_all.cfg", "var", None, None, 2),
                ("CStructGenUnion_all.cfg", "union", None, None, 1),
                ("CStructGenOrd_all.cfg", "ord", None, None, 2),
                ("CStructGenVarArr_all.cfg", "vararr", None, None, 4)]
    for cfg, kind, sim, depth, w in gens:
        t = threading.Thread(target=_gen, args=(cfg, kind, ctx.seed, sim, depth, w, wd, out))
        t.start()
        th.append(t)
    # --- T-ref: the gcc table --------------------------------------------------------------------
    with open(CABI) as f:
        rows = f.readlines()
    total_rows = len(rows)
    if quick:
        rng = ctx.rng
        rows = [r for r in rows if rng.random() < 0.1]
    nsh = 2 if quick else 8
    for i, sh in enumerate(tlc.shard(rows, nsh)):
        t = threading.Thread(target=_tref, args=(sh, i, wd, out))
        t.start()
        th.append(t)
    # --- M: self-test of the invariants, big exhaustive model ---------------------------------------
    try:
        res = tlc.run("CStruct", "CStructMC_dev.cfg", expect_violation=True, tag="c16dev", workers=2)
        if not res.violation or "LayoutOK" not in res.violation:
            raise tlc.MachineryError("self-test: fault NoTailPad did not violate LayoutOK (invariant vacuous?)")
        ctx.note("selftest_fault_detected_by_model", res.violation)
        ctx.add_tlc(res, "M:CStructMC_dev.cfg (self-test)")
        if not quick:
            res = tlc.run("CStruct", "CStructMC_thorough.cfg", tag="c16mc", timeout=TLC_TIMEOUT, workers=8)
            ctx.add_tlc(res, "M:CStructMC_thorough.cfg")
    finally:
        for t in th:  # never leave a generator behind
            t.join()
    for k, v in out.items():
        if isinstance(v, Exception):
            raise v if isinstance(v, tlc.MachineryError) else tlc.MachineryError("%s: %r" % (k, v))
    t_tlc = time.time()
    # --- T-ref verdicts ---------------------------------------------------------------------------
    nrows = 0
    for k in sorted(out):
        if not k.startswith("tref"):
            continue
        res, n = out[k]
        ctx.add_tlc(res, "T-ref:CStructTrace.cfg")
        if len(res.printed) != n:
            raise tlc.MachineryError("T-ref: %d verdicts for %d rows" % (len(res.printed), n))
        nrows += n
        for v in res.printed:
            if v["verdict"] != "ok":
                # the specification disagrees with the C compiler: the oracle itself is wrong
                raise tlc.MachineryError("T-ref: gcc row %s (ps %s) contradicts the layout rule: %s" % (v["t"], v["ps"], v["verdict"]))
    ctx.note("gcc_rows_validated", nrows)
    ctx.note("gcc_rows_total", total_rows)
    ctx.trace(nrows)
    # --- G: replay -------------------------------------------------------------------------------
    jobs = []
    for kind in [g[1] for g in gens]:
        cfg, res, spool = out[kind]
        ctx.add_tlc(res, ("G:" if kind == "sim" else "M+G:") + cfg)
        for lo, hi in tlc.spool_chunks(spool, 24):
            jobs.append((kind, (spool, lo, hi)))
    with mp.Pool(min(tlc.NCPU, max(1, len(jobs)))) as pool:
        outs = pool.map(c16.replay_chunk, [j[1] for j in jobs])
    per = {}
    for (kind, _), o in zip(jobs, outs):
        per[kind] = per.get(kind, 0) + o["n"]
        ctx.case(n=o["n"])
        ctx.trace(o["n"])
        for s in o["shapes"]:
            ctx.case(key=s, n=0)
        for t, c in o["tags"].items():
            ctx.count("clause_ok_" + t, c)
        for k, c in o["kinds"].items():
            ctx.count("members_" + k, c)
        ctx.count("cases_without_any_deviation", o["clean"])
        for key, what, full in o["fails"]:
            ctx.fail(key, what, {"source": kind, "case": full})
        if o["sample"] is not None:
            ctx.sample(o["sample"], cap=5)
    for kind, n in per.items():
        ctx.count("cases_replayed_" + kind, n)
        if n == 0:
            raise tlc.MachineryError("generator %s produced no case" % kind)
    ctx.exhaustive = False
    ctx.note("wall_s_tlc_runs_in_parallel", round(t_tlc - t_start, 1))
    ctx.note("wall_s_replay_in_amoco", round(time.time() - t_tlc, 1))
    tlc.cleanup(wd)


if __name__ == "__main__":
    sys.exit(framework.main("C16", run))
