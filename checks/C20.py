"""C20 - program identification is total and reports only format errors.

 M  specs/Ident.tla (Mode="mc"): the fallback chain ELF -> PE -> Mach-O -> COFF -> HEX -> SREC -> raw as a
    state machine over abstract inputs and a written-down parser contract; TLC checks Total, OwnErrorsOnly,
    NoMisclaim, CursorReset, the chain's shape and termination; seven seeded faults (an except clause narrowed,
    a missing seek(0), a parser leaking a foreign exception / hanging / exhausting memory, two reorderings of the
    chain) must each be rejected.
 G  the same module (Mode="gen") enumerates the fault space over the corpus bases (every shipped sample +
    synthetic valid files of every format): every truncation length class, every field of every header table x
    every value class, seeded flips and random strings, and - by simulation - sequences of several faults; each
    descriptor carries the reference truth the chain must respect. harness/c20child.py concretises it and
    runs the real read_program under a CPU-time limit and RLIMIT_AS, recording the chain from read_program's own
    log lines.
 T  specs/IdentTrace.tla replays every recorded chain through Ident's own StageStep/Outcomes and prints a total
    verdict per trace (prop clauses = the statement, drift clauses = implementation-shaped); the parser contract
    that M relies on is validated the same way by calling each parser alone on every intact base.
"""
import json
import os
import subprocess
import sys
import time
from multiprocessing.pool import ThreadPool

from harness import framework, tlc, c20

CPU_LIMIT = {"quick": 6.0, "thorough": 12.0}
FAULTS = (("NarrowExcept", "InvTotal"), ("NoSeek", "InvNoMisclaim"), ("ForeignParser", "InvOwnErrorsOnly"),
          ("HangParser", "InvTotal"), ("HungryParser", "InvTotal"), ("CoffFirst", "InvNoMisclaim"),
          ("HexFirst", "InvNoMisclaim"))


# ---------------------------------------------------------------------------------------------------------
def model_check(ctx):
    def one(job):
        cfg, expect = job
        return job, tlc.run("Ident", cfg, coverage=(expect is None), expect_violation=expect is not None,
                            tag="c20" + cfg[:-4], workers=2, xmx="1g")
    jobs = [("IdentMC.cfg", None)] + [("IdentMC_dev_%s.cfg" % f, inv) for f, inv in FAULTS]
    with ThreadPool(len(jobs)) as tp:
        out = tp.map(one, jobs)
    rejected = {}
    for (cfg, expect), res in out:
        ctx.add_tlc(res, "M:" + cfg)
        if expect is None:
            if res.violation:
                raise tlc.MachineryError("IdentMC.cfg reports %s" % res.violation)
            for act in ("Stage", "Raw", "Corrupt"):
                if res.coverage.get(act, (0, 0))[1] == 0:
                    raise tlc.MachineryError("action %s of Ident never taken in IdentMC.cfg" % act)
        else:
            if not res.violation or expect not in res.violation:
                raise tlc.MachineryError("self-test: seeded fault of %s did not violate %s (got %r)"
                                         % (cfg, expect, res.violation))
            rejected[cfg[len("IdentMC_dev_"):-4]] = expect
    ctx.note("seeded_faults_rejected_by_model", rejected)


# ---------------------------------------------------------------------------------------------------------
def generate(ctx, wd, bases, name, params, simulate=None, depth=None):
    bp = os.path.join(wd, "bases.ndjson")
    if not os.path.exists(bp):
        c20.write_bases_for_tlc(bases, bp)
    pp = os.path.join(wd, "params_%s.ndjson" % name)
    tlc.write_ndjson(pp, [params])
    spool = os.path.join(wd, "cases_%s.spool" % name)
    res = tlc.run("Ident", "IdentGen.cfg", env={"IDENT_BASES": bp, "IDENT_PARAMS": pp}, spool=spool,
                  simulate=simulate, depth=depth, seed=ctx.seed if simulate else None, tag="c20gen" + name,
                  timeout=3000)
    ctx.add_tlc(res, "G:IdentGen.cfg:" + name)
    cases = list(tlc.iter_spool(spool))
    if simulate is None and params["minfaults"] == 0 and len(cases) != res.distinct - (1 if 0 in params["sel"] else 0):
        raise tlc.MachineryError("generator %s: %d descriptors read, TLC reports %d states" % (name, len(cases),
                                                                                              res.distinct))
    if not cases:
        raise tlc.MachineryError("generator %s produced no case" % name)
    os.unlink(spool)
    return cases


def run_chunk(job):
    """one child process per chunk; a child that dies is restarted after the input it died on"""
    wd, k, seed, cpu, items = job
    outp = os.path.join(wd, "out_%d.ndjson" % k)
    if os.path.exists(outp):
        os.unlink(outp)
    todo = list(items)
    results = {}
    rounds = 0
    while todo:
        rounds += 1
        bp = os.path.join(wd, "batch_%d_%d.json" % (k, rounds))
        with open(bp, "w") as f:
            json.dump({"seed": seed, "cpu": cpu, "cases": todo, "cwd": os.path.join(wd, "empty")}, f)
        open(outp, "w").close()
        env = dict(os.environ)
        try:
            p = subprocess.run([sys.executable, "-m", "harness.c20child", bp, outp], cwd=tlc.VERIF, env=env,
                               stdout=subprocess.PIPE, stderr=subprocess.STDOUT,
                               timeout=120 + 4 * cpu * 20 + len(todo) * 0.5)
            rc, err = p.returncode, p.stdout.decode("utf-8", "replace")[-2000:]
        except subprocess.TimeoutExpired as ex:
            rc, err = -9, "wall-clock timeout of the child"
        begun, ended = None, False
        with open(outp) as f:
            for line in f:
                try:
                    r = json.loads(line)
                except ValueError:
                    continue
                if "begin" in r:
                    begun = r["c"]
                elif "end" in r:
                    ended = True
                else:
                    results[r["c"]] = r
                    begun = None
        os.unlink(bp)
        if ended and rc == 0:
            break
        if begun is None:
            raise tlc.MachineryError("replayer child failed outside any input (rc=%s): %s" % (rc, err))
        # the child died while running input `begun`: that is an observation about read_program
        results[begun] = {"c": begun, "len": -1, "sha": "?", "cpu": -1,
                          "ev": [{"a": "killed", "f": "-", "e": "-", "cur": 0}],
                          "info": {"kind": "killed", "stage": "?", "exc": "rc=%s" % rc, "frame": "?:?"}}
        idx = [i for i, (ci, _) in enumerate(todo) if ci == begun][0]
        todo = todo[idx + 1:]
        if rounds > 50:
            raise tlc.MachineryError("replayer child keeps dying: %s" % err)
    os.unlink(outp)
    return results


def execute(ctx, wd, cases, nproc):
    items = list(enumerate(cases))
    # interleave so that expensive bases are spread over the children
    chunks = [items[i::nproc * 4] for i in range(nproc * 4)]
    jobs = [(wd, k, ctx.seed, CPU_LIMIT[ctx.tier], ch) for k, ch in enumerate(chunks) if ch]
    with ThreadPool(nproc) as tp:
        outs = tp.map(run_chunk, jobs)
    results = {}
    for o in outs:
        results.update(o)
    if len(results) != len(cases):
        raise tlc.MachineryError("replayer returned %d results for %d inputs" % (len(results), len(cases)))
    return [results[i] for i in range(len(cases))]


def validate(ctx, wd, bodies, tag):
    """bodies: list of (truth, events) distinct; -> verdicts in the same order (TLC decides)"""
    traces = [{"t": i + 1, "truth": tr, "ev": list(ev)} for i, (tr, ev) in enumerate(bodies)]
    shards = tlc.shard(traces, 4)
    paths = []
    for i, sh in enumerate(shards):
        p = os.path.join(wd, "%s_%d.ndjson" % (tag, i))
        tlc.write_ndjson(p, sh)
        paths.append(p)

    def one(a):
        i, p = a
        return tlc.run("IdentTrace", "IdentTrace.cfg", workers=1, env={"TRACE_FILE": p}, tag="c20T%s%d" % (tag, i),
                       timeout=3000, xmx="2g")
    with ThreadPool(len(paths)) as tp:
        rs = tp.map(one, list(enumerate(paths)))
    verdicts = {}
    for res in rs:
        ctx.add_tlc(res, "T:IdentTrace.cfg")
        for v in res.printed:
            verdicts[v["t"]] = v
    out = []
    for t in traces:
        v = verdicts.get(t["t"])
        if v is None:
            raise tlc.MachineryError("no verdict for recorded trace %s" % json.dumps(t)[:300])
        out.append(v)
    return out


TRIVIAL = ("ElfError", "PEError", "MachOError")


def finding_key(info, clause):
    k = info.get("kind")
    if k == "raise":
        return "C20:%s:raise:%s:%s" % (info["stage"], info["exc"], info["frame"])
    if k == "timeout":
        return "C20:%s:timeout:%s" % (info["stage"], info["frame"])
    if k == "exhaust":
        return "C20:%s:exhaust:%s:%s" % (info["stage"], info["exc"], info["frame"])
    if k == "killed":
        return "C20:killed"
    return None


def judge(ctx, wd, bases, cases, results, source):
    byid = dict((b["id"], b) for b in bases)
    bodies, index = [], {}
    which = []
    for case, r in zip(cases, results):
        body = (case["truth"], tuple(json.dumps(e, sort_keys=True) for e in r["ev"]))
        if body not in index:
            index[body] = len(bodies)
            bodies.append((case["truth"], [json.loads(e) for e in body[1]]))
        which.append(index[body])
    verdicts = validate(ctx, wd, bodies, source)
    ctx.count("distinct_trace_bodies_validated", len(bodies))
    shapes = ctx.extra.setdefault("outcomes", {})
    for case, r, w in zip(cases, results, which):
        v = verdicts[w]
        info = r["info"]
        ev = r["ev"]
        end = info.get("result") if info["kind"] == "return" else info["kind"]
        shapes[end] = shapes.get(end, 0) + 1
        trivial = end == "raw" and all(e.get("e") in ("ElfError", "PEError", "MachOError", "COFFError", "StructureError",
                                                      "HEXError", "SRECError", "-") for e in ev) and not case["ops"][:1] \
            or (case["ops"] and case["ops"][0]["k"] == "rand" and case["ops"][0]["c"] in ("bytes", "ascii") and end == "raw")
        ctx.case(key=None if trivial else r["sha"])
        ctx.trace()
        if info["kind"] == "return" and info["logres"] != info["result"]:
            ctx.drift("read_program's last log line says %s, the returned object is %s" % (info["logres"], info["result"]))
        if v["drift"] != "ok":
            d = json.loads(v["drift"])
            ctx.drift("chain is not a behaviour of Ident: " + d["clause"])
        if v["prop"] != "ok":
            d = json.loads(v["prop"])
            clause = d["clause"]
            key = None
            if clause.split(":")[0] in ("RaiseForeign", "OwnErrorEscaped", "Timeout", "Exhaust", "Killed"):
                key = finding_key(info, clause)
            elif clause.startswith("ForeignErrorSwallowed"):
                key = "C20:%s:swallowed:%s" % (ev[d["line"] - 1]["f"], ev[d["line"] - 1]["e"])
            elif clause.startswith("Misclaim"):
                key = "C20:misclaim:%s:%s" % (byid[case["b"]]["name"] if case["b"] else "?", end)
            key = key or "C20:" + clause
            what = "%s on input [%s] (%d bytes): chain %s -> %s" % (
                clause, c20.describe(case, byid), r["len"],
                ",".join("%s:%s" % (e["f"], e["e"]) for e in ev if e["a"] == "reject") or "-",
                json.dumps(info, sort_keys=True)[:300])
            vk = ctx.extra.setdefault("failing_keys", {})
            vk[key] = vk.get(key, 0) + 1
            ctx.fail(key, what, {"source": source, "case": case, "seed": ctx.seed, "events": ev, "info": info,
                                 "verdict": v})
    for case, r in list(zip(cases, results))[:2]:
        ctx.sample({"source": source, "input": c20.describe(case, byid), "truth": case["truth"],
                    "events": r["ev"], "cpu_s": r.get("cpu")}, cap=8)
    cpus = sorted(r.get("cpu", 0) for r in results if r["info"]["kind"] != "timeout")
    if cpus:
        ctx.note("cpu_s_max_non_timeout_" + source, cpus[-1])


def contracts(ctx, wd, bases):
    """bind M's environment assumption: each parser alone on every intact base (drift-level clause)"""
    cases = [{"b": b["id"], "ops": [], "truth": b["truth"], "mode": "parser"} for b in bases]
    items = list(enumerate(cases))
    res = run_chunk((wd, 9000, ctx.seed, CPU_LIMIT[ctx.tier], items))
    bodies, owner = [], []
    for i, c in enumerate(cases):
        for e in res[i]["parser"]:
            bodies.append((c["truth"], [e]))
            owner.append((c, e))
    verdicts = validate(ctx, wd, bodies, "contract")
    byid = dict((b["id"], b) for b in bases)
    for (c, e), v in zip(owner, verdicts):
        ctx.trace()
        if v["drift"] != "ok":
            ctx.drift("parser contract of Ident.tla: %s on %s" % (json.loads(v["drift"])["clause"], byid[c["b"]]["name"]))
    ctx.count("parser_contract_calls_validated", len(bodies))


def run(ctx):
    quick = ctx.tier == "quick"
    nproc = tlc.NCPU
    ctx.rule = ("inputs = intact corpus bases (shipped samples + synthetic valid files of each format), every "
                "TLC-enumerated single fault on them (truncation length classes; field x value class for every field "
                "of every described header table; seeded flips), TLC-simulated sequences of 2-3 faults, and random / "
                "magic-prefixed / record-shaped strings; an input is non-trivial unless it is an undamaged or random "
                "string that all six parsers reject at once (chain of own errors ending in the raw fallback); "
                "distinct = distinct input byte strings (sha1)")
    ctx.assume("the reference truth of an intact base is what readelf / llvm-readobj / objdump -b ihex|srec / file(1) "
               "said at corpus-build time (corpus/ident/truth.txt); it is only used while the sample's sha256 is unchanged")
    ctx.assume("'no unbounded loop / allocation' is observed as: %.0f s of CPU time per input (ITIMER_PROF), "
               "RLIMIT_AS = 1 GiB, any MemoryError/RecursionError raised during the call, peak-RSS jump > 300 MB"
               % CPU_LIMIT[ctx.tier])
    ctx.assume("an object returned by a line-oriented parser (HEX/SREC) that was started with the file cursor not at 0 "
               "is not an identification of the given byte string (clause AcceptFromSuffix)")
    wd = tlc.workdir("c20")
    bases, notes = c20.load_bases()
    for n in notes:
        ctx.drift(n)
    ctx.note("bases", {"total": len(bases), "with_truth": len([b for b in bases if b["truth"] in c20.FORMATS]),
                       "described_header_fields": sum(len(r["f"]) for b in bases for r in b["regions"])})
    phases = {}
    t0 = time.time()

    def lap(name):
        nonlocal t0
        phases[name] = round(time.time() - t0, 1)
        t0 = time.time()
        ctx.note("phase_wall_s", phases)
    # --- M ------------------------------------------------------------------------------------------
    model_check(ctx)
    lap("M")
    # --- G: single faults, exhaustive over the (strided) fault space ----------------------------------
    sel = [0] + [b["id"] for b in bases]
    p1 = {"target": 400 if quick else 0, "phase": ctx.seed, "alllen": 700 if quick else 4096,
          "nflip": 3 if quick else 40, "flipk": 12, "nrand": 3 if quick else 40, "minfaults": 0, "maxfaults": 1,
          "sel": sel}
    cases = generate(ctx, wd, bases, "single", p1)
    lap("G1:generate")
    results = execute(ctx, wd, cases, nproc)
    lap("G1:execute")
    judge(ctx, wd, bases, cases, results, "single")
    lap("G1:validate")
    ctx.count("inputs_single_fault", len(cases))
    # --- G: sequences of two faults, exhaustive over a strided sub-space (phase from the seed) ------------
    p2 = dict(p1, target=8 if quick else 50, alllen=0, nflip=1, flipk=4 if quick else 12, nrand=1, minfaults=2,
              maxfaults=2,
              sel=[b["id"] for b in bases if b["truth"] in c20.FORMATS])
    cases = generate(ctx, wd, bases, "seq", p2)
    lap("G2:generate")
    results = execute(ctx, wd, cases, nproc)
    lap("G2:execute")
    judge(ctx, wd, bases, cases, results, "seq")
    lap("G2:validate")
    ctx.count("inputs_fault_sequences", len(cases))
    # --- T: parser contract of the model ------------------------------------------------------------
    contracts(ctx, wd, bases)
    lap("T:contracts")
    ctx.exhaustive = False
    tlc.cleanup(wd)


if __name__ == "__main__":
    sys.exit(framework.main("C20", run))
