"""C20 - program identification is total and reports only format errors.

 M  specs/Ident.tla (Mode="mc"): the fallback chain ELF -> PE -> Mach-O -> COFF -> HEX -> SREC -> raw as a
    state machine over abstract inputs and a written-down parser contract; TLC checks Total, OwnErrorsOnly,
    NoMisclaim, CursorReset, the chain's shape and termination; seven seeded faults (an except clause narrowed,
    a missing seek(0), a parser leaking a foreign exception / hanging / exhausting memory, two reorderings of the
    chain) must each be rejected.
 G  the same module (Mode="gen") enumerates the fault space over the corpus bases (every shipped sample +
    synthetic valid files of every format): every truncation length class, every field of every header table x
    every value class, seeded flips and random strings, and pairs of faults over a strided sub-space; each
    descriptor carries the reference truth the chain must respect. harness/c20child.py concretises it and
    runs the real read_program under a CPU-time limit and RLIMIT_AS, recording the chain from read_program's own
    log lines.
 T  specs/IdentTrace.tla replays every recorded chain through Ident's own StageStep/Outcomes and prints a total
    verdict per trace (prop clauses = the statement, drift clauses = implementation-shaped); the parser contract
    that M relies on is validated the same way by calling each parser alone on every intact base.
"""
import json
import os
import subprocess
import sys
import time
from multiprocessing.pool import ThreadPool

from harness import framework, tlc, c20

# CPU seconds (ITIMER_PROF) per input.  L1: beyond it an input is a *suspect* and is aborted; suspects are grouped by
# (stage, innermost frame of the stage's module) and REPS of each group are re-run alone under L2.  Only an input
# that does not finish under L2 - or that shares its group with REPS such inputs - is reported as a timeout.  L2 is
# far above the slowest *bounded* parse seen (65535-entry header tables: ~6 s of CPU on a loaded machine).
L1 = {"quick": 2.5, "thorough": 4.0}
L2 = {"quick": 25.0, "thorough": 60.0}
REPS = {"quick": 1, "thorough": 2}
FAULTS = (("NarrowExcept", "InvTotal"), ("NoSeek", "InvNoMisclaim"), ("ForeignParser", "InvOwnErrorsOnly"),
          ("HangParser", "InvTotal"), ("HungryParser", "InvTotal"), ("CoffFirst", "InvNoMisclaim"),
          ("HexFirst", "InvNoMisclaim"))


# ---------------------------------------------------------------------------------------------------------
def model_check(ctx):
    def one(job):
        cfg, expect = job
        return job, tlc.run("Ident", cfg, coverage=(expect is None), expect_violation=expect is not None,
                            tag="c20" + cfg[:-4], workers=2, xmx="1g")
    jobs = [("IdentMC.cfg", None)] + [("IdentMC_dev_%s.cfg" % f, inv) for f, inv in FAULTS]
    with ThreadPool(len(jobs)) as tp:
        out = tp.map(one, jobs)
    rejected = {}
    for (cfg, expect), res in out:
        ctx.add_tlc(res, "M:" + cfg)
        if expect is None:
            if res.violation:
                raise tlc.MachineryError("IdentMC.cfg reports %s" % res.violation)
            for act in ("Stage", "Raw", "Corrupt"):
                if res.coverage.get(act, (0, 0))[1] == 0:
                    raise tlc.MachineryError("action %s of Ident never taken in IdentMC.cfg" % act)
        else:
            if not res.violation or expect not in res.violation:
                raise tlc.MachineryError("self-test: seeded fault of %s did not violate %s (got %r)"
                                         % (cfg, expect, res.violation))
            rejected[cfg[len("IdentMC_dev_"):-4]] = expect
    ctx.note("seeded_faults_rejected_by_model", rejected)


# ---------------------------------------------------------------------------------------------------------
def generate(ctx, wd, bases, name, params):
    bp = os.path.join(wd, "bases.ndjson")
    if not os.path.exists(bp):
        c20.write_bases_for_tlc(bases, bp)
    pp = os.path.join(wd, "params_%s.ndjson" % name)
    tlc.write_ndjson(pp, [params])
    spool = os.path.join(wd, "cases_%s.spool" % name)
    res = tlc.run("Ident", "IdentGen.cfg", env={"IDENT_BASES": bp, "IDENT_PARAMS": pp}, spool=spool,
                  tag="c20gen" + name, workers=2,   # the sequences are drawn in Init, which TLC enumerates sequentially
                  timeout=3000)
    ctx.add_tlc(res, "G:IdentGen.cfg:" + name)
    cases = list(tlc.iter_spool(spool))
    if len(cases) != res.distinct:
        raise tlc.MachineryError("generator %s: %d descriptors read, TLC reports %d states" % (name, len(cases),
                                                                                              res.distinct))
    if not cases:
        raise tlc.MachineryError("generator %s produced no case" % name)
    os.unlink(spool)
    return cases


def run_chunk(job):
    """one child process per chunk; a child that dies is restarted after the input it died on"""
    wd, k, seed, cpu, items = job
    outp = os.path.join(wd, "out_%d.ndjson" % k)
    if os.path.exists(outp):
        os.unlink(outp)
    todo = list(items)
    results = {}
    rounds = 0
    while todo:
        rounds += 1
        bp = os.path.join(wd, "batch_%d_%d.json" % (k, rounds))
        with open(bp, "w") as f:
            json.dump({"cpu": cpu, "cases": todo, "cwd": os.path.join(wd, "empty")}, f)
        open(outp, "w").close()
        env = dict(os.environ)
        try:
            p = subprocess.run([sys.executable, "-m", "harness.c20child", bp, outp], cwd=tlc.VERIF, env=env,
                               stdout=subprocess.PIPE, stderr=subprocess.STDOUT,
                               timeout=120 + 4 * cpu * 20 + len(todo) * 0.5)
            rc, err = p.returncode, p.stdout.decode("utf-8", "replace")[-2000:]
        except subprocess.TimeoutExpired as ex:
            rc, err = -9, "wall-clock timeout of the child"
        begun, ended = None, False
        with open(outp) as f:
            for line in f:
                try:
                    r = json.loads(line)
                except ValueError:
                    continue
                if "begin" in r:
                    begun = r["c"]
                elif "end" in r:
                    ended = True
                else:
                    results[r["c"]] = r
                    begun = None
        os.unlink(bp)
        if ended and rc == 0:
            break
        if begun is None:
            raise tlc.MachineryError("replayer child failed outside any input (rc=%s): %s" % (rc, err))
        # the child died while running input `begun`: that is an observation about read_program
        results[begun] = {"c": begun, "len": -1, "sha": "?", "cpu": -1,
                          "ev": [{"a": "killed", "f": "-", "e": "-", "cur": 0}],
                          "info": {"kind": "killed", "stage": "?", "exc": "rc=%s" % rc, "frame": "?:?"}}
        idx = [i for i, (ci, _) in enumerate(todo) if ci == begun][0]
        todo = todo[idx + 1:]
        if rounds > 50:
            raise tlc.MachineryError("replayer child keeps dying: %s" % err)
    os.unlink(outp)
    return results


def execute(ctx, wd, cases, nproc):
    items = list(enumerate(cases))
    # interleave so that expensive bases are spread over the children
    chunks = [items[i::nproc * 4] for i in range(nproc * 4)]
    jobs = [(wd, k, ctx.seed, L1[ctx.tier], ch) for k, ch in enumerate(chunks) if ch]
    with ThreadPool(nproc) as tp:
        outs = tp.map(run_chunk, jobs)
    results = {}
    for o in outs:
        results.update(o)
    if len(results) != len(cases):
        raise tlc.MachineryError("replayer returned %d results for %d inputs" % (len(results), len(cases)))
    results = [results[i] for i in range(len(cases))]
    # --- second level: confirm the suspects under the long limit -------------------------------------------
    groups = {}
    for i, r in enumerate(results):
        if r["info"]["kind"] == "timeout":
            groups.setdefault((r["info"]["stage"], r["info"]["frame"]), []).append(i)
    ctx.count("suspects_beyond_L1", sum(len(g) for g in groups.values()))

    def rerun(idx):
        out = run_chunk((wd, 5000 + idx, ctx.seed, L2[ctx.tier], [(idx, cases[idx])]))
        return idx, out[idx]
    # a group whose key is a listed finding needs no confirmation: it is reported under that key either way
    listed = set(k.get("key") for k in ctx.known)
    for key in [k for k in groups if "C20:%s:timeout:%s" % k in listed]:
        for i in groups.pop(key):
            results[i]["info"]["confirmed"] = "listed finding: not re-run under the long limit"
    reps = [i for g in groups.values() for i in g[:REPS[ctx.tier]]]
    with ThreadPool(nproc) as tp:
        long_res = dict(tp.map(rerun, reps))
    todo = []
    for key, g in groups.items():
        rr = [long_res[i] for i in g[:REPS[ctx.tier]]]
        if all(x["info"]["kind"] in ("timeout", "exhaust", "killed") for x in rr):
            for i in g:
                results[i]["info"]["confirmed"] = "%d input(s) stopped at the same frame did not finish in %.0f s of CPU" \
                    % (len(rr), L2[ctx.tier])
                if i in long_res:
                    results[i]["info"]["under_L2"] = long_res[i]["info"]["kind"]
        else:
            for i in g[:REPS[ctx.tier]]:
                results[i] = long_res[i]      # slow but bounded: its real outcome
            todo.extend(g[REPS[ctx.tier]:])    # the group is mixed: every member is judged on its own
    if todo:
        with ThreadPool(nproc) as tp:
            for i, r in tp.map(rerun, todo):
                results[i] = r
    ctx.count("timeouts_confirmed_under_L2", len([r for r in results if r["info"]["kind"] == "timeout"]))
    return results


def validate(ctx, wd, bodies, tag):
    """bodies: list of (truth, events) distinct; -> verdicts in the same order (TLC decides)"""
    traces = [{"t": i + 1, "truth": tr, "ev": list(ev)} for i, (tr, ev) in enumerate(bodies)]
    shards = tlc.shard(traces, max(1, min(4, len(traces) // 400)))
    paths = []
    for i, sh in enumerate(shards):
        p = os.path.join(wd, "%s_%d.ndjson" % (tag, i))
        tlc.write_ndjson(p, sh)
        paths.append(p)

    def one(a):
        i, p = a
        return tlc.run("IdentTrace", "IdentTrace.cfg", workers=1, env={"TRACE_FILE": p}, tag="c20T%s%d" % (tag, i),
                       timeout=3000, xmx="2g")
    with ThreadPool(len(paths)) as tp:
        rs = tp.map(one, list(enumerate(paths)))
    verdicts = {}
    for res in rs:
        ctx.add_tlc(res, "T:IdentTrace.cfg")
        for v in res.printed:
            verdicts[v["t"]] = v
    out = []
    for t in traces:
        v = verdicts.get(t["t"])
        if v is None:
            raise tlc.MachineryError("no verdict for recorded trace %s" % json.dumps(t)[:300])
        out.append(v)
    return out


TRIVIAL = ("ElfError", "PEError", "MachOError")


def finding_key(info, clause):
    k = info.get("kind")
    if k == "raise":
        return "C20:%s:raise:%s:%s" % (info["stage"], info["exc"], info["frame"])
    if k == "timeout":
        return "C20:%s:timeout:%s" % (info["stage"], info["frame"])
    if k == "exhaust":
        return "C20:%s:exhaust:%s:%s" % (info["stage"], info["exc"], info["frame"])
    if k == "killed":
        return "C20:killed"
    return None


def judge(ctx, wd, bases, cases, results, source, collector=None):
    byid = dict((b["id"], b) for b in bases)
    bodies, index = [], {}
    which = []
    for case, r in zip(cases, results):
        body = (case["truth"], tuple(json.dumps(e, sort_keys=True) for e in r["ev"]))
        if body not in index:
            index[body] = len(bodies)
            bodies.append((case["truth"], [json.loads(e) for e in body[1]]))
        which.append(index[body])
    verdicts = validate(ctx, wd, bodies, source)
    ctx.count("distinct_trace_bodies_validated", len(bodies))
    shapes = ctx.extra.setdefault("outcomes", {})
    for case, r, w in zip(cases, results, which):
        v = verdicts[w]
        info = r["info"]
        ev = r["ev"]
        end = info.get("result") if info["kind"] == "return" else info["kind"]
        shapes[end] = shapes.get(end, 0) + 1
        own = ("ElfError", "PEError", "MachOError", "COFFError", "StructureError", "HEXError", "SRECError", "-")
        plain = end == "raw" and all(e.get("e") in own for e in ev)
        kind0 = case["ops"][0]["k"] if case["ops"] else "intact"
        trivial = plain and (kind0 == "intact" or (kind0 == "rand" and case["ops"][0]["c"] in ("bytes", "ascii")))
        ctx.case(key=None if trivial else r["sha"])
        ctx.trace()
        if info["kind"] == "return" and info["logres"] != info["result"]:
            ctx.drift("read_program's last log line says %s, the returned object is %s" % (info["logres"], info["result"]))
        if v["drift"] != "ok":
            d = json.loads(v["drift"])
            ctx.drift("chain is not a behaviour of Ident: " + d["clause"])
        if v["prop"] != "ok":
            d = json.loads(v["prop"])
            clause = d["clause"]
            key = None
            if clause.split(":")[0] in ("RaiseForeign", "OwnErrorEscaped", "Timeout", "Exhaust", "Killed"):
                key = finding_key(info, clause)
            elif clause.startswith("ForeignErrorSwallowed"):
                key = "C20:%s:swallowed:%s" % (ev[d["line"] - 1]["f"], ev[d["line"] - 1]["e"])
            elif clause.startswith("Misclaim"):
                key = "C20:misclaim:%s:%s" % (byid[case["b"]]["name"] if case["b"] else "?", end)
            key = key or "C20:" + clause
            what = "%s on input [%s] (%d bytes): chain %s -> %s" % (
                clause, c20.describe(case, byid), r["len"],
                ",".join("%s:%s" % (e["f"], e["e"]) for e in ev if e["a"] == "reject") or "-",
                json.dumps(info, sort_keys=True)[:300])
            vk = ctx.extra.setdefault("failing_keys", {})
            vk[key] = vk.get(key, 0) + 1
            if collector is not None and (key not in collector or [len(case["ops"]), r["len"]] < list(collector[key][0])):
                collector[key] = [[len(case["ops"]), r["len"]], case, dict(r, seed=ctx.seed), clause]
            ctx.fail(key, what, {"source": source, "case": case, "seed": ctx.seed, "events": ev, "info": info,
                                 "verdict": v})
    for case, r in list(zip(cases, results))[:2]:
        ctx.sample({"source": source, "input": c20.describe(case, byid), "truth": case["truth"],
                    "events": r["ev"], "cpu_s": r.get("cpu")}, cap=8)
    cpus = sorted(r.get("cpu", 0) for r in results if r["info"]["kind"] != "timeout")
    if cpus:
        ctx.note("cpu_s_max_non_timeout_" + source, cpus[-1])


def contracts(ctx, wd, bases):
    """bind M's environment assumption: each parser alone on every intact base (drift-level clause)"""
    cases = [{"b": b["id"], "ops": [], "truth": b["truth"], "mode": "parser"} for b in bases]
    items = list(enumerate(cases))
    res = run_chunk((wd, 9000, ctx.seed, L2[ctx.tier], items))
    bodies, owner = [], []
    for i, c in enumerate(cases):
        for e in res[i]["parser"]:
            bodies.append((c["truth"], [e]))
            owner.append((c, e))
    verdicts = validate(ctx, wd, bodies, "contract")
    byid = dict((b["id"], b) for b in bases)
    for (c, e), v in zip(owner, verdicts):
        ctx.trace()
        if v["drift"] != "ok":
            ctx.drift("parser contract of Ident.tla: %s on %s" % (json.loads(v["drift"])["clause"], byid[c["b"]]["name"]))
    ctx.count("parser_contract_calls_validated", len(bodies))


def params(ctx):
    """generator parameters (see the comment at P in specs/Ident.tla).  The universe is the same in both tiers and
    does not depend on the seed; the thorough tier runs all of it, the quick tier the part selected by the seed."""
    quick = ctx.tier == "quick"
    single = {"utarget": 0, "ubigtarget": 700, "biglen": 30000, "alllen": 2048, "nflip": 12, "flipk": 12, "nrand": 20,
              "maxfaults": 1, "psub": 1, "phase": ctx.seed,
              "qtarget": 140 if quick else 0, "qbigtarget": 10 if quick else 0, "qalllen": 300 if quick else 2048,
              "qflip": 1 if quick else 12, "qrand": 2 if quick else 20}
    pairs = {"utarget": 24, "ubigtarget": 6, "biglen": 30000, "alllen": 0, "nflip": 1, "flipk": 4, "nrand": 1,
             "maxfaults": 2, "psub": 16 if quick else 1, "phase": ctx.seed,
             "qtarget": 0, "qbigtarget": 0, "qalllen": 0, "qflip": 1, "qrand": 1}
    return single, pairs


def campaign(ctx, collector=None, wd=None, bases=None, lap=lambda name: None):
    """G + T: generate the fault descriptors with TLC, run them on read_program, let TLC judge the chains"""
    own = wd is None
    wd = wd or tlc.workdir("c20")
    if bases is None:
        bases, _ = c20.load_bases()
    single, pairs = params(ctx)
    opkey = lambda c: (c["b"], json.dumps(c["ops"], sort_keys=True))
    # --- single faults (+ the intact bases + the random-string classes) -----------------------------------
    single["sel"] = [0] + [b["id"] for b in bases]
    cases = generate(ctx, wd, bases, "single", single)
    lap("G1:generate")
    results = execute(ctx, wd, cases, tlc.NCPU)
    lap("G1:execute")
    judge(ctx, wd, bases, cases, results, "single", collector)
    lap("G1:validate")
    ctx.count("inputs_single_fault", len(cases))
    done = dict((opkey(c), r) for c, r in zip(cases, results))
    # --- pairs of faults on the bases of a known format -----------------------------------------------------
    # the generator prints the atoms of the pair universe (every one, whatever the seed) and the selected pairs;
    # the atoms run first, alone: a pair containing an atom that alone makes read_program spin adds nothing but
    # CPU time and is not run (same rule in both tiers, so the quick tier stays a subset of the thorough one)
    pairs["sel"] = [b["id"] for b in bases if b["truth"] in c20.FORMATS and not b.get("intact_only")]
    cases = generate(ctx, wd, bases, "pairs", pairs)
    lap("G2:generate")
    atoms = [c for c in cases if len(c["ops"]) == 1 and opkey(c) not in done]
    results = execute(ctx, wd, atoms, tlc.NCPU) if atoms else []
    judge(ctx, wd, bases, atoms, results, "atoms", collector)
    done.update((opkey(c), r) for c, r in zip(atoms, results))
    fatal = set((k[0], json.dumps(json.loads(k[1])[0], sort_keys=True)) for k, r in done.items()
                if len(json.loads(k[1])) == 1 and r["info"]["kind"] in ("timeout", "killed"))
    two = [c for c in cases if len(c["ops"]) == 2]
    keep = [c for c in two if not any((c["b"], json.dumps(o, sort_keys=True)) in fatal for o in c["ops"])]
    ctx.count("pairs_not_run_containing_a_nonterminating_fault", len(two) - len(keep))
    results = execute(ctx, wd, keep, tlc.NCPU)
    lap("G2:execute")
    judge(ctx, wd, bases, keep, results, "pairs", collector)
    lap("G2:validate")
    ctx.count("inputs_pair_atoms", len(atoms))
    ctx.count("inputs_fault_pairs", len(keep))
    if own:
        tlc.cleanup(wd)


def run(ctx):
    ctx.rule = ("inputs = intact corpus bases (shipped samples + synthetic valid files of each format), every "
                "TLC-enumerated single fault on them (truncation length classes; field x value class for every field "
                "of every described header table; seeded flips), TLC-enumerated pairs of such faults over a strided "
                "sub-space, and random / magic-prefixed / record-shaped strings; an input is non-trivial unless it is an "
                "intact or purely random string that all six parsers reject at once (chain of own errors ending in "
                "the raw fallback); distinct = distinct input byte strings (sha1)")
    ctx.assume("the reference truth of an intact base is what readelf / llvm-readobj / objdump -b ihex|srec / file(1) "
               "said at corpus-build time (corpus/ident/truth.txt); it is only used while the sample's sha256 is unchanged")
    ctx.assume("'no unbounded loop / allocation' is observed as: an input (or %d input(s) stopped at the same frame after "
               "%.1f s) does not finish within %.0f s of CPU time (ITIMER_PROF); RLIMIT_AS = 1 GiB; any MemoryError / "
               "RecursionError raised during the call, even if swallowed"
               % (REPS[ctx.tier], L1[ctx.tier], L2[ctx.tier]))
    ctx.assume("an object returned by a line-oriented parser (HEX/SREC) that was started with the file cursor not at 0 "
               "is not an identification of the given byte string (clause AcceptFromSuffix)")
    wd = tlc.workdir("c20")
    bases, notes = c20.load_bases()
    for n in notes:
        ctx.drift(n)
    if ctx.replay:
        # re-execute one recorded case against the current tree and re-validate it with TLC
        rep = json.load(open(ctx.replay))
        case = rep["case"]["case"]
        ctx.seed = rep["case"].get("seed", rep.get("seed", ctx.seed))
        results = execute(ctx, wd, [case], 1)
        judge(ctx, wd, bases, [case], results, "replay")
        print("replayed: %s -> %s" % (c20.describe(case, dict((b["id"], b) for b in bases)),
                                     json.dumps(results[0]["info"], sort_keys=True)))
        tlc.cleanup(wd)
        return
    ctx.note("bases", {"total": len(bases), "with_truth": len([b for b in bases if b["truth"] in c20.FORMATS]),
                       "described_header_fields": sum(len(r["f"]) for b in bases for r in b["regions"])})
    phases = {}
    t0 = [time.time()]

    def lap(name):
        phases[name] = round(time.time() - t0[0], 1)
        t0[0] = time.time()
        ctx.note("phase_wall_s", phases)
    model_check(ctx)                                  # M
    lap("M")
    campaign(ctx, None, wd, bases, lap)               # G -> execute -> T
    contracts(ctx, wd, bases)                         # T: the parser contract the model relies on
    lap("T:contracts")
    ctx.exhaustive = False
    tlc.cleanup(wd)


if __name__ == "__main__":
    sys.exit(framework.main("C20", run))
