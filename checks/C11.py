"""C11 - decoding has no memory of earlier calls.

 M  specs/Decoder.tla: implementation-shaped model of disassembler.__call__ with the instance variable
    __i (`pending`): actions Call / MatchPrefix / MatchFinal / HookRejects / NoMatch and the fault action
    HookRaises.  TLC: NoMemory and FunctionalCalls hold on all call histories when no hook raises a foreign
    exception, and when such exceptions only occur before any prefix was consumed; they are violated as soon
    as a hook may raise after a prefix (C11 rests on C17 for ISAs with prefix specs); the proposed repair
    (reset __i when an exception propagates) restores them; seeded faults (no reset on no-match / on
    success, no rollback) are rejected.
 G  TLC enumerates every call history of length L over the 10 input classes; per ISA/mode the classes are
    concretised with exemplars found on the current tree, the history runs on ONE disassembler object and
    each outcome is recorded next to the outcome of the same input in a fresh process.
 T  long random call sequences over the whole input pool on one object, same recording.
    specs/DecoderTrace.tla judges every recorded history (NoMemory; Dev_HookRaises when the mismatch follows
    a call whose foreign exception left __i set; drift clauses for the pending flag).
"""
import multiprocessing as mp
import multiprocessing.pool
import os
import sys
import time

from harness import framework, tlc, c11
from harness import dec_common as D

MODEL_RUNS_QUICK = [
    ("DecoderMC_quick.cfg", None), ("DecoderMC_raise.cfg", "NoMemory"), ("DecoderMC_raise_noprefix.cfg", None),
    ("DecoderMC_fix.cfg", None), ("DecoderMC_dev_keep.cfg", "NoMemory"), ("DecoderMC_dev_final.cfg", "NoMemory"),
    ("DecoderMC_dev_rollback.cfg", "FunctionalCalls")]
MODEL_RUNS_THOROUGH = MODEL_RUNS_QUICK + [("DecoderMC_thorough.cfg", None), ("DecoderMC_thorough3.cfg", None)]


def model_runs(ctx, quick):
    runs = MODEL_RUNS_QUICK if quick else MODEL_RUNS_THOROUGH

    def one(r):
        cfg, viol = r
        return r, tlc.run("Decoder", cfg, expect_violation=viol is not None, workers=2, coverage=(cfg == "DecoderMC_quick.cfg"),
                          tag="c11" + cfg[:-4], timeout=3000)
    with multiprocessing.pool.ThreadPool(len(runs)) as tp:
        outs = tp.map(one, runs)
    broken = {}
    for (cfg, viol), res in outs:
        ctx.add_tlc(res, "M:" + cfg)
        if viol is not None:
            if not res.violation or viol not in res.violation:
                raise tlc.MachineryError("self-test %s: expected invariant %s to be violated, TLC said %s"
                                         % (cfg, viol, res.violation))
            broken[cfg] = res.violation
    ctx.note("model_faults_rejected", broken)
    ctx.note("model_says", "NoMemory holds iff HookRaises is unreachable after a prefix (DecoderMC_quick / "
                           "_raise_noprefix hold, _raise violated, _fix holds)")


def generate(ctx, cfg):
    wd = tlc.workdir("c11gen")
    spool = os.path.join(wd, "beh.spool")
    res = tlc.run("Decoder", cfg, spool=spool, workers=2, tag="c11gen" + cfg[:-4], timeout=3000)
    ctx.add_tlc(res, "G:" + cfg)
    hs = list(tlc.iter_spool(spool))
    tlc.cleanup(wd)
    if not hs:
        raise tlc.MachineryError("generator %s produced no history" % cfg)
    return hs


def fail_key(tr, line, clause):
    isa = tr["m"].split("/")[0]
    if clause == "Dev_HookRaises":
        j = line - 2
        while j >= 0 and tr["ev"][j]["out"]["k"] != "raised":
            j -= 1
        o = tr["ev"][j]["out"] if j >= 0 else {"exc": "?", "at": "?"}
        return "C11:%s:Dev_HookRaises:%s:%s" % (isa, o.get("exc"), o.get("at"))
    if clause == "Dev_SharedRegSf":
        return "C11:%s:Dev_SharedRegSf" % isa
    return "C11:%s:%s" % (tr["m"], clause)


def describe(tr, line, clause):
    def show(e):
        o = e["out"]
        r = o["k"] if o["k"] != "instr" else "%s len %d bytes %s" % (o["mn"], o["len"], bytes(x & 0xFF for x in o["bytes"]).hex())
        if o["k"] == "raised":
            r += ":%s@%s" % (o["exc"], o["at"])
        return "%sd(%s)=%s%s" % ("[%s] " % e["mode"] if "mode" in e else "", bytes(e["in"]).hex(), r,
                               " [__i set]" if e["pend"] else "")
    e = tr["ev"][line - 1]
    b = e["base"]
    fresh = b["k"] if b["k"] != "instr" else "%s len %d bytes %s" % (b["mn"], b["len"], bytes(x & 0xFF for x in b["bytes"]).hex())
    return "%s: after the calls %s the same object gives %s but a fresh process gives %s (clause %s)" % (
        tr["m"], "; ".join(show(x) for x in tr["ev"][max(0, line - 4):line - 1]), show(e), fresh, clause)


def report(ctx, traces, verdicts):
    for tr in traces:
        seen = set()
        for line, clause, _ in verdicts[tr["t"]]:
            if clause.startswith("drift:"):
                ctx.drift("%s (%s)" % (clause[6:], tr["m"].split("/")[0]))
                continue
            k = fail_key(tr, line, clause)
            if k in seen:
                continue
            seen.add(k)
            ctx.fail(k, describe(tr, line, clause), {"source": tr["src"], "trace": tr, "line": line, "clause": clause})


def replay(ctx):
    """./check C11 --replay <file>: the recorded history's inputs get new fresh-process baselines, are run again
    on one object of the current tree, and TLC judges the new trace"""
    import json
    case = json.load(open(ctx.replay))["case"]
    tr = case["trace"]
    isa, mode = tr["m"].split("/")
    inputs = [bytes(e["in"]).hex() for e in tr["ev"]]
    fresh = mp.get_context("fork").Pool(1, maxtasksperchild=1)
    try:
        modes = [e["mode"] for e in tr["ev"]] if all("mode" in e for e in tr["ev"]) else None
        if modes:
            base = [fresh.apply(c11.baseline_task, ((isa, m, [hx]),))["base"][0] for hx, m in zip(inputs, modes)]
        else:
            base = fresh.apply(c11.baseline_task, ((isa, mode, inputs),))["base"]
        new = fresh.apply(c11.replay_history, ((isa, mode, inputs, [e.get("cls", "-") for e in tr["ev"]], base, modes),))
    finally:
        fresh.close()
        fresh.join()
    new["t"] = 1
    new["maxlen"] = 0
    verdicts = D.validate(ctx, [new], "c11r")
    ctx.case(key=("replay", tr["m"]))
    ctx.case(key=("replay-calls", len(new["ev"])))
    ctx.trace()
    ctx.sample({"replayed": ctx.replay, "verdict": verdicts[1],
                "calls": [{"in": bytes(e["in"]).hex(), "out": e["out"], "pending_after": e["pend"],
                           "fresh_process": e["base"]} for e in new["ev"]]})
    ctx.rule = "replay of one recorded call history on one object of the current tree against new fresh-process baselines"
    report(ctx, [new], verdicts)


def run(ctx):
    if ctx.replay:
        return replay(ctx)
    quick = ctx.tier == "quick"
    ctx.rule = ("one case = one call history on ONE disassembler object: (G) every history of L calls over the "
                "input classes {valid, invalid, truncated, rejecting, raising, prefix_only, prefix_truncated, "
                "prefix_invalid, prefix_valid, prefix_raising} generated by TLC and concretised per ISA/mode, "
                "(T) random sequences over the ISA's input pool, (S) every path of 2 and 3 decode modes of the ISA (+ random walks) "
                "with the mode globals switched between calls; every outcome is compared by TLC with the "
                "outcome of the same input in a fresh process; non-trivial = the history contains a prefix, "
                "truncated, rejecting or raising call followed by at least one more call; distinct = distinct "
                "(isa/mode, sequence of classes)")
    ctx.assume("a fresh process = a child forked, for that one input, from a process that imported the ISA module "
               "and never called the decoder")
    ctx.assume("each history runs on a shallow copy of the never-used module-level disassembler object (same "
               "specification tree, own pending-prefix variable)")
    ctx.assume("decode modes are the decode-mode globals the ISA table lists (armv7: ARM/Thumb x little/big-endian fetch, "
               "armv8: little/big-endian fetch, x86: 32/16-bit); mode-switch histories (source S) set them between calls "
               "on one object, the fresh-process baseline of an input is taken under the same mode")
    ctx.assume("outcomes are compared through harness.dec_common.outcome (bytes, length, mnemonic, fingerprint of "
               "the instruction's instance dictionary; misc entries holding None count as absent)")
    # --- M ----------------------------------------------------------------------------------------------
    D.selftest(ctx, ("c11",))
    if not os.environ.get("VERIF_DEC_SKIP_M"):      # development aid for mutation experiments only
        model_runs(ctx, quick)
    # --- G: histories out of TLC ------------------------------------------------------------------------
    h3 = generate(ctx, "DecoderGen3.cfg")
    h4 = generate(ctx, "DecoderGen4.cfg")
    h5 = None if quick else generate(ctx, "DecoderGen5.cfg")
    ctx.note("generated_histories", {"L3": len(h3), "L4": len(h4), "L5": 0 if h5 is None else len(h5)})
    plain = set(c11.PLAIN_CLASSES)
    # --- pools, baselines -------------------------------------------------------------------------------
    t0 = time.time()
    per_class = 4 if quick else 10
    nother = 20 if quick else 80
    modes = D.isa_modes(switch=True)      # incl. the big-endian fetch modes used by the mode-switch histories
    with mp.get_context("fork").Pool(tlc.NCPU, maxtasksperchild=1) as pool:     # one ISA per process
        pools = pool.map(c11.pool_task, [(i, m, ctx.seed, per_class, nother) for i, m in modes], chunksize=1)
    fresh = mp.get_context("fork").Pool(tlc.NCPU, maxtasksperchild=1)
    try:
        bases = fresh.map(c11.baseline_task, [(p["isa"], p["mode"], [e["in"] for e in p["pool"]]) for p in pools], chunksize=1)
        for p, b in zip(pools, bases):
            for e, o in zip(p["pool"], b["base"]):
                e["base"] = o
        ctx.note("wall_pool_and_baseline_s", round(time.time() - t0, 1))
        # --- replay ---------------------------------------------------------------------------------------
        t0 = time.time()
        jobs = []
        classes_found = {}
        for p in pools:
            have = sorted(set(e["cls"] for e in p["pool"]))
            classes_found["%s/%s" % (p["isa"], p["mode"])] = dict((c, sum(1 for e in p["pool"] if e["cls"] == c)) for c in have)
            main = p["isa"] == "x86" and p["mode"] == "m32"
            if p["has_prefix"]:
                if quick:
                    # all histories of 3 calls; all of 4 calls on x86/m32, every 4th (seed-rotated) elsewhere
                    hs = h3 + (h4 if main else [h for k, h in enumerate(h4) if k % 4 == ctx.seed % 4])
                else:
                    # all histories of 4 calls; of the 100000 histories of 5 calls every 2nd on x86/m32 and
                    # every 16th elsewhere (seed-rotated, so seeds 0..1 / 0..15 cover them all)
                    hs = h4 + [h for k, h in enumerate(h5) if k % (2 if main else 16) == ctx.seed % (2 if main else 16)]
            else:
                src = h4 if quick else h5
                hs = [h for h in src if all(c["cls"] in plain for c in h)]
            nseq, seqlen = (12, 30) if quick else (120, 40)
            step = 2500
            for lo in range(0, len(hs), step):
                jobs.append((p["isa"], p["mode"], p["pool"], hs[lo:lo + step], nseq if lo == 0 else 0, seqlen, ctx.seed))
        # mode-switch histories: one object walked through the decode modes of its ISA
        switch_jobs = []
        names = []
        for p in pools:
            if p["isa"] not in names:
                names.append(p["isa"])
        for name in names:
            sm = D.switchable_modes(name)
            if sm:
                switch_jobs.append((name, dict((p["mode"], p["pool"]) for p in pools if p["isa"] == name and p["mode"] in sm),
                                    ctx.seed, 20 if quick else 200))
        outs = fresh.map(c11.replay_task, jobs, chunksize=1) + fresh.map(c11.switch_task, switch_jobs, chunksize=1)
    finally:
        fresh.close()
        fresh.join()
    ctx.note("wall_replay_s", round(time.time() - t0, 1))
    ctx.note("exemplars_per_class", classes_found)
    traces = []
    skipped = 0
    for o in outs:
        skipped += o["skipped"]
        if o["pristine_touched"]:
            raise tlc.MachineryError("the pristine disassembler object of %s was used" % o["isa"])
        for tr in o["traces"]:
            tr["t"] = len(traces) + 1
            tr["maxlen"] = 0
            traces.append(tr)
    ctx.note("histories_skipped_because_a_class_has_no_exemplar_on_this_tree", skipped)
    t0 = time.time()
    verdicts = D.validate(ctx, traces, "c11")
    ctx.note("wall_validate_s", round(time.time() - t0, 1))
    ncalls = 0
    per = {}
    for tr in traces:
        ncalls += len(tr["ev"])
        cl = tuple(e["cls"] for e in tr["ev"])
        if tr["src"] == "S":
            cl = ("switch",) + tuple(tr["path"])
        nontrivial = tr["src"] == "S" or any(c not in ("valid", "invalid", "other") for c in cl[:-1])
        ctx.case(key=(tr["m"], cl) if nontrivial else None)
        ctx.trace()
        st = per.setdefault(tr["m"], {"G": 0, "T": 0, "S": 0, "calls": 0})
        st[tr["src"]] += 1
        st["calls"] += len(tr["ev"])
    report(ctx, traces, verdicts)
    ctx.note("per_isa_mode", per)
    ctx.note("decode_calls_replayed", ncalls)
    pick = [t for t in traces if t["src"] == "G" and any(e["cls"].startswith("prefix") for e in t["ev"])]
    for t in pick[:2] + [t for t in traces if t["src"] == "T"][:1] + [t for t in traces if any(not c.startswith("drift") for _, c, _ in verdicts[t["t"]])][:1]:
        ctx.sample({"m": t["m"], "source": t["src"], "verdict": verdicts[t["t"]],
                    "calls": [{"cls": e["cls"], "in": bytes(e["in"]).hex(), "out": e["out"], "pending_after": e["pend"],
                               "fresh_process": e["base"]} for e in t["ev"][:6]]}, cap=4)
    ctx.exhaustive = False


if __name__ == "__main__":
    sys.exit(framework.main("C11", run))
