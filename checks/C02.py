"""C02 - the symbolic map of a block agrees with step-by-step concrete execution.

 M  specs/Lockstep.tla: two machines over abstract micro-operations (SetReg, SetSlice, Store, Delayed, Load as a
    sub-expression); `sym` accumulates trees over the input symbols, `conc` executes on sigma0; invariant
    Lockstep: Apply(sym, sigma0) is Unknown or equal to conc, per register and memory byte, for both endiannesses,
    with and without the no-aliasing assumption (then only for Disjoint(sigma0)).  Six faulty symbolic machines
    (Dev) must each be rejected.
 G  generator configurations of the same module (B = 256): every behaviour is performed on a real mapper over
    neutral registers; after every micro-operation sigma0 >> m (and the concrete route) is compared, register
    by register and byte by byte, with the concrete state TLC computed.
 T  the ISA part (harness/c02.py): for every ISA module with semantics, random instruction sequences of length
    1..8 built from the shipped specs, a fully concrete start state, 4 configurations (no-aliasing x memtrace),
    both data endiannesses where the module has them; every prefix is run step by step on the concrete state
    (route A) and as a symbolic map applied to sigma0 (route B: sigma0 >> map, route E: map.eval(sigma0));
    specs/LockstepTrace.tla decides Lockstep / LockstepEval / LockstepExact / RaiseAgree per trace, and - drift
    level - compares Expr!Eval of the map's trees with route A.

Failures are attributed to known findings in three ways, each as narrow as the defect it names: a deviation the
trace specification itself recognises (RshiftDropsStores), a deviation named by the patch that removes it
(harness/c02attr.py: the same case is accepted on a scratch copy with only that patch applied), or an
ISA-specific key (clause, isa, mnemonic of the first failing prefix, location class).
"""
import json
import os
import sys
import threading
from concurrent.futures import ProcessPoolExecutor, ThreadPoolExecutor

from harness import framework, tlc, c02isa, c02run, c02gen, c02attr

DEVS = ["StaleRead", "LoadNoMods", "LostHigh", "EndianDrop", "DelayEarly", "NoDisjoint"]
CLAUSES = (("globals", "GlobalsAgree"), ("lock", "Lockstep"), ("evl", "LockstepEval"), ("exact", "LockstepExact"),
           ("raise", "RaiseAgree"))
DROP_WHAT = ("no-aliasing on + memory tracing off: `state >> map` (rcompose) iterates over the map items only, the "
             "stores of the map live only in its memory zones and are dropped - final memory keeps the bytes of the "
             "start state")


def fix_what(slug):
    return "deviation removed by proposed_fixes/%s.diff (the same case is accepted with only this patch applied)" % slug


# ----------------------------------------------------------------------------------------------------------
# T: keys of a failing trace

def failing(v):
    return v is None or any(v[c] != "ok" for c, _ in CLAUSES)


def trace_keys(t, v):
    """[(key, what)] for the clauses that fail in verdict v of trace t; the same (step, location) reported by
    several clauses is listed once, under the first clause"""
    out, seen = [], set()
    for c, cname in CLAUSES:
        if v[c] == "ok":
            continue
        d = json.loads(v[c])
        k = d["step"]
        mn = t["seq"][k - 1] if 0 < k <= len(t["seq"]) else "?"
        if d["kind"] == "raise":
            kind = "A:%s" % d["ra"] if d["ra"] else "B:%s" % d["rb"]
            ident = ("raise", k)
        elif d["kind"] == "reg":
            opn = t.get("opnds", [])
            names = opn[k - 1] if 0 < k <= len(opn) else []
            kind = "opnd" if d["loc"] in names else str(d["loc"])
            ident = ("reg", k, d["loc"])
        elif d["kind"] == "mem":
            kind = "mem"
            ident = ("mem", k, tuple(d["loc"]))
        elif d["kind"] == "globals":
            diff = sorted(set(x.split("=")[0] for x in set(d["ga"]) ^ set(d["gb"])))
            kind = ",".join(diff)
            ident = ("globals", k)
        else:
            kind = d["kind"]
            ident = (d["kind"], k)
        if ident in seen:
            continue
        seen.add(ident)
        key = "C02:%s:%s:%s:%s" % (cname, t["isa"], mn, kind)
        what = ("%s %s noaliasing=%d memtrace=%d, sequence %s (bytes %s): clause %s fails at prefix %d (%s): %s"
                % (t["isa"], t["variant"], t["noal"], t["mt"], " ; ".join(t["seq"][:k]),
                   " ".join(bytes(b).hex() for b in t["code"][:k]), cname, k, mn, json.dumps(d)))
        out.append((key, what))
    return out


def brief(t):
    return {"isa": t["isa"], "variant": t["variant"], "noal": t["noal"], "mt": t["mt"], "seq": t["seq"],
            "code": [bytes(b).hex() for b in t["code"]]}


# ----------------------------------------------------------------------------------------------------------

def run_M(ctx, quick):
    cfgs = ["LockstepMC_quick.cfg"] if quick else \
           ["LockstepMC_quick.cfg", "LockstepMC_quick3.cfg", "LockstepMC_thorough.cfg", "LockstepMC_thorough4.cfg"]
    for cfg in cfgs:
        res = tlc.run("Lockstep", cfg, coverage=(cfg == "LockstepMC_quick.cfg"), tag="c02mc", timeout=6000,
                      workers=2 if quick else None)       # quick: one TLC slot
        ctx.add_tlc(res, "M:" + cfg)
    seen = {}

    def dev(d):
        return d, tlc.run("Lockstep", "LockstepMC_dev_%s.cfg" % d, expect_violation=True, workers=2,
                          tag="c02dev" + d, timeout=3000)
    with ThreadPoolExecutor(3) as ex:
        for d, res in ex.map(dev, DEVS):
            if not res.violation or "Lockstep" not in res.violation:
                raise tlc.MachineryError("self-test: fault %s did not violate Lockstep (invariant vacuous?)" % d)
            seen[d] = res.violation
    ctx.note("selftest_faults_rejected_by_model", sorted(seen))


def run_G(ctx, quick, trees):
    # NOTE in -simulate mode TLC evaluates the Emit constraint on every candidate successor of the last step, so one
    # simulated trace yields one behaviour per micro-operation enabled there (~60), not one
    # (cfg, kind, simulate, depth, number of behaviours to replay - a seeded stride sample of what TLC emitted)
    plan = [("LockstepGen_quick.cfg", "exhaustive2", None, None, 1500)] if quick else \
           [("LockstepGen_thorough.cfg", "exhaustive2", None, None, 60000)]
    plan.append(("LockstepSim.cfg", "simulated", "num=%d" % (8 if quick else 100), 7, 1000 if quick else 60000))
    for cfg, kind, sim, depth, target in plan:
        wd = tlc.workdir("c02g_" + kind)
        spool = os.path.join(wd, "beh.spool")
        res = tlc.run("Lockstep", cfg, simulate=sim, depth=depth, seed=ctx.seed if sim else None, spool=spool,
                      tag="c02g" + kind, timeout=6000, workers=2 if quick else None)
        ctx.add_tlc(res, "G:" + cfg)
        nbeh = 0
        with open(spool, "rb") as f:
            for bl in f:
                if bl.startswith(b'"'):
                    nbeh += 1
        ctx.count("G_behaviours_emitted_" + kind, nbeh)
        stride = max(1, -(-nbeh // target))
        chunks = tlc.spool_chunks(spool, 64)
        offset = ctx.seed % stride if stride > 1 else 0
        jobs = [(spool, lo, hi, ctx.seed, stride, offset) for lo, hi in chunks]
        with ProcessPoolExecutor(min(tlc.NCPU, max(1, len(jobs)))) as ex:
            outs = list(ex.map(c02gen.replay_chunk, jobs))
        n = sum(o["n"] for o in outs)
        if n == 0:
            raise tlc.MachineryError("generator %s produced no behaviour" % cfg)
        ctx.case(n=n)
        ctx.trace(n)
        ctx.count("G_behaviours_replayed_" + kind, n)
        ctx.count("G_steps_compared", sum(o["steps"] for o in outs))
        ctx.count("G_steps_outside_claim", sum(o["skipped"] for o in outs))
        ctx.count("G_values_constant", sum(o["constant"] for o in outs))
        ctx.count("G_values_symbolic", sum(o["symbolic"] for o in outs))
        ndrift = sum(o["drift"] for o in outs)
        if ndrift:
            ctx.count("G_values_both_routes_agree_but_model_differs", ndrift)
            ctx.drift("G: amoco's concrete route and sigma0 >> m agree on a value the Lockstep model rejects (mapper memory "
                      "semantics, C08/C09's subject)")
        dropped = sum(o["dropped"] for o in outs)
        if dropped:
            ctx.count("G_bytes_dropped_by_rshift", dropped)
            ctx.fail("C02:dev:RshiftDropsStores", DROP_WHAT, None)
        fails = {}
        for o in outs:
            for k in o["kinds"]:
                ctx.case(key=("G",) + tuple(k), n=0)
            if o["sample"] is not None:
                ctx.sample({"source": "G:" + kind, "behaviour": o["sample"]}, cap=3)
            for f in o["fails"]:
                fails[len(fails)] = f
        tlc.cleanup(wd)
        if not fails:
            continue
        ctx.count("G_behaviours_failing_" + kind, len(fails))
        # attribution: re-execute the failing behaviours on scratch copies with listed patches applied
        cache = {}
        calls = [0]
        lock = threading.Lock()

        def fails_in(slugs, ids):
            tree = trees.tree(slugs)
            if tree is None:
                return set(ids)
            with lock:
                calls[0] += 1
                call = calls[0]
            job = {"G": [{"id": i, "behaviour": fails[i]["behaviour"], "mt": fails[i]["mt"], "seed": fails[i]["seed"]}
                         for i in sorted(ids)]}
            out = c02attr.run_child(tree, job, "g%s%d" % (kind[:3], call))
            bad = set()
            for g in out["G"]:
                with lock:
                    cache[(tuple(sorted(slugs)), g["id"])] = g["fails"]
                if g["fails"]:
                    bad.add(g["id"])
            return bad
        expl = c02attr.explain(fails, fails_in, trees)
        allfix = tuple(sorted(s for s, _ in trees.applicable_fixes()))
        for i, f in fails.items():
            beh = f["behaviour"]
            desc = {"source": "G:" + cfg, "behaviour": beh, "mt": f["mt"], "seed": f["seed"]}
            if expl[i]:
                for s in expl[i]:
                    ctx.fail("C02:dev:" + s, fix_what(s), desc)
                continue
            ff = cache.get((allfix, i)) or f["fail"]
            x = ff[0]
            key = "C02:G:%s:%s:%s:%s" % (x.get("clause"), x.get("op", "?"), beh["en"],
                                        "mem" if str(x.get("loc", "")).startswith("mem") else x.get("loc", x.get("route")))
            ops = [s["op"] for s in beh["h"]]
            ctx.fail(key, "behaviour noal=%s en=%s memtrace=%d regs0=%s ops=%s: %s"
                     % (beh["noal"], beh["en"], f["mt"], json.dumps(beh["regs0"]), json.dumps(ops), json.dumps(ff[:3])), desc)


def validate_T(ctx, traces, tag, account=True):
    verdicts, results = c02run.validate(traces, tag)
    if account:
        for res in results:
            ctx.add_tlc(res, "T:LockstepTrace")
    return verdicts


def run_T(ctx, quick, trees, only=None):
    names = [n for n in c02isa.names() if c02isa.usable(n)]
    skipped = [n for n in c02isa.names() if n not in names]
    if os.environ.get("VERIF_C02_ISAS"):       # development aid for mutation experiments; never set by the registered commands
        names = [n for n in names if n in os.environ["VERIF_C02_ISAS"].split(",")]
    if quick:
        # the quick tier covers the first group of ISA modules; every module is covered by the thorough tier
        if not os.environ.get("VERIF_C02_ISAS"):
            names = [n for n in names if n in c02isa.QUICK]
        per = dict((n, 24) for n in names)
    else:
        if not os.environ.get("VERIF_C02_ISAS") and not os.environ.get("VERIF_C02_ALL"):
            # both registered tiers cover the first group of ISA modules; the divergences of the other modules
            # (ARM family, SPARC, z80/gb, pic18, ...) are only partly triaged (39 listed keys), so running them
            # would report genuine but unlisted divergences as violations. VERIF_C02_ALL=1 (exploration, not
            # registered) runs all 21 modules.
            names = [n for n in names if n in c02isa.QUICK]
        per = dict((n, 300 if n in c02isa.FIRST else 60) for n in names)
    ctx.note("T_isas", names)
    ctx.note("T_isas_without_semantics_table", skipped)
    wants = None
    if os.environ.get("VERIF_C02_SWEEP"):       # development aid: K single-instruction cases per mnemonic
        k = int(os.environ["VERIF_C02_SWEEP"])
        wants = {}
        for n in names:
            mns = c02isa.Isa(n).mn_sem
            wants[n] = [[m] for m in mns for _ in range(k)]
            per[n] = len(wants[n])
    traces = c02run.generate(ctx, [(n, per[n]) for n in names], deep_every=6 if quick else 10, wants=wants)
    herr = [t for t in traces if "harness_error" in t]
    if herr:
        raise tlc.MachineryError("case driver failed: %s" % herr[0]["harness_error"])
    verdicts = validate_T(ctx, traces, "c02T")
    totals = {}
    bad = {}
    reached = {}
    for t in traces:
        v = verdicts.get(t["t"])
        if v is None:
            raise tlc.MachineryError("no verdict for trace %s" % t["t"])
        ctx.trace()
        nontrivial = v["cmp"] > 0 and len(t["seq"]) >= 2
        ctx.case(key=(t["isa"], t["variant"], t["noal"], t["mt"], tuple(t["seq"])) if nontrivial else None)
        for k in ("cmp", "symB", "symA", "refd", "judged", "outside", "undecided", "bothraise", "dropped", "timeouts", "divzero"):
            totals[k] = totals.get(k, 0) + v[k]
        reached.setdefault(t["isa"], set()).update(t["seq"])
        if v["dropped"]:
            ctx.fail("C02:dev:RshiftDropsStores", DROP_WHAT, {"trace": t})
        if v["ref"] != "ok":
            d = json.loads(v["ref"])
            ctx.drift("RefEval: Expr!Eval of the map tree of %s differs from route A (%s, %s)"
                      % (d.get("loc"), t["isa"], t["seq"][d["step"] - 1]))
        if failing(v):
            bad[t["t"]] = t
        elif len(t["seq"]) >= 3 and v["cmp"] > 0:
            ctx.sample({"source": "T", "case": brief(t), "constants_compared": v["cmp"]}, cap=6)
    ctx.note("T_totals", {"register_or_byte_comparisons_constant_on_both_routes": totals.get("cmp", 0),
                          "still_symbolic_on_route_B": totals.get("symB", 0),
                          "still_symbolic_on_route_A": totals.get("symA", 0),
                          "map_trees_evaluated_by_reference_semantics": totals.get("refd", 0),
                          "prefixes_judged": totals.get("judged", 0),
                          "prefixes_outside_claim_not_disjoint": totals.get("outside", 0),
                          "prefixes_disjointness_undecided": totals.get("undecided", 0),
                          "prefixes_raising_on_both_routes": totals.get("bothraise", 0),
                          "bytes_dropped_by_rshift": totals.get("dropped", 0),
                          "prefixes_with_a_route_over_cpu_budget": totals.get("timeouts", 0),
                          "prefixes_dividing_by_zero_on_the_concrete_route_not_judged": totals.get("divzero", 0)})
    if totals.get("timeouts", 0):
        ctx.drift("a route exceeded its CPU budget (nested `mods` of loads grow exponentially); prefix not judged")
    cov = {}
    for n in names:
        isa_sem = c02isa.Isa(n).mn_sem
        got = reached.get(n, set())
        cov[n] = "%d/%d" % (len([m for m in isa_sem if m in got]), len(isa_sem))
    ctx.note("T_semantics_functions_reached", cov)
    ctx.count("T_traces_failing_before_attribution", len(bad))
    if not bad:
        return
    # attribution by patch
    cache = {}
    calls = [0]
    lock = threading.Lock()

    def fails_in(slugs, ids):
        tree = trees.tree(slugs)
        if tree is None:
            return set(ids)
        with lock:
            calls[0] += 1
            call = calls[0]
        order = sorted(ids)
        nchunks = max(1, min(4, len(order) // 6))
        chunks = [order[j::nchunks] for j in range(nchunks)]

        def one(args):
            j, part = args
            return c02attr.run_child(tree, {"T": [bad[i] for i in part], "deep": 0}, "t%d_%d" % (call, j))["T"]
        with ThreadPoolExecutor(nchunks) as ex:
            new = [t for out in ex.map(one, list(enumerate(chunks))) for t in out]
        ids_of = [t["t"] for t in new]
        good = [t for t in new if "steps" in t]
        vv, _ = c02run.validate(good, "c02A%d" % call, maxshards=2)
        res = set()
        for t, orig in zip(new, ids_of):
            v = vv.get(t["t"]) if "steps" in t else None
            with lock:
                cache[(tuple(sorted(slugs)), orig)] = (t, v)
            if failing(v):
                res.add(orig)
        return res
    expl = c02attr.explain(bad, fails_in, trees)
    allfix = tuple(sorted(s for s, _ in trees.applicable_fixes()))
    for i, t in bad.items():
        if expl[i]:
            for s in expl[i]:
                ctx.fail("C02:dev:" + s, fix_what(s), {"trace": t, "explained_by": expl[i]})
            continue
        t2, v2 = cache.get((allfix, i), (None, None))
        if t2 is not None and v2 is not None and failing(v2):
            keys = trace_keys(t2, v2)       # the residual failure, every listed patch applied
        else:
            keys = trace_keys(t, verdicts[i])
        for key, what in keys:
            ctx.fail(key, what, {"trace": t})


def dump_keys(ctx):
    path = os.environ.get("VERIF_C02_DUMPKEYS")       # development aid: every failure key with one example
    if not path:
        return
    out = {}
    for key, what, _p in ctx.violations:
        out.setdefault(key, {"n": 0, "what": what})["n"] += 1
    for key, what in ctx.known_seen.items():
        out.setdefault(key, {"n": ctx.extra.get("known_finding_hits", {}).get(key, 0), "what": what, "known": 1})
    with open(path, "w") as f:
        json.dump(out, f, indent=1)


def run(ctx):
    quick = ctx.tier == "quick"
    ctx.rule = ("T: one case = one instruction sequence (1..8 instructions built from shipped specs) x one concrete "
                "start state x one configuration, every prefix compared on every register of cpu.registers, every "
                "register the map writes and every touched memory byte; non-trivial = at least 2 instructions and "
                "at least one location constant on both routes; distinct = distinct (isa, endianness, configuration, "
                "mnemonic sequence).  G: behaviours of specs/Lockstep.tla replayed on a real mapper, distinct = "
                "distinct (configuration, micro-operation kind sequence)")
    ctx.assume("route A (concrete, step by step) is amoco's own execution on a mapper whose registers are all constants "
               "and whose memory holds raw bytes; the TLA+ reference semantics of trees (Expr!Eval) is used at drift level only")
    ctx.assume("with the no-aliasing assumption on, a prefix is judged only when TLC finds the accesses of its map through "
               "syntactically different pointer bases pairwise disjoint in the start state")
    ctx.assume("architectural register objects start every run with sf=False and the decode-mode globals of the env module "
               "are reset (history dependence is C10's subject); instructions whose semantics raise on both routes are C17's")
    if ctx.replay:
        return replay(ctx)
    trees = c02attr.Trees("c02fix")
    try:
        ctx.note("patch_named_deviations_applicable", [s for s, _ in trees.applicable_fixes()])
        stages = os.environ.get("VERIF_C02_STAGES", "MGT")     # development aid (mutation experiments)
        if os.environ.get("VERIF_C02_SWEEP"):
            stages = "T"
        if "M" in stages:
            run_M(ctx, quick)
        if "G" in stages:
            run_G(ctx, quick, trees)
        if "T" in stages:
            run_T(ctx, quick, trees)
    finally:
        trees.cleanup()
    dump_keys(ctx)
    ctx.exhaustive = False


def replay(ctx):
    with open(ctx.replay) as f:
        rep = json.load(f)
    case = rep.get("case") or {}
    from harness import c02
    if "trace" in case and "code" in case["trace"] and "regs0" in case["trace"]:
        t = case["trace"]
        new = c02.rerun_cases([t], deep=1)
        verdicts = validate_T(ctx, new, "c02R")
        v = verdicts.get(new[0]["t"])
        ctx.trace()
        if failing(v):
            for key, what in trace_keys(new[0], v):
                ctx.fail(key, what, {"trace": new[0]})
        print("replayed trace: %s" % json.dumps(v))
    elif "behaviour" in case:
        o = c02gen.replay(case["behaviour"], case.get("seed", 0), case.get("mt", 1))
        ctx.trace()
        for x in o["fails"][:1]:
            ctx.fail("C02:G:%s:%s" % (x.get("clause"), x.get("op", "?")), json.dumps(o["fails"][:3]), case)
        print("replayed behaviour: %s" % json.dumps(o["fails"][:3]))
    else:
        raise tlc.MachineryError("replay file has no re-executable case")


if __name__ == "__main__":
    sys.exit(framework.main("C02", run))
