"""C05 - a decoded instruction is determined by the bytes it consumes.

 M  specs/Sweep.tla: an uninterpreted decoder known only through the history of its answers; TLC shows at
    small scope that PrefixDetermined and Consumes (hence Window) make linear sweep and recursive traversal
    agree on every instruction both reach, that Window follows from the other two, and that dropping
    PrefixDetermined or Consumes breaks it.  specs/Decoder.tla: the implementation-shaped model of a decode
    call satisfies Consumes / PrefixDetermined on every call history (and seeded faults break them).
 T  for every ISA module/mode: inputs from every shipped ispec (and random strings); each yields the call
    family d(b), d(b[:n]), d(b[:n-1]), d(b[:n]+t) x3, d(b[:maxlen]), d(b) again; specs/DecoderTrace.tla
    evaluates Consumes / PrefixDetermined / Window over the family's history.
Findings are keyed (isa/mode, clause, format string of the ispec that matched) - the row of the decode table.
"""
import multiprocessing as mp
import os
import multiprocessing.pool
import sys

from harness import framework, tlc, c05, c17
from harness import dec_common as D

QUICK_FILL = ["zeros", "ones", "random+p", "pfxsib"]
THOROUGH_FILL = ["zeros", "ones", "pfxsib", "pfxsib"] + ["boundary"] * 4 + ["random"] * 8 + ["random+p"] * 4 + ["boundary+p"] * 2


def model_runs(ctx, quick):
    runs = [("Sweep", "SweepMC_quick.cfg", None), ("Sweep", "SweepMC_nowindow.cfg", None),
            ("Sweep", "SweepMC_nopd.cfg", "Agree"), ("Sweep", "SweepMC_noconsumes.cfg", "InRegion"),
            ("Sweep", "SweepMC_none.cfg", "SameReach"),
            ("Decoder", "DecoderMC_quick.cfg", None), ("Decoder", "DecoderMC_dev_rollback.cfg", "FunctionalCalls")]
    if not quick:
        runs += [("Sweep", "SweepMC_thorough.cfg", None), ("Decoder", "DecoderMC_thorough.cfg", None)]

    def one(r):
        mod, cfg, viol = r
        return r, tlc.run(mod, cfg, expect_violation=viol is not None, workers=2, tag="c05" + cfg[:-4], timeout=3000)
    with multiprocessing.pool.ThreadPool(len(runs)) as tp:
        outs = tp.map(one, runs)
    broken = {}
    for (mod, cfg, viol), res in outs:
        ctx.add_tlc(res, "M:" + cfg)
        if viol is not None:
            if not res.violation or viol not in res.violation:
                raise tlc.MachineryError("self-test %s: expected invariant %s to be violated, TLC said %s"
                                         % (cfg, viol, res.violation))
            broken[cfg] = res.violation
    ctx.note("hypothesis_dropped_or_fault_seeded_breaks", broken)


def fail_key(tr, line, clause, other):
    """decode-table findings are keyed by the table row: (isa/mode, clause, format of the matched ispec).
    TruncatedAccepted on a variable-length ('*') spec is a defect of the hook that parses the operand, shared
    by all rows decorated on that hook: keyed (isa, clause, hook)."""
    a, b = tr["ev"][line - 1], tr["ev"][(other or line) - 1]
    if clause == "TruncatedAccepted":
        x = a if len(a["in"]) <= len(b["in"]) else b      # the truncated input that was accepted
        if x.get("sp", "").startswith("*"):
            return "C05:%s:TruncatedAccepted:%s" % (tr["m"].split("/")[0], x.get("hook"))
        return "C05:%s:TruncatedAccepted:%s" % (tr["m"], x.get("sp"))
    sp = a.get("sp") or b.get("sp") or tr["ev"][0].get("sp") or "-"
    return "C05:%s:%s:%s" % (tr["m"], clause, sp)


def show(e):
    o = e["out"]
    if o["k"] == "instr":
        return "%s: d(%s) = %s len %d bytes %s fp %s" % (e["what"], bytes(e["in"]).hex(), o["mn"], o["len"],
                                                     bytes(x & 0xFF for x in o["bytes"]).hex(), o["fp"][:8])
    return "%s: d(%s) = %s" % (e["what"], bytes(e["in"]).hex(), o["k"] + (":" + o["exc"] if o["k"] == "raised" else ""))


def describe(tr, line, clause, other):
    s = "%s: clause %s fails: %s" % (tr["m"], clause, show(tr["ev"][line - 1]))
    if other and other != line:
        s += " versus " + show(tr["ev"][other - 1])
    return s


def report(ctx, traces, verdicts):
    for tr in traces:
        seen = set()
        for line, clause, other in verdicts[tr["t"]]:
            k = fail_key(tr, line, clause, other)
            if k in seen:
                continue
            seen.add(k)
            ctx.fail(k, describe(tr, line, clause, other),
                     {"source": "T", "trace": tr, "line": line, "clause": clause, "with": other})


def replay(ctx):
    """./check C05 --replay <file>: the recorded family's inputs are decoded again on the current tree and the
    new history is judged by TLC again"""
    import json
    case = json.load(open(ctx.replay))["case"]
    tr = case["trace"]
    isa, mode = tr["m"].split("/")
    with mp.Pool(1) as pool:
        new = pool.apply(c05.replay_family, ((isa, mode, [bytes(e["in"]).hex() for e in tr["ev"]],
                                              [e.get("what", "d(?)") for e in tr["ev"]]),))
    new["t"] = 1
    verdicts = D.validate(ctx, [new], "c05r")
    ctx.case(key=("replay", tr["m"]))
    ctx.case(key=("replay-calls", len(new["ev"])))
    ctx.trace()
    ctx.sample({"replayed": ctx.replay, "family": [{"what": e["what"], "in": bytes(e["in"]).hex(), "out": e["out"]} for e in new["ev"]],
                "verdict": verdicts[1]})
    ctx.rule = "replay of one recorded call family on the current tree"
    report(ctx, [new], verdicts)


def run(ctx):
    if ctx.replay:
        return replay(ctx)
    quick = ctx.tier == "quick"
    ctx.rule = ("one case = one call family d(b), d(b[:n]), d(b[:n-1]), d(b[:n]+t) for 3 suffixes, d(b[:maxlen]), "
                "d(b) again, on one ISA module/mode; b from every shipped ispec x fillings (%s) + random strings; "
                "non-trivial when d(b) is an instruction; distinct = distinct (isa/mode, matched ispec format, "
                "instruction length)" % ", ".join(sorted(set(QUICK_FILL if quick else THOROUGH_FILL))))
    ctx.assume("the decode call is issued as a fetcher does: bytes only; ISAs with suffix (xdata) specs also get "
               "address=0 and code=<the same bytes>")
    ctx.assume("outcomes are compared through harness.dec_common.outcome: bytes, length, mnemonic and a fingerprint "
               "of the instruction's whole instance dictionary (operands' expression trees, misc, type, spec), "
               "address excluded")
    ctx.assume("the advertised maximum length is cpu.disassemble.maxlen")
    ctx.assume("a call that raises has no outcome in C05's vocabulary: it is C17's subject and does not enter the "
               "family's history (counted in calls_that_raised_excluded_from_histories); after such a call the "
               "harness clears the object's pending-prefix variable so that families are independent (that it stays "
               "set is C11's finding)")
    # --- M ----------------------------------------------------------------------------------------------
    D.selftest(ctx, ("c05",))
    if not os.environ.get("VERIF_DEC_SKIP_M"):      # development aid for mutation experiments only
        model_runs(ctx, quick)
    # --- T ----------------------------------------------------------------------------------------------
    fillings = QUICK_FILL if quick else THOROUGH_FILL
    nrandom = 100 if quick else 1500
    import time
    t_gen = time.time()
    with mp.get_context("fork").Pool(tlc.NCPU, maxtasksperchild=1) as pool:     # one ISA per process
        counts = pool.map(c17.spec_count, D.isa_modes())
        jobs = []
        for isa, mode, n, err in counts:
            if err:
                raise tlc.MachineryError("ISA module %s does not import (reported by C17): %s" % (isa, err))
            step = max(16, -(-n // 6))      # at most 6 chunks per ISA/mode; every chunk runs in its own process
            lo, first = 0, True
            while lo < n:
                jobs.append((isa, mode, lo, min(n, lo + step), fillings, nrandom if first else 0, ctx.seed))
                first = False
                lo += step
        outs = pool.map(c05.run_chunk, jobs, chunksize=1)
    traces = []
    for o in outs:
        if o.get("import_error"):
            raise tlc.MachineryError("ISA module %s does not import: %s" % (o["isa"], o["import_error"]))
        for tr in o["traces"]:
            tr["t"] = len(traces) + 1
            traces.append(tr)
    ctx.note("wall_drive_s", round(time.time() - t_gen, 1))
    t_val = time.time()
    verdicts = D.validate(ctx, traces, "c05")
    ctx.note("wall_validate_s", round(time.time() - t_val, 1))
    per = {}
    ncalls = 0
    for tr in traces:
        first = tr["ev"][0]
        ncalls += len(tr["ev"])
        st = per.setdefault(tr["m"], {"families": 0, "instr": 0, "calls": 0, "longer_than_maxlen": 0})
        st["families"] += 1
        st["calls"] += len(tr["ev"])
        if first["out"]["k"] == "instr":
            st["instr"] += 1
            if first["out"]["len"] > tr["maxlen"]:
                st["longer_than_maxlen"] += 1
            ctx.case(key=(tr["m"], first.get("sp"), first["out"]["len"]))
        else:
            ctx.case()
        ctx.trace()
    report(ctx, traces, verdicts)
    ctx.note("per_isa_mode", per)
    ctx.note("decode_calls", ncalls)
    good = [t for t in traces if t["ev"][0]["out"]["k"] == "instr" and len(t["ev"]) > 5]
    for t in good[:1] + good[len(good) // 2:len(good) // 2 + 1] + [t for t in traces if verdicts[t["t"]]][:2]:
        ctx.sample({"m": t["m"], "src": t["src"], "maxlen": t["maxlen"], "verdict": verdicts[t["t"]],
                    "family": [{"what": e["what"], "in": bytes(e["in"]).hex(), "out": e["out"]} for e in t["ev"]]}, cap=4)
    ctx.note("calls_that_raised_excluded_from_histories",
             sum(1 for t in traces for e in t["ev"] if e["out"]["k"] == "raised"))
    ctx.exhaustive = False


if __name__ == "__main__":
    sys.exit(framework.main("C05", run))
