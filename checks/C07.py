"""C07 - x86/x64 instruction boundaries agree with the reference disassemblers.

 M      specs/X86Len.tla (+ generated specs/X86OpTab.tla): the length decoder as a state machine. TLC walks every
        path class (byte values partitioned by successor state) for both modes and up to N legacy prefixes and
        checks: every complete path has length <= 15 and is the sum of its parts (LenBound), the operational
        ModRM/SIB/displacement rule agrees with the declarative tables (DispRule), immediates follow operand /
        address size (ImmRule), the byte classes partition the 256 values with one successor each
        (Deterministic), no non-terminal state is stuck, pos never decreases. Three seeded faults must be
        rejected (X86LenMC_dev*.cfg).
 T-ref  the vendored reference table (corpus/x86len: objdump + llvm-objdump agree) is validated by TLC against
        the same machine (specs/X86LenTrace.tla, clauses RefLen / RefBranch / RefDisp): this binds the TLA+
        decoder to the references. A seeded fault must make this validation fail (X86LenTrace_dev.cfg).
 G      TLC emits one byte-string template per path class (X86LenGen_*.cfg); the replayer picks class members
        and fills free bytes from the seeded rng, decodes with cpu_x86 / cpu_x64, cross-checks live against
        objdump / llvm-objdump when they are on PATH, and hands [bytes, references, amoco, template] to TLC.
 T      the vendored table against amoco; linear sweeps over vendored and fresh random / code-like buffers
        follow the boundaries amoco and the references share until the first window outside the property.
 The verdict on every record is TLC's (X86LenTrace.Judge): Length / Disp are the property; a failure is
 attributed to a known finding iff the specification with that named amoco deviation reproduces amoco's answer.
"""
import json
import multiprocessing as mp
import multiprocessing.pool
import os
import random
import sys
import time

from harness import framework, tlc, c07, c07ref


class Batch(object):
    """records (sources G, T, W), with what Python must remember about each (never sent to TLC)"""

    def __init__(self, name):
        self.name = name
        self.records = []
        self.side = {}

    def add(self, src, mode, b, live, rl, rd, a, tl, extra=None):
        t = len(self.records)
        self.records.append(c07.record(t, mode, b, live, rl, rd, a, tl))
        self.side[t] = (src, mode, b, a, rl, rd, extra)
        return t


def settle(ctx, batch, verdicts):
    """turn TLC's verdicts into the check's bookkeeping"""
    ndj = nout = 0
    nj = {}
    nnone = {}
    excs = 0
    bindfail = []
    for r in batch.records:
        t = r["t"]
        src, mode, b, a, rl, rd, extra = batch.side[t]
        v = verdicts.get(t)
        if a is not None and a["exc"]:
            excs += 1
            ctx.extra.setdefault("amoco_exceptions_examples", [])
            if len(ctx.extra["amoco_exceptions_examples"]) < 5:
                ctx.extra["amoco_exceptions_examples"].append({"mode": mode, "bytes": b.hex(), "exc": a["exc"][:120]})
        if v is None:       # plain: in the specification's domain, binding ok, property ok, no branch judged
            # (bookkeeping only) it was a judged case when amoco decoded it and an expected value existed
            if r["al"] >= 0 and (r["live"] == 0 or r["rl"] >= 0):
                nj[src] = nj.get(src, 0) + 1
                ctx.case(key=(mode, a["fmt"], a["al"]))
            continue
        if v["bind"] != "ok":
            bindfail.append((v, mode, b, rl, rd, src))
        if v["dom"] == "out":
            nout += 1
        elif v["dom"] == "none":
            nnone[src] = nnone.get(src, 0) + 1
        if v["judged"]:
            nj[src] = nj.get(src, 0) + 1
            ctx.case(key=(mode, a["fmt"], a["al"]))
        if v["dj"]:
            ndj += 1
        if v["prop"] != "ok":
            isa = c07.ISA[mode]
            if v["attr"] != "none":
                key = "C07:%s:%s:Dev_%s" % (isa, v["prop"], v["attr"])
            else:
                key = "C07:%s:%s:%s" % (isa, v["prop"], a["fmt"])
            exp = rl if r["live"] == 1 else v["sl"]
            what = ("%s %s: bytes %s decoded by row %r as length %s%s; references: length %s%s; X86Len: %s"
                    % (isa, v["prop"], b.hex(), a["fmt"], a["al"],
                       (" operand0 v=%#x size=%s" % (a["ad"], a["as"])) if v["prop"] == "Disp" else "",
                       exp if r["live"] == 1 else "(not consulted)",
                       (" disp=%#x" % rd) if rd is not None else "",
                       "length %s disp limbs %s" % (v["sl"], v["sd"]) if v["sl"] >= 0 else v["st"]))
            ctx.extra.setdefault("property_failures_by_key", {})
            ctx.extra["property_failures_by_key"][key] = ctx.extra["property_failures_by_key"].get(key, 0) + 1
            ctx.fail(key, what, {"source": src, "mode": mode, "bytes": b.hex(), "ref_len": rl,
                                 "ref_disp": rd, "live": r["live"], "tl": r["tl"], "amoco": a, "verdict": v})
    for src, n in nj.items():
        ctx.count("judged_" + src, n)
        ctx.trace(n)
    for src, n in nnone.items():
        ctx.count("no_expected_value_" + src, n)
    ctx.count("branch_displacements_judged", ndj)
    ctx.count("outside_spec_domain_but_references_agree", nout)
    ctx.count("amoco_exceptions_observed", excs)
    if bindfail:
        v, mode, b, rl, rd, src = bindfail[0]
        msg = ("%d record(s): specification and references differ (%s, source %s): mode %s bytes %s references len %s disp %s, "
               "X86Len %s len %s disp %s" % (len(bindfail), v["bind"], src, mode, b.hex(), rl, rd, v["st"], v["sl"], v["sd"]))
        # the vendored entries are static: X86Len must reproduce every one of them (T-ref); a template that
        # TLC's own concrete decoder contradicts is a broken generator
        if any(x[5] in ("T", "Wv") or x[0]["bind"] == "Template" for x in bindfail):
            raise tlc.MachineryError("reference binding broken: " + msg)
        for x in bindfail:
            ctx.drift("model binding: X86Len disagrees with the live references on a fresh string (%s)" % x[0]["bind"])
        ctx.extra.setdefault("binding_mismatch_examples", []).append(msg)


def run_judge(ctx, batch, nshards=None):
    verdicts, results = c07.judge(batch.records, batch.name, nshards)
    for res in results:
        ctx.add_tlc(res, "T:X86LenTrace(%s)" % batch.name)
    settle(ctx, batch, verdicts)


def model_checks(ctx, quick):
    """run in a background thread (TLC only, independent of everything else); returns what to account"""
    cfgs = ["X86LenMC.cfg"] if quick else ["X86LenMC.cfg", "X86LenMC_thorough.cfg"]
    jobs = [(c, False) for c in cfgs] + [("X86LenMC_dev%d.cfg" % k, True) for k in ((1 + ctx.seed % 3,) if quick else (1, 2, 3))]

    def one(job):
        cfg, dev = job
        return tlc.run("X86Len", cfg, expect_violation=dev, coverage=(cfg == "X86LenMC.cfg" and not quick), workers=6,
                       tag="c07" + cfg[:-4], timeout=3000)
    with mp.pool.ThreadPool(len(jobs)) as tp:
        results = tp.map(one, jobs)
    return jobs, results


def account_model_checks(ctx, jobs, results):
    caught = {}
    for (cfg, dev), res in zip(jobs, results):
        if dev:
            if not res.violation:
                raise tlc.MachineryError("self-test: seeded fault of %s was not rejected by TLC" % cfg)
            caught[cfg] = res.violation
        else:
            ctx.add_tlc(res, "M:" + cfg)
    ctx.note("selftest_model_faults_rejected", caught)


def generate(ctx, quick):
    tier = "quick" if quick else "thorough"
    wd = tlc.workdir("c07gen")
    jobs = [(32, "X86LenGen_%s32.cfg" % tier), (64, "X86LenGen_%s64.cfg" % tier)]

    def one(job):
        mode, cfg = job
        spool = os.path.join(wd, "tpl%d.spool" % mode)
        res = tlc.run("X86Len", cfg, spool=spool, workers=6, tag="c07gen%d" % mode, timeout=3000)
        return res, spool
    with mp.pool.ThreadPool(2) as tp:
        outs = tp.map(one, jobs)
    templates = []
    for (mode, cfg), (res, spool) in zip(jobs, outs):
        ctx.add_tlc(res, "G:" + cfg)
        n = 0
        for tpl in tlc.iter_spool(spool):
            templates.append(tpl)
            n += 1
        if n == 0:
            raise tlc.MachineryError("generator %s produced no template" % cfg)
        ctx.count("templates_%d" % mode, n)
    tlc.cleanup(wd)
    return templates


def refs_for(strings_by_mode, pool):
    """live references for {mode: [bytes]} -> {mode: [probe dict]}"""
    out = {}
    for mode, S in strings_by_mode.items():
        out[mode] = c07ref.probe_parallel(S, mode, pool, chunk=12000)
    return out


def run(ctx):
    quick = ctx.tier == "quick"
    live = c07ref.available() and os.environ.get("C07_NO_LIVE", "") != "1"
    ctx.rule = ("byte strings of 15 bytes (instruction + random tail) in 32- and 64-bit mode from three sources: "
                "(G) templates emitted by TLC, one per path class of specs/X86Len.tla (prefix sequence x REX class x "
                "opcode attribute class x ModRM class x SIB class x displacement x immediate), class members walked "
                "systematically and free bytes filled from the seeded rng; (T) the vendored reference table "
                "(opcode x prefix x next-byte classes, all windows of random and code-like buffers); (W) boundary "
                "walks over vendored and fresh buffers. A case is a string amoco decodes and for which an expected "
                "length exists (both references agree; without tools: X86Len accepts); distinct = distinct "
                "(mode, matched amoco ispec row, length)")
    ctx.assume("the references decode an instruction from its own bytes only (the random tail after the instruction does not "
               "change their answer); checked live on every fresh string when the tools are present")
    ctx.assume("'both references decode it as the same valid instruction' is read as: both print a valid instruction of the "
               "same length at offset 0 and the same (or no) direct branch target; mnemonic spelling is not compared")
    ctx.assume("an exception escaping amoco's disassembler counts as 'amoco does not decode the string' (C17's subject); "
               "the harness then clears the decoder's pending-prefix state so that strings are judged independently")
    ctx.note("live_reference_tools", c07ref.versions() if live else "not used (absent or C07_NO_LIVE=1): expected values "
             "for generated strings come from X86Len alone")
    if ctx.replay:
        return replay(ctx, live)
    walls = {}
    cpus = {}

    def cpu_now():
        x = os.times()
        return x.user + x.system + x.children_user + x.children_system
    t0 = [time.time(), cpu_now()]

    def lap(name):
        walls[name] = round(time.time() - t0[0], 1)
        cpus[name] = round(cpu_now() - t0[1], 1)
        t0[0], t0[1] = time.time(), cpu_now()
        ctx.note("stage_wall_s", dict(walls))
        ctx.note("stage_cpu_s", dict(cpus))
    # ---------------------------------------------------------------- M
    mpool = mp.pool.ThreadPool(1)
    skip_m = os.environ.get("C07_DEBUG_SKIP_M", "") == "1"      # development aid only
    mfuture = None if skip_m else mpool.apply_async(model_checks, (ctx, quick))
    # ---------------------------------------------------------------- T-ref self-test
    table = c07.load_table()
    sweeps = c07.load_sweeps()
    srng = random.Random(ctx.seed * 1000003 + 17)
    sample = srng.sample(table, min(len(table), 1500))
    recs = [c07.record(k, m, b, 1, l, d, None, -1) for k, (m, b, l, d, src) in enumerate(sample)]
    v, results = c07.judge(recs, "dev", nshards=1, cfg="X86LenTrace_dev.cfg")
    nrej = sum(1 for x in v.values() if x["bind"] != "ok")
    if nrej == 0:
        raise tlc.MachineryError("self-test: the seeded fault did not make the reference table fail validation")
    ctx.note("selftest_reference_binding_rejections_under_seeded_fault", nrej)
    lap("T-ref self-test")
    # ---------------------------------------------------------------- G: templates
    templates = generate(ctx, quick)
    lap("G generate")
    rng = random.Random(ctx.seed)
    ninst = 2 if quick else 3
    gen = []        # (mode, bytes, tl, template index)
    for idx, tpl in enumerate(templates):
        for inst in range(ninst):
            gen.append((tpl["mode"], c07.concretise(tpl, idx, inst, rng, ctx.seed), tpl["len"], idx))
    ctx.sample({"source": "G template (TLC)", "template": templates[len(templates) // 3],
                "instance": gen[(len(templates) // 3) * ninst][1].hex()}, cap=8)
    # fresh buffers for the walks (only meaningful with live references)
    nbuf = (60 if quick else 400) if live else 0
    buflen = 160
    fresh = []
    bymode = {32: [g for g in gen if g[0] == 32], 64: [g for g in gen if g[0] == 64]}
    for k in range(nbuf):
        mode = 32 if k % 2 == 0 else 64
        if k % 4 < 2:
            buf = bytes(rng.randrange(256) for _ in range(buflen))
            kind = "random"
        else:
            buf = bytearray()
            pool_m = bymode[mode]
            while len(buf) < buflen:
                g = pool_m[rng.randrange(len(pool_m))]
                buf += g[1][:g[2]]
            buf = bytes(buf[:buflen])
            kind = "code"
        fresh.append({"m": mode, "buf": buf, "kind": kind})
    with mp.Pool(min(tlc.NCPU, 12)) as pool:
        # ------------------------------------------------------------ live references
        grefs = None
        if live:
            bym = {32: [], 64: []}
            for (m, b, tl, idx) in gen:
                bym[m].append(b)
            for f in fresh:
                f["off"] = len(bym[f["m"]])
                for o in range(len(f["buf"]) - 14):
                    bym[f["m"]].append(f["buf"][o:o + 15])
            R = refs_for(bym, pool)
            pos = {32: 0, 64: 0}
            grefs = []
            for (m, b, tl, idx) in gen:
                grefs.append(R[m][pos[m]])
                pos[m] += 1
            for f in fresh:
                rr = R[f["m"]][f["off"]:f["off"] + len(f["buf"]) - 14]
                f["ref"] = [r["lo"] if c07ref.agreed(r) else 0 for r in rr]
                f["d"] = dict((o, r["do"]) for o, r in enumerate(rr) if c07ref.agreed(r) and r["do"] is not None)
        lap("live references")
        # ------------------------------------------------------------ amoco
        items = [(m, b) for (m, b, tl, idx) in gen]
        gdec = [a for part in pool.map(c07.decode_chunk, c07.chunks(items, 64)) for a in part]
        if quick:       # quick: a seeded 40 % of the vendored table (thorough: all of it)
            table = srng.sample(table, (len(table) * 2) // 5)
        items = [(m, b) for (m, b, l, d, src) in table]
        tdec = [a for part in pool.map(c07.decode_chunk, c07.chunks(items, 64)) for a in part]
        allsw = sweeps + fresh
        sitems = [(s["m"], s["buf"], s["ref"]) for s in allsw]
        sdec = [st for part in pool.map(c07.sweep_chunk, c07.chunks(sitems, 64)) for st in part]
    lap("amoco decode")
    # ---------------------------------------------------------------- records
    bg = Batch("all")
    bt = bw = bg
    nrefrej = 0
    for k, (m, b, tl, idx) in enumerate(gen):
        if live:
            r = grefs[k]
            if c07ref.agreed(r):
                bg.add("G", m, b, 1, r["lo"], r["do"], gdec[k], tl, idx)
            else:
                nrefrej += 1
                bg.add("G", m, b, 1, -1, None, gdec[k], tl, idx)
        else:
            bg.add("G", m, b, 0, -1, None, gdec[k], tl, idx)
    ctx.count("generated_strings", len(gen))
    ctx.count("generated_strings_rejected_by_live_references", nrefrej)
    for k, (m, b, l, d, src) in enumerate(table):
        bt.add("T", m, b, 1, l, d, tdec[k], -1)
    ctx.count("vendored_table_entries", len(table))
    nwalk = 0
    longest = 0
    for s, steps in zip(allsw, sdec):
        nwalk += 1
        longest = max(longest, len(steps))
        for (o, a) in steps:
            bw.add("Wv" if "off" not in s else "Wf", s["m"], s["buf"][o:o + 15], 1, s["ref"][o], s["d"].get(o), a, -1,
                   (s["kind"], o))
    ctx.count("boundary_walks", nwalk)
    ctx.note("longest_walk_instructions", longest)
    ctx.sample({"source": "T vendored table entry", "mode": table[0][0], "bytes": table[0][1].hex(),
                "reference_length": table[0][2], "amoco": tdec[0]}, cap=8)
    if sdec and sdec[0]:
        ctx.sample({"source": "W boundary walk (first steps)", "mode": allsw[0]["m"], "buffer": allsw[0]["buf"][:48].hex(),
                    "steps": [(o, a["al"], a["fmt"]) for (o, a) in sdec[0][:6]]}, cap=8)
    # ---------------------------------------------------------------- TLC judges
    run_judge(ctx, bg, nshards=8 if quick else 16)
    lap("judge (TLC)")
    if mfuture is not None:
        jobs, results = mfuture.get()
        account_model_checks(ctx, jobs, results)
    mpool.close()
    lap("M (in background since start; time still waited here)")
    ctx.exhaustive = False


def replay(ctx, live):
    with open(ctx.replay) as f:
        case = json.load(f)["case"]
    mode, b = case["mode"], bytes.fromhex(case["bytes"])
    a = c07.decode(mode, b)
    rl, rd, lv = case["ref_len"], case["ref_disp"], case["live"]
    if live:
        r = c07ref.probe([b], mode)[0]
        lv = 1
        rl, rd = (r["lo"], r["do"]) if c07ref.agreed(r) else (-1, None)
    bt = Batch("replay")
    bt.add(case.get("source", "G"), mode, b, lv, rl, rd, a, -1)
    ctx.sample({"source": "replay", "mode": mode, "bytes": b.hex(), "amoco": a, "ref_len": rl})
    run_judge(ctx, bt, nshards=1)


if __name__ == "__main__":
    sys.exit(framework.main("C07", run))
