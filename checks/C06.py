"""C06 - instruction semantics match the architecture (x86: the CPU, RISC-V: the manual).

RISC-V part (stage 1):
 M  specs/RV.tla on the reduced instances XLEN = 8 and 16 (four registers, 16 bytes of memory): every
    instruction of specs/RVIsa.tla (bit-level, from the manual) against a second, integer-level definition,
    x0 = 0, register and memory frames, Decode(Encode(f)) = f; seeded faults (Dev) must be rejected.
 G  specs/RV.tla at XLEN = 32 / 64 generates words for every base opcode with boundary register indices,
    operand, immediate, pc and address classes together with the expected post-state; harness/c06rv.py
    decodes the word with cpu_rv32i / cpu_rv64i, applies it to a fully concrete mapper and compares all 32
    registers, pc and the whole memory window.
 T  seeded random words run on long-lived mappers; every step (state before, word, state after) is
    validated by specs/RVTrace.tla, which also attributes a mismatch to named deviations of the reference.
"""
import multiprocessing as mp
import os
import sys

from harness import framework, tlc, c06rv


def rv_model(ctx, quick):
    for cfg in (["RVMC.cfg", "RVMC16.cfg"] if quick else ["RVMC_thorough.cfg", "RVMC16_thorough.cfg"]):
        res = tlc.run("RV", cfg, coverage=not quick, tag="c06rvmc", timeout=6000)
        ctx.add_tlc(res, "M:" + cfg)
    seen = {}
    for cfg, inv in (("RVMC_dev_jalr.cfg", "IntSem"), ("RVMC_dev_store.cfg", "MemFrame"), ("RVMC_dev_cmp.cfg", "IntSem")):
        res = tlc.run("RV", cfg, expect_violation=True, tag="c06rvdev", timeout=3000)
        if not res.violation or inv not in res.violation:
            raise tlc.MachineryError("self-test: seeded fault of %s did not violate %s (invariant vacuous?): %s"
                                     % (cfg, inv, res.violation))
        seen[cfg] = res.violation
    ctx.note("rv_selftest_faults_detected_by_model", seen)


def rv_generate(ctx, xlen, cfg, kind, simulate=None, depth=None):
    wd = tlc.workdir("c06rvg_%s%d" % (kind, xlen))
    spool = os.path.join(wd, "beh.spool")
    extra = () if simulate else ("-seed", str(ctx.seed))
    res = tlc.run("RV", cfg, simulate=simulate, depth=depth, seed=ctx.seed if simulate else None, spool=spool,
                  tag="c06rvg%d" % xlen, timeout=6000, extra=extra)
    ctx.add_tlc(res, "G:" + cfg)
    chunks = tlc.spool_chunks(spool, 4 * tlc.NCPU)
    jobs = [(spool, lo, hi, ctx.seed) for lo, hi in chunks]
    n = 0
    bad = []
    ops = {}
    with mp.Pool(min(tlc.NCPU, max(1, len(jobs)))) as pool:
        for o in pool.imap_unordered(c06rv.replay_chunk, jobs):
            n += o["n"]
            bad.extend(o["bad"])
            for k, v in o["ops"].items():
                ops[k] = ops.get(k, 0) + v
            for c in o["cls"]:
                ctx.case(key=("rvG",) + c, n=0)
            if o["sample"]:
                ctx.sample(o["sample"], cap=3 if xlen == 32 else 5)
            if o["rt_bad"]:
                raise tlc.MachineryError("RV generator: Decode(Encode(f)) # f for %d behaviours" % o["rt_bad"])
    tlc.cleanup(wd)
    if n == 0:
        raise tlc.MachineryError("generator %s produced no behaviour" % cfg)
    ctx.case(n=n)
    ctx.trace(n)
    ctx.count("rv%d_behaviours_replayed" % xlen, n)
    ctx.note("rv%d_behaviours_per_instruction" % xlen, dict(sorted(ops.items())))
    # mismatches: RVTrace decides which clause deviates and whether a named deviation explains it
    traces = []
    for i, b in enumerate(bad):
        traces.append({"t": i + 1, "xlen": xlen, "steps": [b["step"]], "beh": b["beh"]})
    if traces:
        v = c06rv.validate(ctx, traces, xlen, "G" + kind)
        nf = c06rv.report(ctx, traces, v, xlen, "G:" + cfg)
        und = sum(len(v[t["t"]].get("undec", [])) for t in traces)
        if nf + und != len(traces):
            raise tlc.MachineryError("rv%d: %d replayed behaviours differ from TLC's expected post-state but RVTrace "
                                     "rejects only %d" % (xlen, len(traces), nf + und))
    ctx.count("rv%d_behaviours_mismatching" % xlen, len(bad))


def rv_traces(ctx, xlen, ntraces, nsteps):
    jobs = [(i + 1, xlen, ctx.seed * 1000003 + xlen * 7 + i, nsteps) for i in range(ntraces)]
    with mp.Pool(tlc.NCPU) as pool:
        traces = pool.map(c06rv.drive, jobs, chunksize=max(1, ntraces // (4 * tlc.NCPU)))
    traces = [t for t in traces if t["steps"]]
    v = c06rv.validate(ctx, traces, xlen, "T")
    c06rv.report(ctx, traces, v, xlen, "T:random-words")
    nst = sum(len(t["steps"]) for t in traces)
    ok = sum(v[t["t"]]["ok"] for t in traces)
    skip = sum(v[t["t"]]["skip"] for t in traces)
    loads = sum(v[t["t"]]["loads"] for t in traces)
    ctx.trace(len(traces))
    ctx.case(n=nst - skip)
    for t in traces:
        for s in t["steps"]:
            if s["dec"]:
                ctx.case(key=("rvT", xlen, s["mn"]), n=0)
    ctx.count("rv%d_random_steps" % xlen, nst)
    ctx.count("rv%d_random_steps_agreeing" % xlen, ok)
    ctx.count("rv%d_random_steps_not_base_isa" % xlen, skip)
    ctx.count("rv%d_random_loads_from_known_memory" % xlen, loads)
    if traces and traces[0]["steps"]:
        s = traces[0]["steps"][0]
        ctx.sample({"source": "T", "xlen": xlen, "word": "%08x" % c06rv.unlimbs(s["w"]), "amoco_mnemonic": s["mn"],
                    "pc_before": "%x" % c06rv.unlimbs(s["pre"]["pc"]),
                    "pc_after": "%x" % c06rv.unlimbs(s["post"]["pc"]) if s["post"]["pc"] else "symbolic"}, cap=8)


def run_riscv(ctx):
    quick = ctx.tier == "quick"
    rv_model(ctx, quick)
    for xlen in (32, 64):
        rv_generate(ctx, xlen, "RVGen%d.cfg" % xlen, "sim", simulate="num=%d" % (1200 if quick else 40000), depth=8)
        if not quick:
            rv_generate(ctx, xlen, "RVGen%d_grid.cfg" % xlen, "grid")
        rv_traces(ctx, xlen, 160 if quick else 6000, 6 if quick else 8)


def run(ctx):
    ctx.rule = ("RISC-V: one case = one instruction word applied to one fully concrete state (32 registers, pc, memory) "
                "and compared on all registers, pc and all memory bytes with the TLA+ reference interpreter specs/RVIsa.tla; "
                "distinct = distinct (xlen, instruction, rd=rs1, rd=x0, rs1=rs2, operand/immediate classes) for generated "
                "words and (xlen, mnemonic) for random words")
    ctx.assume("RISC-V: the concrete state holds unsigned constants (cst(v, XLEN)) and the architectural register objects "
               "have their import-time flags (sf clear) at the start of every case")
    ctx.assume("RISC-V: traps are not modelled: ECALL/EBREAK are outside the claim, FENCE is a no-op, misaligned targets and "
               "accesses do not raise; accesses that wrap around the end of the address space are not generated")
    ctx.assume("RISC-V: a valid base instruction that amoco does not decode is reported as DRIFT (the statement speaks about "
               "decoded instructions)")
    run_riscv(ctx)
    ctx.exhaustive = False


if __name__ == "__main__":
    sys.exit(framework.main("C06", run))
