"""C06 - instruction semantics match the architecture (x86: the CPU, RISC-V: the manual).

RISC-V part (stage 1):
 M  specs/RV.tla on the reduced instances XLEN = 8 and 16 (four registers, 16 bytes of memory): every
    instruction of specs/RVIsa.tla (bit-level, from the manual) against a second, integer-level definition,
    x0 = 0, register and memory frames, Decode(Encode(f)) = f; seeded faults (Dev) must be rejected.
 G  specs/RV.tla at XLEN = 32 / 64 generates words for every base opcode with boundary register indices,
    operand, immediate, pc and address classes together with the expected post-state; harness/c06rv.py
    decodes the word with cpu_rv32i / cpu_rv64i, applies it to a fully concrete mapper and compares all 32
    registers, pc and the whole memory window.
 T  seeded random words run on long-lived mappers; every step (state before, word, state after) is
    validated by specs/RVTrace.tla, which also attributes a mismatch to named deviations of the reference.
"""
import multiprocessing as mp
import os
import sys

import random

from harness import framework, tlc, c06rv, c06x86

# development switch for a crowded machine: TLC runs with more than two workers need three of the machine-wide slots of
# harness/tlc.py and can starve; C06_WORKERS=2 makes the model-checking / generator runs take one slot each
WORKERS = int(os.environ["C06_WORKERS"]) if os.environ.get("C06_WORKERS") else None


def rv_model(ctx, quick):
    for cfg in (["RVMC.cfg", "RVMC16.cfg"] if quick else ["RVMC_thorough.cfg", "RVMC16_thorough.cfg"]):
        res = tlc.run("RV", cfg, coverage=not quick, tag="c06rvmc", timeout=6000, workers=WORKERS)
        ctx.add_tlc(res, "M:" + cfg)
    seen = {}
    for cfg, inv in (("RVMC_dev_jalr.cfg", "IntSem"), ("RVMC_dev_store.cfg", "MemFrame"), ("RVMC_dev_cmp.cfg", "IntSem")):
        res = tlc.run("RV", cfg, expect_violation=True, tag="c06rvdev", timeout=3000, workers=WORKERS)
        if not res.violation or inv not in res.violation:
            raise tlc.MachineryError("self-test: seeded fault of %s did not violate %s (invariant vacuous?): %s"
                                     % (cfg, inv, res.violation))
        seen[cfg] = res.violation
    ctx.note("rv_selftest_faults_detected_by_model", seen)


def rv_generate(ctx, xlen, cfg, kind, total=None, depth=None):
    """total: number of behaviours to simulate (TLC's -simulate num=N is per worker), None: exhaustive BFS"""
    wd = tlc.workdir("c06rvg_%s%d" % (kind, xlen))
    spool = os.path.join(wd, "beh.spool")
    extra = () if total else ("-seed", str(ctx.seed))
    nw = WORKERS or tlc.NCPU
    simulate = ("num=%d" % max(1, -(-total // nw))) if total else None
    res = tlc.run("RV", cfg, simulate=simulate, depth=depth, seed=ctx.seed if simulate else None, spool=spool,
                  tag="c06rvg%d" % xlen, timeout=6000, extra=extra, workers=nw)
    ctx.add_tlc(res, "G:" + cfg)
    chunks = tlc.spool_chunks(spool, 4 * tlc.NCPU)
    jobs = [(spool, lo, hi, ctx.seed) for lo, hi in chunks]
    n = 0
    bad = []
    ops = {}
    with mp.Pool(min(tlc.NCPU, max(1, len(jobs)))) as pool:
        for o in pool.imap_unordered(c06rv.replay_chunk, jobs):
            n += o["n"]
            bad.extend(o["bad"])
            for k, v in o["ops"].items():
                ops[k] = ops.get(k, 0) + v
            for c in o["cls"]:
                ctx.case(key=("rvG",) + c, n=0)
            if o["sample"]:
                ctx.sample(o["sample"], cap=3 if xlen == 32 else 5)
            if o["rt_bad"]:
                raise tlc.MachineryError("RV generator: Decode(Encode(f)) # f for %d behaviours" % o["rt_bad"])
    tlc.cleanup(wd)
    if n == 0:
        raise tlc.MachineryError("generator %s produced no behaviour" % cfg)
    ctx.case(n=n)
    ctx.trace(n)
    ctx.count("rv%d_behaviours_replayed" % xlen, n)
    ctx.note("rv%d_behaviours_per_instruction" % xlen, dict(sorted(ops.items())))
    # mismatches: RVTrace decides which clause deviates and whether a named deviation explains it
    traces = []
    for i, b in enumerate(bad):
        traces.append({"t": i + 1, "xlen": xlen, "steps": [b["step"]], "beh": b["beh"]})
    if traces:
        v = c06rv.validate(ctx, traces, xlen, "G" + kind)
        nf = c06rv.report(ctx, traces, v, xlen, "G:" + cfg)
        und = sum(len(v[t["t"]].get("undec", [])) for t in traces)
        if nf + und != len(traces):
            raise tlc.MachineryError("rv%d: %d replayed behaviours differ from TLC's expected post-state but RVTrace "
                                     "rejects only %d" % (xlen, len(traces), nf + und))
    ctx.count("rv%d_behaviours_mismatching" % xlen, len(bad))


def rv_traces(ctx, xlen, ntraces, nsteps):
    jobs = [(i + 1, xlen, ctx.seed * 1000003 + xlen * 7 + i, nsteps) for i in range(ntraces)]
    with mp.Pool(tlc.NCPU) as pool:
        traces = pool.map(c06rv.drive, jobs, chunksize=max(1, ntraces // (4 * tlc.NCPU)))
    traces = [t for t in traces if t["steps"]]
    v = c06rv.validate(ctx, traces, xlen, "T")
    c06rv.report(ctx, traces, v, xlen, "T:random-words")
    nst = sum(len(t["steps"]) for t in traces)
    ok = sum(v[t["t"]]["ok"] for t in traces)
    skip = sum(v[t["t"]]["skip"] for t in traces)
    loads = sum(v[t["t"]]["loads"] for t in traces)
    ctx.trace(len(traces))
    ctx.case(n=nst - skip)
    for t in traces:
        for s in t["steps"]:
            if s["dec"]:
                ctx.case(key=("rvT", xlen, s["mn"]), n=0)
    ctx.count("rv%d_random_steps" % xlen, nst)
    ctx.count("rv%d_random_steps_agreeing" % xlen, ok)
    ctx.count("rv%d_random_steps_not_base_isa" % xlen, skip)
    ctx.count("rv%d_random_loads_from_known_memory" % xlen, loads)
    if traces and traces[0]["steps"]:
        s = traces[0]["steps"][0]
        ctx.sample({"source": "T", "xlen": xlen, "word": "%08x" % c06rv.unlimbs(s["w"]), "amoco_mnemonic": s["mn"],
                    "pc_before": "%x" % c06rv.unlimbs(s["pre"]["pc"]),
                    "pc_after": "%x" % c06rv.unlimbs(s["post"]["pc"]) if s["post"]["pc"] else "symbolic"}, cap=8)


def run_riscv(ctx):
    quick = ctx.tier == "quick"
    if not os.environ.get("C06_SKIP_M"):        # development switch (mutation experiments on amoco only)
        rv_model(ctx, quick)
    for xlen in ([int(os.environ["C06_XLEN"])] if os.environ.get("C06_XLEN") else [32, 64]):   # C06_XLEN: development switch
        rv_generate(ctx, xlen, "RVGen%d.cfg" % xlen, "sim", total=1600 if quick else 48000, depth=8)
        if not quick:
            rv_generate(ctx, xlen, "RVGen%d_grid.cfg" % xlen, "grid")
        rv_traces(ctx, xlen, 120 if quick else 6000, 6 if quick else 8)


# ------------------------------------------------------------------------------------------------------------
# x86-64 / IA-32
def x86_model(ctx, quick):
    res = tlc.run("X86MC", "X86MC.cfg" if quick else "X86MC_thorough.cfg", tag="c06x86mc", timeout=6000, workers=WORKERS)
    ctx.add_tlc(res, "M:X86MC")
    res = tlc.run("X86MC", "X86MC_dev.cfg", expect_violation=True, tag="c06x86dev", timeout=3000, workers=WORKERS)
    if not res.violation or "Flags8" not in res.violation:
        raise tlc.MachineryError("self-test: the seeded overflow-formula fault did not violate Flags8: %s" % res.violation)
    ctx.note("x86_selftest_fault_detected_by_model", res.violation)


def x86_forms(ctx):
    """G: TLC enumerates the forms; their bytes come from the vendored llvm-mc table"""
    res = tlc.run("X86Gen", "X86Gen.cfg", tag="c06x86gen", timeout=6000, workers=WORKERS)
    ctx.add_tlc(res, "G:X86Gen.cfg")
    enc = c06x86.load_enc()
    forms = {}
    missing = []
    for rec in res.printed:
        forms[c06x86.form_key(rec)] = rec
        if rec["f"]["mn"] != "jcc" and rec["asm"] not in enc["enc"] and rec["asm"] not in enc["rejected"]:
            missing.append(rec["asm"])
    if missing:
        raise tlc.MachineryError("corpus/x86enc is stale: %d forms of specs/X86Gen.tla have no bytes (e.g. %s); rebuild it "
                                 "with corpus/x86enc/build.py" % (len(missing), missing[:3]))
    ctx.note("x86_forms_enumerated", len(forms))
    ctx.note("x86_forms_rejected_by_llvm_mc", enc["rejected"])
    return forms, enc


def x86_batch(ctx, vectors, cpus, source):
    """amoco on every vector, X86Trace on everything"""
    if not vectors:
        return
    parts = tlc.shard(list(vectors), 4 * tlc.NCPU)
    with mp.Pool(tlc.NCPU) as pool:
        ams = [a for part in pool.map(c06x86.amoco_chunk, [(p, ("x64", "x86")) for p in parts]) for a in part]
    traces = [c06x86.to_trace(i + 1, v, c, a) for i, (v, c, a) in enumerate(zip(vectors, cpus, ams))]
    verdicts = c06x86.validate(ctx, traces, source[:1])
    st = c06x86.report(ctx, vectors, traces, verdicts, source)
    ctx.trace(len(traces))
    ctx.case(n=st["compared"])
    for k, v in st.items():
        if isinstance(v, dict):
            for kk, vv in v.items():
                ctx.count("x86_%s_%s_%s" % (source, k, kk), vv)
        else:
            ctx.count("x86_%s_%s" % (source, k), v)
    for v, tr in zip(vectors, traces):
        if verdicts[tr["t"]]["skip"] == "" and all(not a["bad"] for a in verdicts[tr["t"]]["am"]) and len(tr["ams"]) > 0:
            ctx.sample({"source": "x86 " + source, "form": v["k"], "bytes": v["hex"], "flags_before": v["fl"],
                        "cpu_flags_after": tr["cpu"]["fl"], "rip_delta": tr["cpu"]["rip"], "modes": [a["mode"] for a in tr["ams"]],
                        "undefined_flags": verdicts[tr["t"]].get("und", []), "amoco_agrees_with_cpu": True}, cap=12)
            break


def run_x86(ctx):
    quick = ctx.tier == "quick"
    if not os.environ.get("C06_SKIP_M"):
        x86_model(ctx, quick)
    forms, enc = x86_forms(ctx)
    rng = random.Random(ctx.seed * 9176 + 11)
    # (i) + (ii) on the vendored processor executions
    meta, lines = c06x86.load_corpus()
    ctx.note("x86_corpus", {"cpu": meta.get("cpu"), "vectors": len(lines)})
    heavy = lambda d: d["k"].split(" ")[0] in ("mul", "imul", "div", "idiv")
    if quick:
        light = [d for d in lines if not heavy(d)]
        pick = rng.sample(light, min(1700, len(light))) + rng.sample([d for d in lines if heavy(d)], 120)
    else:
        pick = lines
    vc = [x for x in (c06x86.corpus_vector(d, forms, enc) for d in pick) if x]
    if len(vc) < len(pick):
        raise tlc.MachineryError("corpus/x86cpu is stale: %d of %d sampled vectors use a form specs/X86Gen.tla does not "
                                 "enumerate; rebuild it with corpus/x86cpu/build.py" % (len(pick) - len(vc), len(pick)))
    x86_batch(ctx, [v for v, _ in vc], [c for _, c in vc], "corpus")
    # fresh vectors on the host processor, when there is one
    if c06x86.have_runner():
        recs = sorted(forms.values(), key=c06x86.form_key)
        n = 700 if quick else 20000
        vs = []
        while len(vs) < n:
            rec = rng.choice(recs)
            if rec["f"]["mn"] in ("mul", "imul", "div", "idiv") and rng.random() < 0.6:
                continue
            v = c06x86.concretise(rec, rng, enc)
            if v:
                vs.append(v)
        cpus = c06x86.native_parallel(vs, 4)
        keep = [(v, c) for v, c in zip(vs, cpus) if c is not None and (c["sig"] == 0 or 0 < c["sig"] < 64)]
        ctx.note("x86_host_cpu_used", True)
        x86_batch(ctx, [v for v, _ in keep], [c for _, c in keep], "host")
    else:
        ctx.note("x86_host_cpu_used", False)


def run_replay(ctx):
    """./check C06 --replay PATH: re-execute the recorded case on the current tree and let TLC judge it again"""
    import json
    if REPLAY_CASE is not None:
        case = REPLAY_CASE
    else:
        with open(ctx.replay) as f:
            case = json.load(f)["case"]
    isa = case["isa"]
    if isa.startswith("rv"):
        xlen = int(isa[2:])
        tr = {"t": 1, "xlen": xlen, "steps": [c06rv.replay_step(xlen, case["step"])]}
        v = c06rv.validate(ctx, [tr], xlen, "replay")
        c06rv.report(ctx, [tr], v, xlen, "replay")
    else:
        v = case["vector"]
        ams = [c06x86.amoco_run(v, isa)]
        tr = c06x86.to_trace(1, v, case["cpu"], ams)
        verdicts = c06x86.validate(ctx, [tr], "r")
        c06x86.report(ctx, [v], [tr], verdicts, "replay")
    ctx.case(n=1)
    ctx.trace(1)


def run(ctx):
    if ctx.replay:
        ctx.rule = "replay of one recorded case"
        return run_replay(ctx)
    ctx.rule = ("RISC-V: one case = one instruction word applied to one fully concrete state (32 registers, pc, memory) "
                "and compared on all registers, pc and all memory bytes with the TLA+ reference interpreter specs/RVIsa.tla; "
                "distinct = distinct (xlen, instruction, rd=rs1, rd=x0, rs1=rs2, operand/immediate classes) for generated "
                "words and (xlen, mnemonic) for random words")
    ctx.assume("RISC-V: the concrete state holds unsigned constants (cst(v, XLEN)) and the architectural register objects "
               "have their import-time flags (sf clear) at the start of every case")
    ctx.assume("RISC-V: traps are not modelled: ECALL/EBREAK are outside the claim, FENCE is a no-op, misaligned targets and "
               "accesses do not raise; accesses that wrap around the end of the address space are not generated")
    ctx.assume("RISC-V: a valid base instruction that amoco does not decode is reported as DRIFT (the statement speaks about "
               "decoded instructions)")
    ctx.assume("x86: a value amoco reports as unknown (top / symbolic) satisfies the clause; flags the architecture leaves "
               "undefined, BSF/BSR destinations for a zero source and 16-bit SHLD/SHRD with a count above 16 are not compared")
    ctx.assume("x86: divide errors are compared between specification and processor only (amoco does not model exceptions)")
    part = os.environ.get("C06_PART", "")
    if part in ("", "rv"):
        run_riscv(ctx)
    if part in ("", "x86"):
        run_x86(ctx)
    ctx.exhaustive = False


REPLAY_CASE = None

if __name__ == "__main__":
    # the framework discards the replay files of earlier runs when it starts: read ours first
    if "--replay" in sys.argv:
        import json
        try:
            with open(sys.argv[sys.argv.index("--replay") + 1]) as _f:
                REPLAY_CASE = json.load(_f)["case"]
        except (OSError, ValueError, IndexError, KeyError):
            REPLAY_CASE = None
    sys.exit(framework.main("C06", run))
