"""C18 - sweeps, blocks and control-flow graphs partition the code.

 M  specs/Cfg.tla (+ CfgOps.tla): instruction streams, the block partition of a sweep, and a branch-by-
    branch transcription of graph.add_vertex/__cut_add_vertex (with grandalf's add_edge re-inserting its end
    points) over MemoryZone.addtomap; TLC checks Disjoint / Covers / FallThrough / NoRaise / NoOverlay and the
    lemma BlocksAreMaximalRuns for every stream, every domain block, every insertion order (small scope) of
    the INTENDED design (Dev = {}). The models of the code as it is today (six named deviations, five
    configurations) and three seeded faults must be rejected.
 P  a handful of canonical probe histories is run on the tree under test; TLC (CfgTrace, kind "probe") picks
    the set of named deviations that reproduces them: that is "today's code" for the attribution below.
 G  every behaviour of the generator configs (exhaustive small, -simulate larger, and - drift only - all
    contiguous runs) is replayed on a real cfg.graph whose blocks come from lsweep.getblock over raw buffers
    of real ISAs; the log of every step (support._map, edges) is validated by TLC (specs/CfgTrace.tla).
 T  linear sweeps (sequence / iterblocks / getblock, slices, cuts) of every importable ISA over random,
    encoded and sample-derived buffers from all start addresses, and long random insertion histories, are
    recorded and validated by the same trace specification.
 A failed clause is a KNOWN-FINDING only when the observation is exactly what the model with the detected
 deviations predicts and a deviation that explains the clause was at work; anything else is a VIOLATION.

 Development aids (never used by the registered commands): C18_SKIP_MODEL=1 skips M (it does not touch
 amoco), C18_FAST=1 runs a subset of the traces of the full run (same seeds, fewer ISAs / generators).
"""
import json
import multiprocessing as mp
import multiprocessing.pool
import os
import sys

from harness import framework, tlc, c18

KNOWN = dict((k, "C18:graph:" + k) for k in ("SplitSelfLoop", "HistCopySlice", "EmptyOldEdge", "AnonSplitEdge", "CutPathSwallow",
                                             "FirstBlockSwallow"))


def validate(ctx, traces, tag, kind):
    """shard the traces, run CfgTrace on every shard, return {t: verdict record}"""
    if not traces:
        return {}
    wd = tlc.workdir("c18v_" + tag)
    shards = tlc.shard(traces, tlc.NCPU)
    heap = "2g" if len(traces) < 40000 else "3g"
    jobs = []
    for i, sh in enumerate(shards):
        p = os.path.join(wd, "tr%d.ndjson" % i)
        tlc.write_ndjson(p, [dict((k, v) for k, v in t.items() if k not in ("buf", "meta", "src", "source")) for t in sh])
        jobs.append((p, "c18v%s%d" % (tag, i)))

    def one(a):
        try:
            return tlc.run("CfgTrace", "CfgTrace.cfg", workers=1, env={"TRACE_FILE": a[0]}, tag=a[1], timeout=3000, xmx=heap)
        except tlc.MachineryError as ex:      # one retry: a JVM that could not start on a saturated machine
            ctx.count("validation_shards_retried")
            ctx.note("validation_retry_reason", str(ex)[-400:])
            return tlc.run("CfgTrace", "CfgTrace.cfg", workers=1, env={"TRACE_FILE": a[0]}, tag=a[1] + "r", timeout=3000, xmx=heap)

    with mp.pool.ThreadPool(len(jobs)) as tp:
        results = tp.map(one, jobs)
    verdicts = {}
    for res in results:
        ctx.add_tlc(res, kind)
        for v in res.printed:
            verdicts[v["t"]] = v
    tlc.cleanup(wd)
    for t in traces:
        if t["t"] not in verdicts:
            raise tlc.MachineryError("no verdict for trace %s (%s)" % (t["t"], tag))
    return verdicts


def judge(ctx, traces, verdicts):
    nfail = 0
    for t in traces:
        v = verdicts[t["t"]]
        source = t.get("source", "?")
        ctx.trace()
        for k in v.get("known", []):
            ctx.fail(KNOWN.get(k, "C18:graph:" + k), "known deviation %s re-observed (%s, isa %s)" % (k, source, t["isa"]),
                     {"source": source, "trace": t})
        for d in v.get("drift", []):
            ctx.drift("%s [%s]" % (d, source))
        if v["verdict"] != "ok":
            d = json.loads(v["verdict"])
            nfail += 1
            if t["kind"] == "graph":
                step = t["steps"][d["line"] - 1] if 0 < d["line"] <= len(t["steps"]) else {}
                what = "graph history on %s rejected at step %s (%s): %s" % (
                    t["isa"], d["line"], d["clause"], json.dumps(step)[:500])
                key = "C18:graph:%s" % d["clause"]
            else:
                what = "sweep of %s buffer %s from %s rejected (%s): seq %s" % (
                    t["isa"], bytes(t.get("buf", [])).hex(), t["start"], d["clause"], json.dumps(t.get("seq"))[:300])
                key = "C18:sweep:%s:%s" % (t["isa"], d["clause"])
            ctx.fail(key, what, {"source": source, "trace": t})
    return nfail


def account(ctx, traces):
    byisa = ctx.extra.setdefault("graph_histories_by_isa", {})
    cnt = {}
    sampled = set()
    for t in traces:
        src = t["source"]
        cnt[src] = cnt.get(src, 0) + 1
        if t["kind"] == "graph":
            byisa[t["isa"]] = byisa.get(t["isa"], 0) + 1
            m = t.get("meta", {})
            if src.startswith("G:"):
                ctx.case(key=("G", tuple(m.get("L", [])), tuple(m.get("F", [])), tuple(m.get("br", []))))
            else:
                ctx.case(key=("H", t["isa"], tuple(tuple(s.get("bd", ())) for s in t["steps"])))
            ctx.count("graph_steps", len(t["steps"]))
            if src not in sampled and len(t["steps"]) >= 3:
                sampled.add(src)
                ctx.sample({"source": src, "isa": t["isa"], "stream": t["S"], "steps": [
                    dict((k, s[k]) for k in ("op", "bd", "x", "y", "n", "lay", "ed", "exc") if k in s) for s in t["steps"]]}, cap=8)
        else:
            fl = tuple((x[1], x[2], x[3]) for x in t["seq"])
            ctx.case(key=("S", t["isa"], fl) if len(t["seq"]) > 1 and any(x[2] for x in t["seq"]) else None)
            ctx.count("sweep_instructions", len(t["seq"]))
            ctx.count("sweep_slice_cut_ops", len(t["ops"]))
            if t["isa"] not in sampled and t["isa"] in ("sparc", "x86") and len(t["blocks"]) > 1:
                sampled.add(t["isa"])
                ctx.sample({"source": src, "isa": t["isa"], "start": t["start"], "seq": t["seq"][:8],
                            "blocks": [[b["a"], b["len"], len(b["ia"])] for b in t["blocks"][:6]], "ops": t["ops"][:2]}, cap=8)
    ctx.note("traces_validated_by_source", cnt)


M_QUICK = ["CfgMC_quick.cfg", "CfgMC_quick2.cfg"]
M_THOROUGH = ["CfgMC_thorough.cfg", "CfgMC_thorough2.cfg", "CfgMC_thorough3.cfg"]
# models TLC must reject: today's code (named deviations) and seeded faults -> invariant expected to break
REJECT = [("CfgMC_asis_selfloop.cfg", "FallThrough"), ("CfgMC_asis_hist.cfg", "NoRaise"),
          ("CfgMC_asis_empty.cfg", "NoRaise"), ("CfgMC_asis_anon.cfg", "NoRaise"),
          ("CfgMC_asis_swallow.cfg", "Covers"),
          ("CfgMC_dev_nomove.cfg", "FallThrough"), ("CfgMC_dev_nofall.cfg", "FallThrough"),
          ("CfgMC_dev_cut.cfg", "Covers")]
# generators: (cfg, tag, hosts, which, simulate, stride)
def generators(quick):
    allh = c18.G_DELAY + c18.G_FIXED + c18.G_VAR
    if quick:
        # quick replays every 2nd (4th) behaviour of the exhaustive generators, the offset rotating with the seed
        return [("CfgGen_unit_quick.cfg", "unit", c18.G_DELAY + c18.G_FIXED + c18.G_VAR[:2], "one", None, 2),
                ("CfgGen_var_quick.cfg", "var", c18.G_VAR, "one", None, 2),
                ("CfgGen_links_quick.cfg", "links", allh, "one", None, 2),
                ("CfgGen_wide_quick.cfg", "wide", c18.G_VAR[:3] + c18.G_FIXED[:2], "one", None, 4),
                ("CfgSim.cfg", "sim", c18.G_VAR, "one", "num=15", 1),
                ("CfgSimD.cfg", "simd", c18.G_DELAY, "one", "num=15", 1)]
    return [("CfgGen_unit.cfg", "unit", c18.G_DELAY + c18.G_FIXED + c18.G_VAR[:2], "one", None, 1),
            ("CfgGen_var.cfg", "var", c18.G_VAR, "one", None, 1),
            ("CfgGen_links.cfg", "links", allh, "one", None, 4),
            ("CfgGen_wide.cfg", "wide", c18.G_VAR[:3] + c18.G_FIXED[:2], "one", None, 8),
            ("CfgSim.cfg", "sim", c18.G_VAR, "one", "num=300", 1),
            ("CfgSimD.cfg", "simd", c18.G_DELAY, "one", "num=300", 1)]


def sweep_jobs(ctx, quick):
    isas = sorted(c18.ISAS)
    nbuf = 3 if quick else 12
    size = 20 if quick else 48
    return [(isa, ctx.seed, nbuf, size, 1000000 * (i + 1), True) for i, isa in enumerate(isas)]


H_ISAS = ["x86", "x64", "sparc", "mips", "mipsle", "sh2", "rv32i", "armv7", "ppc32", "z80", "msp430", "w65c02", "gb", "pic18"]


def history_jobs(ctx, quick):
    ntr = 8 if quick else 150
    jobs = [(isa, ctx.seed, ntr, 14, 500000000 + 1000000 * i, False) for i, isa in enumerate(H_ISAS)]
    jobs += [(isa, ctx.seed, ntr, 10, 700000000 + 1000000 * i, True) for i, isa in enumerate(["x86", "x64", "z80"])]
    return jobs


def detected(ctx, res):
    """the named deviations TLC found in the tree under test (probe histories)"""
    if not res.printed:
        raise tlc.MachineryError("probe histories: no answer from CfgTrace")
    p = res.printed[0]
    found = sorted(p["asis"])
    ctx.note("deviations_detected_in_tree", found if p["probe"] == "ok" else "no combination of named deviations reproduces the probe histories")
    # only deviations recorded with status "known" may explain a failed clause: a repaired ("fixed") defect that
    # shows up again is not part of the model of today's code, so whatever it breaks is a VIOLATION
    listed = set(k.get("key") for k in ctx.known)
    allowed = [d for d in found if KNOWN.get(d) in listed]
    ctx.note("deviations_accepted_for_attribution", allowed)
    return allowed


def run_replay(ctx):
    """./check C18 --replay PATH: re-execute the recorded case on the current tree and validate it again"""
    import random
    c18.quiet()
    with open(ctx.replay) as f:
        t = json.load(f)["case"]["trace"]
    if t["kind"] == "graph":
        steps = []
        for s in t["steps"]:
            if s["op"] == "add":
                steps.append(("add", s["bd"][0]) if t["dom"] else ("addrun", s["bd"][0], len(s["bd"]) - 1))
            elif s["op"] == "link":
                steps.append(("link", s["x"], s["y"]))
            else:
                steps.append(("readd", s["n"]))
        new = c18.run_history(1, t["isa"], c18.cpu_of(t["isa"]), bytes(t["buf"]), steps, t["dom"] == 1, meta=t.get("meta"))
    else:
        new = c18.sweep_trace(1, t["isa"], t.get("src", "replay"), bytes(t["buf"]), t["start"], random.Random(t.get("rs", "replay")))
    if new["kind"] == "aborted":
        raise tlc.MachineryError("replayed case aborted in the decoder: %s" % new["sig"])
    new["source"] = "replay"
    if new["kind"] == "graph":
        wd = tlc.workdir("c18p")
        pp = os.path.join(wd, "probe.ndjson")
        tlc.write_ndjson(pp, [c18.probe_trace()])
        new["asis"] = detected(ctx, tlc.run("CfgTrace", "CfgTrace.cfg", workers=1, env={"TRACE_FILE": pp}, tag="c18probe", xmx="1g"))
        tlc.cleanup(wd)
    verdicts = validate(ctx, [new], "replay", "V:CfgTrace")
    judge(ctx, [new], verdicts)
    ctx.case(key=("replay", t["isa"]))
    ctx.sample({"source": "replay of " + ctx.replay, "trace": dict((k, new[k]) for k in new if k != "buf")})
    ctx.rule = "one recorded case re-executed on the current tree and re-validated by specs/CfgTrace.tla"


def run(ctx):
    if ctx.replay:
        return run_replay(ctx)
    quick = ctx.tier == "quick"
    ctx.rule = ("cases are (a) TLC behaviours of specs/Cfg.tla (stream, order of block insertions, links, re-insertions) "
                "replayed on a real cfg.graph, distinct = distinct (byte lengths, flags, add_vertex branch sequence); (b) linear "
                "sweeps of raw buffers, one per (ISA, buffer, start address), non-trivial when the sweep has more than one "
                "instruction and at least one control-flow instruction, distinct = distinct (ISA, sequence of (length, "
                "control-flow, delayed)); (c) random insertion histories, distinct = distinct (ISA, inserted blocks in order)")
    ctx.assume("an instruction's class is read from instruction.type == type_control_flow and misc['delayed']")
    ctx.assume("sweeps that end in a decoder exception are C17's subject: counted, not judged")
    ctx.assume("graph clauses are enforced for blocks lsweep.getblock returns on one stream; other runs are drift only")
    ctx.assume("two delayed branches in a row make 'plus its delay slot' ambiguous: block ends there are drift only")
    ctx.assume("edges between blocks are added with graph.add_edge(link(x, y)) between vertices mapped in the support, as an analysis does")
    mcfgs = M_QUICK if quick else M_THOROUGH
    rejects = REJECT
    if os.environ.get("C18_SKIP_MODEL"):    # development aid (mutation runs): the design checks do not touch amoco
        mcfgs, rejects = [], []
        ctx.note("development_run_without_model_checks", True)
        ctx.write_evidence = lambda level="model_checking": None     # a partial run leaves the evidence file alone
    gens = generators(quick)
    sjobs, hjobs = sweep_jobs(ctx, quick), history_jobs(ctx, quick)
    if os.environ.get("C18_FAST"):          # development aid (mutation runs): a SUBSET of the traces of the full run
        keep = ("x86", "sparc", "mips", "sh2", "rv32i", "z80")
        gens = [g for g in gens if g[1] in ("unit", "var", "links")]
        sjobs = [j for j in sjobs if j[0] in keep]
        hjobs = [j for j in hjobs if j[0] in keep]
        ctx.note("development_run_on_a_subset", True)
    wd = tlc.workdir("c18g")
    # Python drivers first (fork before any thread exists)
    pool = mp.Pool(tlc.NCPU)
    # the instruction class tables (concretisation), once per ISA
    tables = {}
    for isa, tab, err in pool.map(c18.table_job, [(isa, ctx.seed) for isa in sorted(c18.ISAS)], chunksize=1):
        if tab is None:
            raise tlc.MachineryError("class table of %s: %s" % (isa, err))
        tables[isa] = tab
    a_sweeps = pool.map_async(c18.sweep_job, [j + ({j[0]: tables[j[0]]},) for j in sjobs], chunksize=1)
    a_hist = pool.map_async(c18.history_job, [j + ({j[0]: tables[j[0]]},) for j in hjobs], chunksize=1)
    big = max(2, tlc.NCPU // 4)

    probe_path = os.path.join(wd, "probe.ndjson")
    tlc.write_ndjson(probe_path, [c18.probe_trace()])

    def tlc_job(job):
        kind, cfg, arg = job
        if kind == "P":
            return tlc.run("CfgTrace", "CfgTrace.cfg", workers=1, env={"TRACE_FILE": probe_path}, tag="c18probe", timeout=3000, xmx="1g")
        if kind == "M":
            return tlc.run("Cfg", cfg, tag="c18m_" + cfg[:-4], timeout=3400, workers=big, xmx="6g")
        if kind == "R":
            return tlc.run("Cfg", cfg, tag="c18r_" + cfg[:-4], timeout=3400, expect_violation=True, workers=1, xmx="1g")
        tag, sim = arg
        return tlc.run("Cfg", cfg, simulate=sim, depth=30 if sim else None, seed=ctx.seed if sim else None,
                       spool=os.path.join(wd, tag + ".spool"), tag="c18g_" + tag, timeout=3400,
                       workers=2 if quick else big, xmx="4g")

    jobs = [("M", c, None) for c in mcfgs] + [("G", g[0], (g[1], g[4])) for g in gens] + [("R", c, None) for c, _ in rejects]
    jobs.append(("P", "CfgTrace.cfg", None))
    with mp.pool.ThreadPool(len(jobs)) as tp:
        res = tp.map(tlc_job, jobs)
    asis = detected(ctx, res[-1])
    for (kind, cfg, arg), r in zip(jobs, res):
        if kind == "R":
            continue
        ctx.add_tlc(r, kind + ":" + cfg)
    rejected = {}
    for (cfg, exp), r in zip(rejects, res[len(mcfgs) + len(gens):]):
        if not r.violation or exp not in r.violation:
            raise tlc.MachineryError("self-test: %s did not violate %s (got %s)" % (cfg, exp, r.violation))
        rejected[cfg] = r.violation
    ctx.note("faulty_variants_rejected_by_model", rejected)
    # --- G: replay the generated behaviours on real graphs ------------------------------------------------
    rjobs = []
    for gi, (cfg, tag, hosts, which, sim, stride) in enumerate(gens):
        spool = os.path.join(wd, tag + ".spool")
        offset = ctx.seed % stride if stride > 1 else 0
        for ci, (lo, hi) in enumerate(tlc.spool_chunks(spool, 16)):
            rjobs.append((spool, lo, hi, ctx.seed, stride, offset, hosts, which, 100000000 * (gi + 1) + 1000000 * ci, tag,
                          dict((h, tables[h]) for h, _ in hosts)))
    a_replay = pool.map_async(c18.replay_chunk, rjobs, chunksize=1)
    outs_s, outs_h, outs_r = a_sweeps.get(), a_hist.get(), a_replay.get()
    pool.close()
    pool.join()
    tlc.cleanup(wd)
    traces = []
    # generated behaviours
    nb = {}
    for job, o in zip(rjobs, outs_r):
        tag = job[9]
        st = o["stats"]
        nb[tag] = nb.get(tag, 0) + st["behaviours"]
        ctx.count("behaviours_without_host_isa", st["unhosted"])
        ctx.count("replay_workers_stopped_after_timeouts", st.get("truncated", 0))
        ctx.count("concretisation_mismatch", st["mismatch"])
        ctx.count("replays_aborted_by_decoder_exception", st.get("aborted", 0))
        for b, c in st["branches"].items():
            br = ctx.extra.setdefault("add_vertex_branches_replayed", {})
            br[b] = br.get(b, 0) + c
        for t in o["traces"]:
            t["source"] = ("G:" if t["dom"] else "Gdrift:") + tag
            traces.append(t)
    for cfg, tag, hosts, which, sim, stride in gens:
        if nb.get(tag, 0) == 0 and not ctx.extra.get("replay_workers_stopped_after_timeouts"):
            raise tlc.MachineryError("generator %s produced no replayable behaviour" % cfg)
        ctx.count("behaviours_replayed_" + tag, nb.get(tag, 0))
    # sweeps
    aborted = {}
    for o in outs_s:
        if o.get("error"):
            raise tlc.MachineryError("sweep driver failed for %s: %s" % (o["isa"], o["error"]))
        n = 0
        for t in o["traces"]:
            if t["kind"] == "aborted":
                d = aborted.setdefault(o["isa"], {})
                d[t["sig"]] = d.get(t["sig"], 0) + 1
            else:
                t["source"] = "T:sweep"
                traces.append(t)
                n += 1
        ctx.extra.setdefault("sweep_traces_by_isa", {})[o["isa"]] = n
        ctx.extra.setdefault("instruction_classes_by_isa", {})[o["isa"]] = o.get("classes", [])
    ctx.note("sweeps_aborted_by_decoder_exception", aborted)
    # random histories
    for o in outs_h:
        if o.get("error"):
            raise tlc.MachineryError("history driver failed for %s: %s" % (o["isa"], o["error"]))
        for t in o["traces"]:
            if t["kind"] == "graph":
                t["source"] = "T:history" if t["dom"] else "T:history-wide"
                traces.append(t)
    # --- validation: one TLC pass over everything ----------------------------------------------------------
    ctx.rng.shuffle(traces)
    for i, t in enumerate(traces):
        t["t"] = i + 1          # one id space for the verdicts
        if t["kind"] == "graph":
            t["asis"] = asis
    verdicts = validate(ctx, traces, "all", "V:CfgTrace")
    judge(ctx, traces, verdicts)
    account(ctx, traces)
    ctx.exhaustive = False


if __name__ == "__main__":
    sys.exit(framework.main("C18", run))
