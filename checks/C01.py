"""C01 - expression algebra preserves bit-vector meaning (see harness/c01run.py: the pipeline is shared
with C12 and C13; each property reads its own clauses of the TLC verdicts)."""
import sys
from harness import framework, c01run


def run(ctx):
    c01run.run(ctx, "C01")


if __name__ == "__main__":
    sys.exit(framework.main("C01", run))
