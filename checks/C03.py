"""C03 - instruction specifications mean what the format language says.

 M  specs/Ispec.tla (+ IspecLang.tla): a token-by-token generator of format strings; on every finished
    format TLC checks that the rendered string parses back to the tokens (all lexical styles, the ia32
    '/r' '/digit' macro), that ispec.buildspec (transcribed) reports an error exactly on the ill-formed
    formats and otherwise computes the documented size/fix/mask/field ranges, that the mask covers exactly
    the fixed directives, that '<' and '>' of the reversed list coincide, and that the transcription of
    ispec.decode accepts the documented words and slices the documented bits.  A seeded fault in the
    transcription must be rejected (non-vacuity).
 G  TLC-generated formats (exhaustive small ones with ALL 8-bit words; exhaustive up to 3-4 directives with
    boundary + seeded words; simulated up to 64 bits / '*' with every directive kind, option, style, suffix,
    ispec and ispec_ia32 of x86 and x64) are replayed: ispec(fmt)(recording hook), then .decode(bytes,
    endian); format after macro expansion, size, fix, mask, suffix marker, extractor ranges, accept/reject,
    every keyword argument / attribute received, instruction bytes and the roll-back after a rejecting hook
    are compared with what TLC computed from the documented meaning.
 T  every shipped spec of every importable ISA module is dumped (format, size, fix, mask, suffix, extractor
    closures) and seeded words are decoded through a recording hook; specs/IspecTrace.tla validates each
    trace against IspecLang!Doc(Parse(format)).
"""
import json
import multiprocessing as mp
import multiprocessing.pool
import os
import sys
import time

from harness import framework, tlc, c03


# TLC workers of the generator runs (default: all cores); a run with more than 2 workers needs 3 of the
# machine-wide TLC slots at once and can starve on a crowded box: VERIF_GEN_WORKERS=2 avoids that
GEN_WORKERS = int(os.environ.get("VERIF_GEN_WORKERS", "0") or 0) or None
MC_WORKERS = int(os.environ.get("VERIF_MC_WORKERS", "0") or 0) or None     # same for the parallel model-checking runs


def run_models(ctx, cfgs, workers):
    workers = MC_WORKERS or workers
    def one(cfg):
        return cfg, tlc.run("Ispec", cfg, workers=workers, tag="c03" + cfg[:-4], timeout=7200, xmx="4g", env=c03.jvm_env(workers))
    with mp.pool.ThreadPool(len(cfgs)) as tp:
        for cfg, res in tp.map(one, cfgs):
            ctx.add_tlc(res, "M:" + cfg)
            ctx.count("formats_model_checked", res.distinct)


def gen_and_replay(ctx, cfg, kind, simulate=None, depth=None):
    wd = tlc.workdir("c03_" + kind)
    spool = os.path.join(wd, "beh.spool")
    if simulate:
        # TLC's -simulate num=N is per worker: keep the total number of runs independent of the worker count
        simulate = "num=%d" % max(1, int(simulate) // (GEN_WORKERS or tlc.NCPU))
    res = tlc.run("Ispec", cfg, simulate=simulate, depth=depth, seed=ctx.seed if simulate else None, workers=GEN_WORKERS,
                  spool=spool, tag="c03" + kind, timeout=7200, env=c03.jvm_env(8, {"VERIF_SEED": str(ctx.seed)}), xmx="4g")
    ctx.add_tlc(res, "G:" + cfg)
    chunks = tlc.spool_chunks(spool, 64)
    with mp.Pool(min(tlc.NCPU, max(1, len(chunks)))) as pool:
        outs = pool.map(c03.replay_chunk, [(spool, lo, hi) for lo, hi in chunks])
    n = cases = 0
    for o in outs:
        n += o["n"]
        cases += o["cases"]
        for f in o["fails"]:
            ctx.fail("C03:G:%s" % f["clause"], "%s format: %s" % (kind, f["what"][:900]),
                     {"source": "G:" + cfg, "behaviour": f["behaviour"]})
        for d, k in o["drifts"].items():
            for _ in range(k):
                ctx.drift(d)
        for fmt in o["formats"]:
            ctx.case(key=("G", fmt), n=0)
        if o["sample"] is not None:
            ctx.sample(dict(o["sample"], source="G:" + kind), cap=3)
    ctx.case(n=cases)
    ctx.trace(n)
    ctx.count("formats_replayed_" + kind, n)
    ctx.count("decode_cases_replayed", cases)
    tlc.cleanup(wd)
    if n == 0:
        raise tlc.MachineryError("generator %s produced no behaviour" % cfg)


def validate_shard(args):
    path, tag = args
    return tlc.run("IspecTrace", "IspecTrace.cfg", workers=1, env=c03.jvm_env(1, {"TRACE_FILE": path}), tag=tag,
                   timeout=7200, xmx="2g")


def failfast(ctx):
    """mutation experiments only: VERIF_FAILFAST=1 stops after the first stage that found a violation"""
    return bool(os.environ.get("VERIF_FAILFAST")) and bool(ctx.violations)


def validate_traces(ctx, traces, tag="c03T"):
    wd = tlc.workdir(tag)
    paths = []
    for i, sh in enumerate(tlc.shard(traces, max(1, min(tlc.NCPU // 2, len(traces) // 600)))):
        p = os.path.join(wd, "tr%d.ndjson" % i)
        tlc.write_ndjson(p, [{"t": t["t"], "fmt": t["fmt"], "ev": t["ev"]} for t in sh])
        paths.append((p, "%s%d" % (tag, i)))
    with mp.pool.ThreadPool(len(paths)) as tp:
        results = tp.map(validate_shard, paths)
    verdicts = {}
    for res in results:
        ctx.add_tlc(res, "T:IspecTrace")
        for v in res.printed:
            verdicts[v["t"]] = v
    tlc.cleanup(wd)
    return verdicts


def shipped(ctx, nwords):
    jobs = [(m, ctx.seed, nwords, None) for m in c03.ISA_MODULES]
    with mp.Pool(min(tlc.NCPU, len(jobs))) as pool:
        outs = pool.map(c03.trace_isa, jobs, chunksize=1)
    traces = []
    for o in outs:
        if o.get("error"):
            ctx.fail("C03:T:import:%s" % o["isa"], "cpu module amoco.arch.%s no longer imports (%s): its specs cannot be validated"
                     % (o["isa"], o["error"]), {"source": "T", "isa": o["isa"]})
        traces.extend(o["traces"])
        ctx.extra.setdefault("shipped_specs_per_isa", {})[o["isa"]] = len(o["traces"])
    if len(traces) < c03.MIN_SPECS and not ctx.violations:
        raise tlc.MachineryError("only %d shipped specs found (expected >= %d)" % (len(traces), c03.MIN_SPECS))
    verdicts = validate_traces(ctx, traces)
    nev = 0
    for t in traces:
        v = verdicts.get(t["t"])
        if v is None:
            raise tlc.MachineryError("no verdict for shipped spec %s" % t["t"])
        fmt = "".join(map(chr, t["fmt"]))
        nev += len(t["ev"])
        ctx.case(key=("T", fmt), n=len(t["ev"]))
        ctx.trace()
        if not v["wf"]:
            ctx.drift("shipped spec is outside the well-formed fragment of the documented grammar")
        if v["verdict"] != "ok":
            d = json.loads(v["verdict"])
            e = t["ev"][d["line"] - 1]
            ctx.fail("C03:T:%s:%s:%s" % (d["clause"], t["t"].split("/")[0], fmt),
                     "shipped spec %s %r (%s, hook %s): %s does not match the documented meaning; event %s"
                     % (t["t"], fmt, t["cls"], t["hook"], d["clause"], json.dumps(e)[:500]),
                     {"source": "T", "trace": {"t": t["t"], "fmt": t["fmt"], "ev": t["ev"]}})
    ctx.count("shipped_specs_validated", len(traces))
    ctx.count("shipped_spec_events", nev)
    if traces:
        t = traces[len(traces) // 2]
        ctx.sample({"source": "T", "spec": t["t"], "format": "".join(map(chr, t["fmt"])), "events": t["ev"][:2]}, cap=6)


def shipped_macros(ctx):
    """T: every format string written in the x86/x64 spec files, expanded by TLC (Ia32Expand), must be the
    format of a registered ispec_ia32 object"""
    with mp.Pool(2) as pool:
        outs = pool.map(c03.macro_sources, ["x86.cpu_x86", "x64.cpu_x64"])
    traces, have = [], {}
    for o in outs:
        if o.get("error"):
            continue      # already reported by shipped()
        have[o["isa"]] = set(o["formats"])
        for k, orig in enumerate(o["origs"]):
            traces.append({"t": "macro/%s/%d" % (o["isa"], k), "fmt": c03.cps(orig), "ev": [{"k": "expand"}]})
    if not traces:
        raise tlc.MachineryError("no @ispec_ia32 format string found in the x86/x64 spec files")
    verdicts = validate_traces(ctx, traces, tag="c03X")
    nmacro = 0
    for t in traces:
        v = verdicts.get(t["t"])
        if v is None:
            raise tlc.MachineryError("no verdict for %s" % t["t"])
        orig = "".join(map(chr, t["fmt"]))
        isa = t["t"].split("/")[1]
        ctx.case(key=("X", orig) if "/" in orig else None)
        ctx.trace()
        nmacro += 1 if "/" in orig else 0
        exp = "".join(map(chr, v["exp"]))
        if v["verdict"] != "ok" or exp not in have[isa]:
            ctx.fail("C03:T:macro:%s:%s" % (isa, orig),
                     "%s: no registered ispec_ia32 has the format %r that %r expands to (documented '/r' '/digit' macro)"
                     % (isa, exp, orig), {"source": "T", "trace": t})
    ctx.count("ia32_source_formats_checked", len(traces))
    ctx.count("ia32_source_formats_with_macro", nmacro)


def replay(ctx):
    with open(ctx.replay) as f:
        case = json.load(f)["case"]
    c03.quiet()
    if "behaviour" in case and isinstance(case["behaviour"], dict):
        fails, drifts, n = c03.replay_behaviour(case["behaviour"])
        ctx.case(n=n)
        ctx.trace()
        for clause, what in fails:
            ctx.fail("C03:G:%s" % clause, what, case)
    elif "trace" in case:
        # re-observe the spec on the current tree is not possible from the dump alone: re-validate the dump
        verdicts = validate_traces(ctx, [dict(case["trace"], cls="?", hook="?")], tag="c03R")
        for k, v in verdicts.items():
            ctx.trace()
            if v["verdict"] != "ok":
                ctx.fail("C03:T:replay", "trace %s: %s" % (k, v["verdict"]), case)
    else:
        raise tlc.MachineryError("nothing to replay in %s" % ctx.replay)


def run(ctx):
    quick = ctx.tier == "quick"
    ctx.rule = ("G: one case = one (format, instruction bytes, fetch order, prior prefix bytes, hook mode) decoded by the real "
                "ispec and compared with TLC's documented outcome; T: one case = one event (layout dump or decode) of a shipped "
                "spec validated by IspecTrace.tla; distinct non-trivial = distinct format strings (generated + shipped)")
    ctx.assume("the documented meaning of a variable-length directive is 'all bits not claimed by the other directives, at the "
               "most significant end' (last directive of a '>' format, first of a '<' format): the only placement the "
               "implementation and the shipped specs use; other placements are not generated")
    ctx.assume("formats on which buildspec reports an error (size mismatch, directive out of bounds, too wide, redefined symbol) "
               "are outside the grammar's well-formed fragment and are not generated; M checks that the error is reported "
               "exactly on them")
    ctx.assume("extractor ranges are read from the closure defaults (p, q, x) and the value form from the closure's co_names")
    if ctx.replay:
        return replay(ctx)
    t0 = time.time()
    if os.environ.get("VERIF_SKIP_MODEL"):
        # mutation experiments on amoco only: the M stage does not read /repo
        ctx.note("model_checking_skipped", "VERIF_SKIP_MODEL set")
    else:
        # --- M ---------------------------------------------------------------------------------------
        if quick:
            run_models(ctx, ["IspecMC_quick.cfg", "IspecMC_dec_quick.cfg", "IspecMC_lex_quick.cfg"], workers=4)
        else:
            run_models(ctx, ["IspecMC_thorough.cfg", "IspecMC_dec_thorough.cfg", "IspecMC_lex_thorough.cfg"], workers=5)
        res = tlc.run("Ispec", "IspecMC_dev.cfg", expect_violation=True, tag="c03dev", workers=2, xmx="2g", env=c03.jvm_env(2))
        if not res.violation or "DocImpl" not in res.violation:
            raise tlc.MachineryError("self-test: fault EqNoRewindDown did not violate DocImpl (invariant vacuous?)")
        ctx.note("selftest_fault_detected_by_model", res.violation)
    ctx.note("wall_s_M", round(time.time() - t0, 1))
    t0 = time.time()
    # --- G ---------------------------------------------------------------------------------------
    gens = ([("IspecGen_all8_quick.cfg", "all8", None), ("IspecGen_quick.cfg", "exhaustive", None),
             ("IspecSim.cfg", "simulated", 480)] if quick else
            [("IspecGen_all8_thorough.cfg", "all8", None), ("IspecGen_thorough.cfg", "exhaustive", None),
             ("IspecSim.cfg", "simulated", 9600)])
    for cfg, kind, sim in gens:
        gen_and_replay(ctx, cfg, kind, simulate=sim, depth=16 if sim else None)
        if failfast(ctx):
            return
    ctx.exhaustive = False
    ctx.note("wall_s_G", round(time.time() - t0, 1))
    t0 = time.time()
    # --- T ---------------------------------------------------------------------------------------
    shipped(ctx, 3 if quick else 24)
    if failfast(ctx):
        return
    shipped_macros(ctx)
    ctx.note("wall_s_T", round(time.time() - t0, 1))


if __name__ == "__main__":
    sys.exit(framework.main("C03", run))
