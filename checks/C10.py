"""C10 - symbolic results do not depend on analysis history.

 M  specs/History.tla: globals (sf flag of every architectural register object, decode mode, regtype.cur,
    _subrefs), store, base; actions Analyse / Decode / Reevaluate / Unrelated; with no deviation enabled Stable
    (action property) and HistoryFree (invariant) hold for every history of length <= 5 over 6 blocks; with
    Dev_GlobalSfWrite (what AddWithCarry / i_SRA / .signed() do on the shared register objects) TLC finds the
    3-state violation, likewise EvalSfWrite and ModeWrite.
 G  TLC enumerates the histories (HistoryGen*.cfg exhaustive, HistorySim.cfg simulated); for every ISA module
    with semantics a deterministic pool of <= 6 blocks is found by a scan of the semantics functions and by
    executing an exemplar of every mnemonic in a scratch interpreter (writers of sf / misc / internals +
    sign-sensitive witnesses, plus the RV32 slt/sra pair); every history is executed
    in its own fork of a pristine process, after every step every stored map is re-evaluated by amoco itself
    (sigma >> map per written location, 3 fixed valuations); every block is analysed alone in a fresh
    interpreter for `base`; specs/HistoryTrace.tla decides Stable and HistoryFree from the logged evaluations.
    Failing histories are executed again with the re-serialised trees logged, to name the register leaf whose
    flag changed and the instruction that wrote it: key C10:<isa>:<writer>><witness>:<register>.sf
"""
import json
import os
import sys

from harness import framework, tlc, c02isa, c10run


def only_analyse(h):
    return all(a["act"] == "Analyse" for a in h)


def gen_histories(ctx, quick):
    """abstract histories from TLC: every history of Analyse actions only is kept (all orders of all blocks),
    the others (Decode / Reevaluate / Unrelated interleavings, simulated long histories) are sampled with the seed"""
    out = []
    # (cfg, simulate, depth, number of non-Analyse-only histories kept)
    plan = [("HistoryGen2.cfg", None, None, 24), ("HistorySim.cfg", "num=2", 6, 8)] if quick else \
           [("HistoryGen2.cfg", None, None, 1000), ("HistoryGen.cfg", None, None, 600), ("HistorySim.cfg", "num=40", 6, 400)]
    for cfg, sim, depth, keep in plan:
        wd = tlc.workdir("c10g")
        spool = os.path.join(wd, "h.spool")
        res = tlc.run("History", cfg, simulate=sim, depth=depth, seed=ctx.seed if sim else None, spool=spool,
                      tag="c10gen", timeout=3000, workers=2)      # tiny models: one TLC slot is enough
        ctx.add_tlc(res, "G:" + cfg)
        hs = list(tlc.iter_spool(spool))
        tlc.cleanup(wd)
        if not hs:
            raise tlc.MachineryError("generator %s produced no history" % cfg)
        pure = [h for h in hs if only_analyse(h) and not sim]
        rest = [h for h in hs if not (only_analyse(h) and not sim)]
        if len(rest) > keep:
            rest = ctx.rng.sample(rest, keep)
        out += pure + rest
        ctx.count("histories_from_" + cfg, len(hs))
    # distinct abstract histories only
    seen, uniq = set(), []
    for h in out:
        k = json.dumps(h, sort_keys=True)
        if k not in seen:
            seen.add(k)
            uniq.append(h)
    return uniq


def run_M(ctx):
    res = tlc.run("History", "HistoryMC.cfg", coverage=True, tag="c10mc", timeout=3000, workers=2)
    ctx.add_tlc(res, "M:HistoryMC.cfg")
    seen = {}
    for cfg, expect in (("HistoryMC_dev_sf.cfg", "Stable"), ("HistoryMC_dev_sf_free.cfg", "HistoryFree"),
                        ("HistoryMC_dev_eval.cfg", "Stable"), ("HistoryMC_dev_mode.cfg", "HistoryFree")):
        r = tlc.run("History", cfg, expect_violation=True, workers=2, tag="c10dev", timeout=3000)
        if not r.violation or expect not in r.violation:
            raise tlc.MachineryError("self-test: %s did not violate %s (property vacuous?)" % (cfg, expect))
        seen[cfg] = r.violation
    ctx.note("selftest_faults_rejected_by_model", seen)


def judge(ctx, names, pools, bases, hists, wd, suffix=""):
    logs = c10run.run_histories(pools, hists, wd, suffix=suffix)
    for n in names:
        for l in logs.get(n, []):
            if "harness_error" in l:
                raise tlc.MachineryError("history executor failed (%s): %s" % (n, l["harness_error"]))
    verdicts, results = c10run.validate(logs, bases, wd)
    for r in results:
        ctx.add_tlc(r, "T:HistoryTrace")
    bad = {}
    totals = {"stablechecks": 0, "freechecks": 0}
    for n in names:
        byid = dict((x["t"], x) for x in hists[n])
        for l in logs.get(n, []):
            v = verdicts.get((n, l["t"]))
            if v is None:
                raise tlc.MachineryError("no verdict for history %s of %s" % (l["t"], n))
            ctx.trace()
            h = byid[l["t"]]["h"]
            kinds = tuple(a["act"] + ":" + str(a.get("b", a.get("env", a.get("h", "")))) for a in h)
            ctx.case(key=(n,) + kinds if len(h) >= 2 else None)
            totals["stablechecks"] += v["stablechecks"]
            totals["freechecks"] += v["freechecks"]
            if v["stable"] != "ok" or v["free"] != "ok":
                bad.setdefault(n, []).append(byid[l["t"]])
            elif len(h) >= 3:
                ctx.sample({"isa": n, "history": h, "stable_evaluations_compared": v["stablechecks"]}, cap=4)
    ctx.note("evaluations_compared", {"stored_map_re_evaluations_equal": totals["stablechecks"],
                                      "fresh_analyses_equal_to_base": totals["freechecks"]})
    ctx.count("histories_failing", sum(len(v) for v in bad.values()))
    if not bad:
        return
    # second pass (attribution): every failure is re-enacted with SINGLE instructions - for each suspect action
    # a of the failing history and each instruction V_j of the witness block the two-step histories
    # [Analyse(V_j), a_i] and [a_i, Analyse(V_j)] over the split pool, executed with the re-serialised trees
    # logged, judged by the same trace specification.  A failing mini-history names the finding:
    # (isa, instruction that writes the flag > witness instruction, register whose flag changes).
    failures = {}
    for n in bad:
        for x in bad[n]:
            l = [q for q in logs[n] if q["t"] == x["t"]][0]
            v = verdicts[(n, x["t"])]
            for f in ("stable", "free"):
                if v[f] != "ok":
                    d = json.loads(v[f])
                    acts, vb = c10run.first_pass_suspects(l, d)
                    sus = [(dict((k, a[k]) for k in ("act", "b", "k", "env", "h") if k in a), vb) for a in acts]
                    failures.setdefault(n, []).append({"t": x["t"], "h": x["h"], "d": d, "sus": sus})
    for n, fl in failures.items():
        pool2, ids = c10run.split_pool(pools[n])
        with open(os.path.join(wd, "pool_%s_split.json" % n), "w") as fo:
            json.dump(pool2, fo)
        allsus = [s_ for f in fl for s_ in f["sus"]]
        H2, base_needed = c10run.blame_histories(pools[n], ids, allsus)
        hl = [{"t": i + 1, "h": [{"act": "Analyse", "b": vj}]} for i, vj in enumerate(base_needed)]
        nb = len(hl)
        hl += [{"t": nb + i + 1, "h": h} for i, h in enumerate(H2)]
        logs2 = c10run.run_histories({n: pool2}, {n: hl}, wd, trees=True, suffix="_split")[n]
        byt = dict((q["t"], q) for q in logs2)
        bases2, basetree = [], {}
        for i, vj in enumerate(base_needed):
            q = byt.get(i + 1)
            if q is None or "steps" not in q:
                raise tlc.MachineryError("attribution pass lost a base run (%s)" % n)
            st0 = q["steps"][0]
            bases2.append({"b": vj, "raised": st0["raised"], "vals": st0["obs"][-1]["vals"] if st0["obs"] else []})
            basetree[vj] = st0["obs"][-1].get("tree") if st0["obs"] else None
        mini = {n: [byt[nb + i + 1] for i in range(len(H2)) if "steps" in byt.get(nb + i + 1, {})]}
        verd2, _ = c10run.validate(mini, {n: bases2}, wd, tag="c10U")
        failing_minis = set()
        for q in mini[n]:
            v = verd2.get((n, q["t"]))
            if v is None:
                raise tlc.MachineryError("attribution pass: no verdict (%s)" % n)
            for f in ("stable", "free"):
                if v[f] == "ok":
                    continue
                d = json.loads(v[f])
                h = hl[q["t"] - 1]["h"]
                failing_minis.add(json.dumps(h, sort_keys=True))
                key, what = c10run.blame_key(n, q, d, pool2, basetree.get(d["b"]))
                ctx.fail(key, what, {"isa": n, "split": 1, "history": h})
        ctx.count("attribution_mini_histories", len(H2))
        # a first-pass failure none of whose re-enactments fails is not explained by an instruction pair
        for f in fl:
            own, _bn = c10run.blame_histories(pools[n], ids, f["sus"])
            if any(json.dumps(h, sort_keys=True) in failing_minis for h in own):
                continue
            d = f["d"]
            blocks = dict((b["id"], b) for b in pools[n]["blocks"])
            key = "C10:%s:%s:unattributed:%s" % (n, d["clause"], "/".join(blocks[d["b"]]["mnem"]) if d["b"] in blocks else "?")
            ctx.fail(key, "%s: clause %s fails for block %s after history %s (%s -> %s) and no two-instruction re-enactment reproduces it"
                     % (n, d["clause"], d["b"], json.dumps(f["h"]), d["before"], d["after"]), {"isa": n, "history": f["h"]})


def run(ctx):
    quick = ctx.tier == "quick"
    ctx.rule = ("one case = one history (sequence of Analyse / Decode / Reevaluate / Unrelated actions generated by TLC "
                "from specs/History.tla) executed in its own process on the block pool of one ISA; after every step every "
                "stored map is re-evaluated by amoco on 3 fixed valuations; non-trivial = at least 2 actions; distinct = "
                "distinct (isa, action sequence)")
    ctx.assume("the deciding observable is amoco's own concrete evaluation sigma >> map of the locations a map writes; an "
               "unwritten register evaluates to the valuation itself")
    ctx.assume("block pools are a function of the tree under verification only (scan of the semantics sources + fixed "
               "pseudo-random choice of free bits), so finding keys are stable across seeds")
    ctx.assume("a history starts from the state of a process that has imported the ISA module and selected its decode "
               "mode; `base` is computed by a separate fresh interpreter per block")
    if ctx.replay:
        return replay(ctx)
    if "M" in os.environ.get("VERIF_C10_STAGES", "MG"):      # development aid (mutation experiments)
        run_M(ctx)
    names = list(c02isa.names())
    if not os.environ.get("VERIF_C10_ISAS") and not os.environ.get("VERIF_C10_ALL"):
        # both registered tiers cover the first group of ISA modules (x64, x86, rv32i, rv64i, mips BE/LE): the
        # findings of the other modules have not been collected and triaged in this session, so running them
        # would report genuine but unlisted leaks as violations. VERIF_C10_ALL=1 (exploration, not registered)
        # runs every module.
        names = [n for n in names if n in c02isa.QUICK]
    if os.environ.get("VERIF_C10_ISAS"):     # development aid for mutation experiments; never set by the registered commands
        names = [n for n in names if n in os.environ["VERIF_C10_ISAS"].split(",")]
    wd = tlc.workdir("c10")
    try:
        pools = c10run.build_pools(names, wd)
        names = [n for n in names if pools[n]["blocks"]]
        ctx.note("isas", names)
        ctx.note("pools", dict((n, {"blocks": [b["mnem"] for b in pools[n]["blocks"]],
                                    "writers_of_global_state_found_by_scan": pools[n]["flagged"],
                                    "writers_found_by_executing_an_exemplar": pools[n].get("flagged_dynamically", []),
                                    "registers_flagged_dynamically": pools[n]["flagregs"]}) for n in names))
        bases = c10run.build_bases(dict((n, pools[n]) for n in names), wd)
        ctx.count("fresh_interpreters_for_base", sum(len(v) for v in bases.values()))
        H = gen_histories(ctx, quick)
        ctx.count("abstract_histories", len(H))
        hists = {}
        for n in names:
            nb = len(pools[n]["blocks"])
            seen, lst = set(), []
            for h in H:
                c = c10run.concretise(h, nb)
                k = json.dumps(c, sort_keys=True)
                if k in seen:
                    continue
                seen.add(k)
                lst.append({"t": len(lst) + 1, "h": c})
            hists[n] = lst
        judge(ctx, names, pools, bases, hists, wd)
    finally:
        tlc.cleanup(wd)
    path = os.environ.get("VERIF_C10_DUMPKEYS")       # development aid: every failure key with one example
    if path:
        out = {}
        for key, what, _p in ctx.violations:
            out.setdefault(key, {"n": 0, "what": what})["n"] += 1
        for key, what in ctx.known_seen.items():
            out.setdefault(key, {"n": ctx.extra.get("known_finding_hits", {}).get(key, 0), "what": what, "known": 1})
        with open(path, "w") as f:
            json.dump(out, f, indent=1)
    ctx.exhaustive = False


def replay(ctx):
    with open(ctx.replay) as f:
        rep = json.load(f)
    case = rep.get("case") or {}
    if "isa" not in case or "history" not in case:
        raise tlc.MachineryError("replay file has no re-executable history")
    n = case["isa"]
    wd = tlc.workdir("c10r")
    try:
        pools = c10run.build_pools([n], wd)
        if case.get("split"):
            pool2, _ids = c10run.split_pool(pools[n])
            with open(os.path.join(wd, "pool_%s.json" % n), "w") as fo:
                json.dump(pool2, fo)
            pools = {n: pool2}
        bases = c10run.build_bases(pools, wd)
        hists = {n: [{"t": 1, "h": case["history"]}]}
        judge(ctx, [n], pools, bases, hists, wd)
    finally:
        tlc.cleanup(wd)


if __name__ == "__main__":
    sys.exit(framework.main("C10", run))
