"""C09 - stores and loads through symbolic pointers stay correct under aliasing.

 M  specs/Mapper.tla over specs/MapperOps.tla: a byte-granular transcription of mapper.__setitem__ / M /
    aliasing / _Mem_read / _Mem_write / use / rcompose and mem.eval next to a byte-level sequential machine.
    TLC checks, for every program of the small model, EVERY assignment of the pointer registers and every
    possible next load, that the symbolic map read in s0 (mods replayed) and amoco's own instantiation c >> m
    give the byte machine's loaded values and final memory - for the REPAIRED design (no quirk). Each quirk of
    amoco found this way (and reproduced on the real code) is a named deviation: a configuration with that
    quirk alone must be rejected by TLC; two seeded faults must be rejected too (non-vacuity).
 G  behaviours of the model (exhaustive tiny, sampled small, -simulate large) are executed on a real mapper at
    real sizes (8..64 bits), pointer registers instantiated through  concrete >> symbolic; every loaded
    register, every byte of the resulting memory and the pointer items of the resulting map are serialised.
 T  programs drawn by the seeded rng beyond the model's bounds (three pointers, 8 operations, negative offsets).
    All traces are decided by specs/MapperTrace.tla: it runs the byte machine and interprets the logged trees
    (ExprMods!EvalM: a mem with mods is read together with its mods). A failing case is attributed to the
    irreducible set of named quirks whose transcription predicts every value amoco produced (known findings);
    anything else is a violation.
"""
import sys

from harness import framework, tlc, c09run

QUIRKS = ("KeyedStores", "AliasKeySize", "MergeLE", "PtrKeyLE", "BottomLE", "EmptyMapShortcut")


def run(ctx):
    if ctx.replay:
        c09run.replay_file(ctx, ctx.replay)
        ctx.rule = "replay of one recorded case"
        return
    quick = ctx.tier == "quick"
    ctx.rule = ("store/load programs through pointer registers p, q (, s) with offsets and sizes 1..8 bytes, both "
                "endiannesses, noaliasing on/off, memtrace on/off, executed on a real mapper and instantiated with a concrete "
                "state (c >> m); decided by specs/MapperTrace.tla against the byte-level machine. A case is non-trivial "
                "when some byte is accessed through two different pointers or a load reads a byte written by an earlier "
                "store; distinct = distinct (configuration, operation sequence with pointer/offset/size/value kind, "
                "relative pointer values)")
    ctx.assume("MemoryZone itself (C08) is modelled as a byte store whose objects remember the endianness they were stored with")
    ctx.assume("a tree without a value (Unknown: top, unmapped register) satisfies every clause; in this check every register "
               "is bound, so every observation has a value (see observations_without_value)")
    ctx.assume("under noaliasing the claim is restricted to pointer assignments for which the byte ranges accessed through "
               "different pointer registers are disjoint; with noaliasing and memtrace off memory writes are not kept as "
               "map items (documented), so only loaded values are claimed there")
    # --- stage 1: every TLC run that does not depend on amoco, in parallel ---------------------------
    mcs = (["MapperMC_quick.cfg", "MapperMC_quick2.cfg", "MapperMC_quick3.cfg"] if quick else
           ["MapperMC_quick.cfg", "MapperMC_quick2.cfg", "MapperMC_thorough.cfg", "MapperMC_thorough2.cfg",
            "MapperMC_thorough3.cfg", "MapperMC_reload.cfg"])
    rej = ["MapperMC_kf_%s.cfg" % q for q in QUIRKS] + ["MapperMC_asis.cfg", "MapperMC_dev.cfg", "MapperMC_dev2.cfg"]
    if quick:
        gens = [("MapperGen_tiny.cfg", "tiny", None, None, 80), ("MapperGen_small.cfg", "small", "num=40", 4, 100),
                ("MapperSim.cfg", "sim", "num=40", 7, 100), ("MapperGen_reload.cfg", "reload", "num=30", 6, 80)]
        nrandom = 112
    else:
        gens = [("MapperGen_tiny.cfg", "tiny", None, None, None), ("MapperGen_small.cfg", "small", None, None, 2000),
                ("MapperGen_small4.cfg", "small4", None, None, 1000), ("MapperSim.cfg", "sim", "num=400", 7, 2000),
                ("MapperGen_reload.cfg", "reload", "num=300", 6, 1500)]
        nrandom = 2000
    jobs = [(lambda c=c: tlc.run("Mapper", c, tag="c09mc" + c[9:-4], timeout=12000, workers=None if not quick else 2)) for c in mcs]
    jobs += [(lambda c=c: tlc.run("Mapper", c, expect_violation=True, tag="c09rej" + c[9:-4], timeout=3000, workers=2)) for c in rej]
    jobs += [(lambda g=g: c09run.gen_tlc(ctx.seed, g[0], g[1], g[2], g[3], g[4])) for g in gens]
    out = c09run.parallel(jobs)
    for c, res in zip(mcs, out[:len(mcs)]):
        ctx.add_tlc(res, "M:" + c)
    for c, res in zip(rej, out[len(mcs):len(mcs) + len(rej)]):
        if not res.violation or "Correct" not in res.violation:
            raise tlc.MachineryError("model: %s is not rejected by TLC (a finding is not a finding / invariant vacuous?)" % c)
        ctx.add_tlc(res, "M(rejected):" + c)
    ctx.note("quirks_rejected_by_model", list(QUIRKS))
    ctx.note("selftest_faults_detected_by_model", ["FaultModsReversed", "FaultAliasLastOnly"])
    # --- stage 2: execute on real amoco, stage 3: validate --------------------------------------------
    tr = []
    for g, gen in zip(gens, out[len(mcs) + len(rej):]):
        tr += c09run.replay_generated(ctx, g[0], g[1], gen)
    tr += c09run.drive(ctx, nrandom)
    c09run.validate(ctx, tr, "all")
    ctx.exhaustive = False


if __name__ == "__main__":
    sys.exit(framework.main("C09", run))
