"""C04 - the decoder index is equivalent to a most-constrained-first scan.

 M  specs/DecTree.tla (+ DecTreeOps.tla): disassembler.setup and the walk of disassembler.__call__ transcribed
    next to the reference "stable sort by mask weight, descending; first spec that accepts".  On EVERY spec
    table of the configured scope (1-/2-/3-unit specs, both fetch orders, rejecting hooks, maxlen raised after
    construction) TLC checks Lookup(Build(S), w) = Scan(S, w) for all inputs of 0..maxlen+1 units and the
    structural invariants Routing / Partition / LeafOrder; AnySound: every ONE-LEVEL tree whatsoever over a small
    table that satisfies the structural clauses answers like the scan (this is what makes the structural check of
    the real trees meaningful); two seeded faults must be rejected.
 G  simulated (thorough: also exhaustive) model tables are instantiated as real ispec objects in a scratch
    module with a real disassembler; every input is looked up and the winner compared with TLC's scan.
 T  (a) the real tree of every cpu module / mode is dumped and checked structurally by DecTreeTrace.tla
    (Partition, Routing, LeafOrder; drift: exact equality with the transcription's Build);
    (b) for seeded byte strings (from every spec with random free bits, near misses, prefixes prepended,
    truncations, random strings of length 0..maxlen+2; ARM/Thumb x both fetch orders) the driver logs which
    specs pass the fixed-bit test at every prefix level next to which specs disassemble() actually tried, in
    which order, and which one ended the level; TLC decides "tried = the matching specs, most constrained first,
    up to the winner; no winner only after all of them" (the full scan runs exactly the same setup functions
    in the same order, so its outcome is the same).  Drift: winner = most constrained spec accepting with a
    FRESH partial instruction, outcome equal to a fresh re-decode (side effects of rejected hooks are C05/C11).
"""
import json
import multiprocessing as mp
import multiprocessing.pool
import os
import sys
import time

from harness import framework, tlc, c03, c04

KNOWN_ENDIAN = "C04:T:ChosenMostConstrained/EndianAtBuild:arm.cpu_armv7/thumb/be"


# TLC workers of the generator runs (default: all cores); a run with more than 2 workers needs 3 of the
# machine-wide TLC slots at once and can starve on a crowded box: VERIF_GEN_WORKERS=2 avoids that
GEN_WORKERS = int(os.environ.get("VERIF_GEN_WORKERS", "0") or 0) or None
MC_WORKERS = int(os.environ.get("VERIF_MC_WORKERS", "0") or 0) or None     # same for the parallel model-checking runs


def run_models(ctx, cfgs, workers):
    workers = MC_WORKERS or workers
    def one(cfg):
        return cfg, tlc.run("DecTree", cfg, workers=workers, tag="c04" + cfg[:-4], timeout=7200, xmx="4g", env=c03.jvm_env(workers))
    with mp.pool.ThreadPool(len(cfgs)) as tp:
        for cfg, res in tp.map(one, cfgs):
            ctx.add_tlc(res, "M:" + cfg)
            ctx.count("spec_tables_model_checked", res.distinct)


def gen_and_replay(ctx, cfg, kind, simulate=None, depth=None):
    wd = tlc.workdir("c04_" + kind)
    spool = os.path.join(wd, "beh.spool")
    if simulate:
        # TLC's -simulate num=N is per worker: keep the total number of runs independent of the worker count
        simulate = "num=%d" % max(1, int(simulate) // (GEN_WORKERS or tlc.NCPU))
    res = tlc.run("DecTree", cfg, simulate=simulate, depth=depth, seed=ctx.seed if simulate else None, workers=GEN_WORKERS,
                  spool=spool, tag="c04" + kind, timeout=7200, xmx="4g", env=c03.jvm_env(8))
    ctx.add_tlc(res, "G:" + cfg)
    chunks = tlc.spool_chunks(spool, 64)
    with mp.Pool(min(tlc.NCPU, max(1, len(chunks)))) as pool:
        outs = pool.map(c04.replay_chunk, [(spool, lo, hi, ctx.seed) for lo, hi in chunks])
    n = words = split = 0
    for o in outs:
        n += o["n"]
        words += o["words"]
        split += o["split"]
        for f in o["fails"]:
            ctx.fail("C04:G:%s" % f["clause"], "%s table: %s" % (kind, f["what"][:900]),
                     {"source": "G:" + cfg, "behaviour": f["behaviour"]})
        for d, k in o["drifts"].items():
            for _ in range(k):
                ctx.drift(d)
        for k in o["keys"]:
            ctx.case(key=("G", kind, k), n=0)
        if o["sample"] is not None:
            ctx.sample(dict(o["sample"], source="G:" + kind), cap=2)
    ctx.case(n=words)
    ctx.trace(n)
    ctx.count("tables_replayed_" + kind, n)
    ctx.count("tables_replayed_with_a_split_root", split)
    ctx.count("lookups_replayed", words)
    tlc.cleanup(wd)
    if n == 0:
        raise tlc.MachineryError("generator %s produced no behaviour" % cfg)


def validate_shard(args):
    path, tag = args
    return tlc.run("DecTreeTrace", "DecTreeTrace.cfg", workers=1, env=c03.jvm_env(1, {"TRACE_FILE": path}), tag=tag,
                   timeout=7200, xmx="3g")


def failfast(ctx):
    """mutation experiments only: VERIF_FAILFAST=1 stops after the first stage that found a violation"""
    return bool(os.environ.get("VERIF_FAILFAST")) and bool(ctx.violations)


def validate(ctx, traces, tag="c04T"):
    wd = tlc.workdir(tag)
    # big traces first, round-robin over the shards
    order = sorted(traces, key=lambda t: -(len(t["specs"]) * 4 + len(t["ev"])))
    nsh = min(max(1, tlc.NCPU // 2), len(order))
    shards = [[] for _ in range(nsh)]
    for k, t in enumerate(order):
        shards[k % nsh].append(t)
    paths = []
    for i, sh in enumerate(shards):
        p = os.path.join(wd, "tr%d.ndjson" % i)
        tlc.write_ndjson(p, [dict((k, v) for k, v in t.items() if k not in ("formats", "isa", "label")) for t in sh])
        paths.append((p, "%s%d" % (tag, i)))
    with mp.pool.ThreadPool(len(paths)) as tp:
        results = tp.map(validate_shard, paths)
    verdicts = {}
    for res in results:
        ctx.add_tlc(res, "T:DecTreeTrace")
        for v in res.printed:
            verdicts[v["t"]] = v
    tlc.cleanup(wd)
    return verdicts


def real_isas(ctx, per_spec, nrandom, nparts_big):
    jobs = []
    t_rec = time.time()
    for m in c04.ISA_MODULES:
        nparts = nparts_big if m in ("x86.cpu_x86", "x64.cpu_x64", "tricore.cpu", "arm.cpu_armv7") else 1
        for part in range(nparts):
            jobs.append((m, ctx.seed, per_spec, nrandom, part, nparts))
    jobs.sort(key=lambda j: 0 if j[0] in ("x86.cpu_x86", "x64.cpu_x64") else 1)
    with mp.Pool(min(tlc.NCPU, len(jobs))) as pool:
        outs = pool.map(c04.trace_config, jobs, chunksize=1)
    traces = []
    for o in outs:
        if o.get("error"):
            ctx.fail("C04:T:import:%s" % o["isa"], "cpu module amoco.arch.%s no longer imports (%s): its decoder cannot be checked"
                     % (o["isa"], o["error"]), {"source": "T", "isa": o["isa"]})
        traces.extend(o["traces"])
    if not traces:
        raise tlc.MachineryError("no trace recorded")
    ctx.note("wall_s_T_record", round(time.time() - t_rec, 1))
    verdicts = validate(ctx, traces)
    nev = ntree = 0
    for t in traces:
        v = verdicts.get(t["t"])
        if v is None:
            raise tlc.MachineryError("no verdict for %s" % t["t"])
        cfgname = t["t"].split("#")[0]
        nev += len(t["ev"])
        ctx.trace()
        for e in t["ev"]:
            if e["k"] == "tree":
                ntree += 1
                ctx.case(key=("T", "tree", cfgname))
            elif e["k"] == "dis":
                multi = len(e["levels"]) > 1 or any(len(lv["cand"]) > 1 for lv in e["levels"])
                ctx.case(key=("T", cfgname, e["w"]) if multi else None)
        for f in v["verdict"]:
            e = t["ev"][f["line"] - 1]
            key = "C04:T:%s:%s" % (f["clause"], cfgname)
            what = ("%s: %s on %d event(s); first: input %s -> %s" % (cfgname, f["clause"], f["n"], e.get("w", "(tree)"),
                    json.dumps(dict((k, e[k]) for k in e if k in ("levels", "out", "what")))[:600]))
            if e["k"] == "dis":
                for lv in e["levels"]:
                    for sid in lv["cand"][:3] + [lv["chosen"]]:
                        if sid and t.get("formats"):
                            what += " | spec %d = %r" % (sid, t["formats"][sid - 1])
            ctx.fail(key, what, {"source": "T", "trace": dict((k, v2) for k, v2 in t.items() if k != "ev"),
                                 "event": e, "line": f["line"]})
        for f in v["drift"]:
            for _ in range(f["n"]):
                ctx.drift("%s (first in %s)" % (f["clause"], cfgname) if f["clause"] == "ExactShape" else f["clause"])
    ctx.count("configurations_checked", len(set(t["t"].split("#")[0] for t in traces)))
    ctx.count("real_trees_checked_structurally", ntree)
    ctx.count("disassemble_calls_validated", nev - ntree)
    for t in traces:
        for e in t["ev"]:
            if e["k"] == "dis" and len(e["levels"]) > 1 and e["out"] == "ins":
                ctx.sample({"source": "T", "config": t["t"], "input": e["w"],
                            "levels": [{"matching_specs": lv["cand"], "tried": lv["tried"], "chosen": lv["chosen"]} for lv in e["levels"]]}, cap=5)
                break


def replay(ctx):
    with open(ctx.replay) as f:
        case = json.load(f)["case"]
    if "behaviour" in case:
        import random
        fails, drifts, n = c04.replay_table(case["behaviour"], random.Random(ctx.seed), 1)
        ctx.case(n=n)
        ctx.trace()
        for clause, what in fails:
            ctx.fail("C04:G:%s" % clause, what, case)
    elif "trace" in case:
        # re-run the configuration's input on the current tree and validate again
        import importlib
        t = case["trace"]
        e = case.get("event", {})
        M = importlib.import_module("amoco.arch." + t["isa"])
        cfgs, restore = c04.configs(t["isa"], M)
        d = M.disassemble
        for label, mode, en, setter in cfgs:
            if label != t["label"]:
                continue
            L = c04.found_list(d, mode)
            index = dict((id(s), k + 1) for k, s in enumerate(L))
            try:
                setter()
                ev = [{"k": "tree"}]
                if "w" in e:
                    ev.append(dict(c04.observe_word(d, L, index, bytes.fromhex(e["w"]), en), w=e["w"]))
            finally:
                restore()
            tr = dict(t, specs=[c04.spec_row(s) for s in L], nodes=c04.dump_tree(d.specs[mode], index), ev=ev,
                      formats=[s.format for s in L])
            v = validate(ctx, [tr], tag="c04R")[tr["t"]]
            ctx.trace()
            for f in v["verdict"]:
                ctx.fail("C04:T:%s:%s" % (f["clause"], tr["t"].split("#")[0]), "%s: %s" % (tr["t"], f["clause"]), case)
    else:
        raise tlc.MachineryError("nothing to replay in %s" % ctx.replay)


def run(ctx):
    quick = ctx.tier == "quick"
    ctx.rule = ("G: one case = one disassemble(bytes) on a real disassembler built from a TLC-generated spec table, winner compared "
                "with TLC's scan; T: one case = one real tree checked structurally or one disassemble(bytes) call of a shipped cpu "
                "module validated by DecTreeTrace.tla; non-trivial = the table's root is split (G) / the input has a prefix level or "
                "more than one spec whose fixed bits match (T) / a tree (T)")
    ctx.assume("'most-constrained-first' leaves the order of equally constrained specs open: the property clauses compare mask "
               "weights only; 'exactly the stable order' is checked as drift")
    ctx.assume("a setup function that rejects may leave changes in the shared partial instruction (x64: a rejected 0f d6 spec "
               "rewrites misc['opdsz']); the reference scan of the statement shares that instruction too, so the property clause "
               "is about WHICH specs are tried in WHICH order; 'the winner is the one a fresh instruction would give' is drift")
    ctx.assume("the reference list of a mode is the spec module's ISPECS list as found after import (setup sorts it in place, "
               "stably); TLC recomputes the order from the mask weights")
    ctx.assume("fetch endianness is varied only where the cpu module exposes it (armv7, armv8: internals['ibigend']); other modules "
               "are checked with their own endian lambda")
    if ctx.replay:
        return replay(ctx)
    t0 = time.time()
    if os.environ.get("VERIF_SKIP_MODEL"):
        # mutation experiments on amoco only: the M stage does not read /repo
        ctx.note("model_checking_skipped", "VERIF_SKIP_MODEL set")
    else:
        # --- M ---------------------------------------------------------------------------------------
        if quick:
            run_models(ctx, ["DecTreeMC_quick.cfg", "DecTreeMC_quick2.cfg", "DecTreeMC_quick3.cfg", "DecTreeMC_any_quick.cfg"], workers=4)
        else:
            run_models(ctx, ["DecTreeMC_thorough.cfg", "DecTreeMC_thorough2.cfg", "DecTreeMC_thorough2b.cfg", "DecTreeMC_thorough3.cfg",
                             "DecTreeMC_quick3.cfg", "DecTreeMC_any_thorough.cfg"], workers=4)
        for cfg, fault in (("DecTreeMC_dev.cfg", "NoAdjustInSetup"), ("DecTreeMC_dev2.cfg", "DropLastOfBigClass")):
            res = tlc.run("DecTree", cfg, expect_violation=True, tag="c04dev", workers=2, xmx="2g", env=c03.jvm_env(2))
            if not res.violation or "Inv" not in res.violation:
                raise tlc.MachineryError("self-test: fault %s did not violate Inv (invariant vacuous?)" % fault)
            ctx.note("selftest_fault_%s" % fault, res.violation)
    ctx.note("wall_s_M", round(time.time() - t0, 1))
    t0 = time.time()
    # --- G ---------------------------------------------------------------------------------------
    gens = ([("DecTreeSim.cfg", "simulated7", 96, 9), ("DecTreeSim10.cfg", "simulated10", 48, 12)] if quick else
            [("DecTreeGen_thorough.cfg", "exhaustive5", None, None), ("DecTreeSim.cfg", "simulated7", 6400, 9),
             ("DecTreeSim10.cfg", "simulated10", 3200, 12)])
    for cfg, kind, sim, depth in gens:
        gen_and_replay(ctx, cfg, kind, simulate=sim, depth=depth)
        if failfast(ctx):
            return
    ctx.exhaustive = False
    ctx.note("wall_s_G", round(time.time() - t0, 1))
    t0 = time.time()
    # --- T ---------------------------------------------------------------------------------------
    if quick:
        real_isas(ctx, per_spec=1, nrandom=300, nparts_big=2)
    else:
        real_isas(ctx, per_spec=8, nrandom=4000, nparts_big=8)
    ctx.note("wall_s_T", round(time.time() - t0, 1))


if __name__ == "__main__":
    sys.exit(framework.main("C04", run))
