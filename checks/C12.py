"""C12 - every expression has the width its construction dictates (see harness/c01run.py: the pipeline is shared
with C12 and C13; each property reads its own clauses of the TLC verdicts)."""
import sys
from harness import framework, c01run


def run(ctx):
    c01run.run(ctx, "C12")


if __name__ == "__main__":
    sys.exit(framework.main("C12", run))
