"""C19 - merging two maps over-approximates both.

 M  specs/Merge.tla: branch maps built from a common prefix (registers, flag registers, memory through one
    pointer), merge() transcribed loop by loop (flags forced to top, values joined through vec.simplify with
    de-duplication, widening, a threshold that may fire or not); TLC checks Covers / Untouched / KeysOK per byte
    cell for every pair of branches of the small model, for the REPAIRED merge; merge() as it is (quirk
    SkipWiderSecond) must be rejected.
 G  behaviours of the model (exhaustive small, -simulate large, with path-condition choices, widening,
    threshold) are built on real mappers; merge() is called; what m1, m2 and mm hold for every register, every
    memory byte and every item key is serialised.
 T  behaviours drawn by the seeded rng beyond the model: vector-valued pointers, more registers and flags.
    specs/MergeTrace.tla decides: candidates of mi included in the candidates of mm (or mm unknown) in every
    valuation satisfying branch i's conditions; untouched locations keep their value; item keys of mm come from
    m1/m2; each item value of mi is listed among mm's alternatives up to meaning.
"""
import sys

from harness import framework, tlc, c19, c19run


def run(ctx):
    if ctx.replay:
        import json
        d = json.load(open(ctx.replay))
        rec = c19.execute(1, d["case"]["behaviour"], d["case"].get("seed_case") or 0)
        rec["src"] = "replay"
        v = c19run.validate(ctx, [rec], "replay")
        print("verdict:", json.dumps(v[1]))
        ctx.rule = "replay of one recorded case"
        return
    quick = ctx.tier == "quick"
    ctx.rule = ("pairs of branch maps (common prefix + <= 3 operations each on registers, flag registers, memory through "
                "p+off and through vector-valued pointers; path conditions reg == cst attached with assume() or as conds) "
                "built on real mappers and merged with merge(m1, m2[, widening=True]) under complexity thresholds 0 / 1..8; "
                "decided by specs/MergeTrace.tla on 8 valuations per case (boundary + random, forced to satisfy each "
                "branch's conditions). A case is non-trivial when both branches write and they share a written location, "
                "a prefix or a path condition; distinct = distinct operation sequences and settings")
    ctx.assume("the candidates of a tree are computed by ExprMods!AltSet over vec / slc / comp / vector-valued-pointer nodes; "
               "a vec below an arithmetic operator is Unknown (treated as unknown on the merged side)")
    ctx.assume("Covers is relative to what m1 and m2 themselves hold (their correctness is C02/C09), little-endian maps")
    for cfg in (["MergeMC_quick.cfg", "MergeMC_quick2.cfg"] if quick else ["MergeMC_quick2.cfg", "MergeMC_thorough.cfg"]):
        res = tlc.run("Merge", cfg, tag="c19mc", timeout=6000)
        ctx.add_tlc(res, "M:" + cfg)
    for q in ("SkipWiderSecond", "StaleItems", "TopReadAsBottom"):
        res = tlc.run("Merge", "MergeMC_kf_%s.cfg" % q, expect_violation=True, tag="c19kf", timeout=3000, workers=2)
        if not res.violation or "Covers" not in res.violation:
            raise tlc.MachineryError("model: quirk %s alone does not violate Covers" % q)
    ctx.note("quirks_rejected_by_model", ["SkipWiderSecond", "StaleItems", "TopReadAsBottom"])
    ctx.note("selftest_fault_detected_by_model", res.violation)
    if quick:
        tr = c19run.generate(ctx, "MergeGen_tiny.cfg", "tiny", limit=150)
        tr += c19run.generate(ctx, "MergeGen_small.cfg", "small", simulate="num=40", depth=5, limit=150)
        tr += c19run.generate(ctx, "MergeSim.cfg", "sim", simulate="num=40", depth=9, limit=200)
        tr += c19run.drive(ctx, 250)
    else:
        tr = c19run.generate(ctx, "MergeGen_tiny.cfg", "tiny")           # every behaviour of the tiny model
        tr += c19run.generate(ctx, "MergeGen_small.cfg", "small", limit=4000)
        tr += c19run.generate(ctx, "MergeSim.cfg", "sim", simulate="num=400", depth=9, limit=4000)
        tr += c19run.drive(ctx, 4000)
    c19run.validate(ctx, tr, "all")
    ctx.exhaustive = False


if __name__ == "__main__":
    sys.exit(framework.main("C19", run))
