"""C19 - merging two maps over-approximates both.

 M  specs/Merge.tla: branch maps built from a common prefix (registers, flag registers, memory through one
    pointer), merge() transcribed loop by loop (flags forced to top, values joined through vec.simplify with
    de-duplication, widening, a threshold that may fire or not); TLC checks Covers / Untouched / KeysOK per byte
    cell for every pair of branches of the small model, for the REPAIRED merge; each quirk of amoco as it is
    (SkipWiderSecond, StaleItems, TopReadAsBottom) must be rejected on its own.
 G  behaviours of the model (exhaustive tiny, sampled small, -simulate large, with path-condition choices,
    widening, threshold) are built on real mappers; merge() is called; what m1, m2 and mm hold for every
    register, every memory byte and every item key is serialised.
 T  behaviours drawn by the seeded rng beyond the model: vector-valued pointers (also at non-zero displacements),
    more registers and flags, branches that move the pointer register, chains of two merges (the merge of two
    branches merged again with a third one, with widening), and amoco's own evaluation of the merged map on
    concrete states (c >> mm, also on states where alternatives coincide).
    specs/MergeTrace.tla decides: candidates of mi included in the candidates of mm (or mm unknown) in every
    valuation satisfying branch i's conditions; untouched locations keep their value; item keys of mm come from
    m1/m2; each item value of mi is listed among mm's alternatives up to meaning; the candidates amoco's
    evaluation of mm returns on a concrete state contain what mi gives there (EvalCovers).
"""
import sys

from harness import framework, tlc, c19, c19run

QUIRKS = ("SkipWiderSecond", "StaleItems", "TopReadAsBottom")     # the model's named deviations (repaired in /repo since)


def run(ctx):
    if ctx.replay:
        import json
        d = json.load(open(ctx.replay))
        rec = c19.execute(1, d["case"]["behaviour"], d["case"].get("seed_case") or 0)
        rec["src"] = "replay"
        v = c19run.validate(ctx, [rec], "replay")
        print("verdict:", json.dumps(v[1]))
        ctx.rule = "replay of one recorded case"
        return
    quick = ctx.tier == "quick"
    ctx.rule = ("pairs of branch maps (common prefix + <= 3 operations each on registers, flag registers, memory through "
                "p+off and through vector-valued pointers; path conditions reg == cst attached with assume() or as conds) "
                "built on real mappers and merged with merge(m1, m2[, widening=True]) under complexity thresholds 0 / 1..8; "
                "decided by specs/MergeTrace.tla on 8 valuations per case (boundary + random, forced to satisfy each "
                "branch's conditions). A case is non-trivial when both branches write and they share a written location, "
                "a prefix or a path condition; distinct = distinct operation sequences and settings")
    ctx.assume("the candidates of a tree are computed by ExprMods!AltSet over vec / slc / comp / vector-valued-pointer nodes; "
               "a vec below an arithmetic operator is Unknown (treated as unknown on the merged side)")
    ctx.assume("Covers is relative to what m1 and m2 themselves hold when given to merge() (their correctness is C02/C09; "
               "merge() simplifies shared expression objects in place, so they are observed on copies taken before the call); "
               "little-endian maps")
    mcs = ["MergeMC_quick.cfg", "MergeMC_quick2.cfg"] if quick else ["MergeMC_quick2.cfg", "MergeMC_thorough.cfg"]
    rej = ["MergeMC_kf_%s.cfg" % q for q in QUIRKS]
    if quick:
        gens = [("MergeGen_tiny.cfg", "tiny", None, None, 50), ("MergeGen_small.cfg", "small", "num=40", 5, 50),
                ("MergeSim.cfg", "sim", "num=40", 9, 80)]
        nrandom = 208
    else:
        gens = [("MergeGen_tiny.cfg", "tiny", None, None, None), ("MergeGen_small.cfg", "small", None, None, 2500),
                ("MergeSim.cfg", "sim", "num=400", 9, 2500)]
        nrandom = 2500
    jobs = [(lambda c=c: tlc.run("Merge", c, tag="c19mc" + c[8:-4], timeout=12000, workers=None if not quick else 2)) for c in mcs]
    jobs += [(lambda c=c: tlc.run("Merge", c, expect_violation=True, tag="c19rej" + c[8:-4], timeout=3000, workers=2)) for c in rej]
    jobs += [(lambda g=g: c19run.gen_tlc(ctx.seed, g[0], g[1], g[2], g[3], g[4])) for g in gens]
    out = c19run.parallel(jobs)
    for c, res in zip(mcs, out[:len(mcs)]):
        ctx.add_tlc(res, "M:" + c)
    for c, res in zip(rej, out[len(mcs):len(mcs) + len(rej)]):
        if not res.violation or "Covers" not in res.violation:
            raise tlc.MachineryError("model: %s is not rejected by TLC (Covers)" % c)
        ctx.add_tlc(res, "M(rejected):" + c)
    ctx.note("quirks_rejected_by_model", list(QUIRKS))
    tr = []
    for g, gen in zip(gens, out[len(mcs) + len(rej):]):
        tr += c19run.replay_generated(ctx, g[0], g[1], gen)
    tr += c19run.drive(ctx, nrandom)
    c19run.validate(ctx, tr, "all")
    ctx.exhaustive = False


if __name__ == "__main__":
    sys.exit(framework.main("C19", run))
