#!/bin/sh
# tools/run_all.sh [seed] [tier] : every registered check once, exit code and wall time per check
S=${1:-0}; T=${2:-quick}
cd /verif
for c in C01 C02 C03 C04 C05 C06 C07 C08 C09 C10 C11 C12 C13 C14 C15 C16 C17 C18 C19 C20; do
  t0=$(date +%s)
  ./check $c --tier $T --seed $S > .work/runall_$c.log 2>&1; rc=$?
  t1=$(date +%s)
  echo "$c rc=$rc wall=$((t1-t0))s :: $(grep -c KNOWN-FINDING .work/runall_$c.log) known :: $(grep -m1 'VIOLATION\|MACHINERY\|^OK' .work/runall_$c.log | cut -c1-160)"
done
