#!/usr/bin/env python3
"""print the prompt for a seeded-change sub-agent for property <ID> (given only the property text)"""
import json, sys
pid = sys.argv[1]
n = int(sys.argv[2]) if len(sys.argv) > 2 else 3
for l in open('/verif/properties.jsonl'):
    p = json.loads(l)
    if p['id'] == pid:
        break
wt = "/tmp/mut/%s" % pid
print(f"""You are given a git worktree of the open-source Python project bdcht/amoco (a binary-analysis framework: bit-pattern instruction decoders, a symbolic expression algebra, symbolic execution mappers, ELF/PE/Mach-O parsers) at {wt} . Work ONLY inside {wt} (do not read or write /verif, /repo or any other directory; do not use the network — there is none). Python: /venv/bin/python; ALWAYS run it with the environment variable PYTHONPATH={wt} so that `import amoco` resolves to this worktree (check once: `PYTHONPATH={wt} /venv/bin/python -c "import amoco; print(amoco.__file__)"` must print a path under {wt}). The project's test-suite is run with: `cd {wt} && PYTHONPATH={wt} /venv/bin/python -m pytest -q -p no:cacheprovider --timeout=900` (214 tests pass on the unchanged tree; the machine is busy, it may take a minute or two).

This is a robustness study of a semantic property of amoco that the existing unit tests cannot settle. The property:

  id: {p['id']} — {p['title']}
  statement: {p['statement']}
  quantifier: {p['quantifier']['text']}
  why the existing tests cannot settle it: {p['why_tests_cant']}
  code anchors: {json.dumps(p['anchors'].get('files'))}; mechanisms: {json.dumps([m.get('name') for m in p['anchors'].get('mechanism', [])])}

YOUR TASK: produce {n} INDEPENDENT, realistic changes to amoco's source (each one a small patch a developer could plausibly make by mistake or as a misguided refactoring/optimisation) such that, for each change taken alone:
  (a) the code still imports and the whole existing test-suite still passes unchanged (run it!),
  (b) the property above is violated by the changed code,
  (c) the violation needs something SPECIFIC to manifest — a particular multi-step sequence of operations, an unusual input or size, a specific overlap/ordering/alias pattern, a particular configuration, or two cooperating code sites that each look fine alone — NOT something that ordinary use would expose at once, and not a crash on the most common path,
  (d) you provide a demonstration: a small stand-alone script demo.py that exits 0 on the unchanged tree and exits non-zero (assert failure with a clear message) when the change is applied. The demo must use only amoco's public behaviour and check the property directly (no reference to your patch).
Make the {n} changes different in kind (different functions / different mechanisms of failure). Prefer changes in the anchored code. Do not merely delete functionality or raise exceptions; prefer silent wrong results.

Deliver, for change k = 1..{n}, the directory {wt}/out/m<k>/ containing: patch.diff (unified diff produced by `git -C {wt} diff` for that change alone, applicable with `git apply` to the unchanged tree), demo.py, and notes.md (what the change is, why the tests do not notice, what exactly it needs in order to manifest, the commands you ran and their results: test-suite with the patch, demo without and with the patch). Leave the worktree itself unmodified at the end (`git -C {wt} checkout -- .`; the out/ directory is untracked and stays). Verify each patch by applying it to the clean worktree, running the suite and the demo, then reverting. Report a short summary when done.""")
