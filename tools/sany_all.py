#!/usr/bin/env python3
import glob, os, sys
sys.path.insert(0, os.path.dirname(os.path.dirname(os.path.abspath(__file__))))
from harness import tlc
from concurrent.futures import ThreadPoolExecutor
mods = sorted(glob.glob(os.path.join(tlc.SPECS, "*.tla")) + glob.glob(os.path.join(tlc.SPECS, "lib", "*.tla")))
def one(p):
    d, f = os.path.split(p)
    ok, out = tlc.sany(f[:-4], None if d == tlc.SPECS else "lib")
    return p, ok, out
bad = 0
with ThreadPoolExecutor(8) as ex:
    for p, ok, out in ex.map(one, mods):
        print(("ok   " if ok else "FAIL ") + os.path.relpath(p, tlc.VERIF))
        if not ok:
            bad += 1
            print(out[-2000:])
sys.exit(1 if bad else 0)
