#!/bin/sh
# tools/apply_fix.sh <diff file> <commit message file>
# applies a proposed fix to /repo, runs the unedited test-suite with the guard off, commits if it still passes
D="$1"; M="$2"
cd /repo || exit 9
git apply --check "$D" || { echo "DOES NOT APPLY: $D"; exit 8; }
git apply "$D"
R=$(env -u AMOCO_VERIF /venv/bin/python -m pytest -q -p no:cacheprovider --timeout=900 2>&1 | tail -1)
echo "$R"
case "$R" in
  *"214 passed"*) git commit -qa -F "$M" && git log --oneline | head -1 ;;
  *) echo "SUITE CHANGED - reverting"; git checkout -- . ; exit 7 ;;
esac
