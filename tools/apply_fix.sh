#!/bin/sh
# tools/apply_fix.sh <diff file> <commit message file>
# applies a proposed fix to /repo, runs the unedited test-suite with the guard off, commits if it still passes
D="$1"; M="$2"
cd /repo || exit 9
git apply --check "$D" 2>/dev/null || patch -p1 --dry-run -s < "$D" >/dev/null 2>&1 || { echo "DOES NOT APPLY: $D"; exit 8; }
git apply "$D" 2>/dev/null || patch -p1 -s < "$D"
find . -name "*.orig" -delete; find . -name "*.rej" -delete
R=$(env -u AMOCO_VERIF /venv/bin/python -m pytest -q -p no:cacheprovider --timeout=900 2>&1 | tail -1)
echo "$R"
case "$R" in
  *"214 passed"*) git add -A; git commit -q -F "$M" && echo "$(git log --oneline | head -1)  <= $(basename $D)" ;;
  *) echo "SUITE CHANGED - reverting $D"; git checkout -- . ; git clean -fdq; exit 7 ;;
esac
