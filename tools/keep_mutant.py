#!/usr/bin/env python3
"""tools/keep_mutant.py <src dir> <seeded id> <property> <caught_by comma list|none> "<needs>" "<ran>"
copies patch.diff, demo.py (+notes.md) to /verif/seeded/<id>/ and writes meta.json"""
import json, os, shutil, sys
src, sid, prop, caught, needs, ran = sys.argv[1:7]
d = os.path.join('/verif/seeded', sid)
os.makedirs(d, exist_ok=True)
for f in ('patch.diff', 'demo.py', 'notes.md'):
    if os.path.exists(os.path.join(src, f)):
        shutil.copy(os.path.join(src, f), os.path.join(d, f))
json.dump({"id": sid, "breaks_property": prop, "needs_to_manifest": needs,
           "confirmed": "patch applies to /repo HEAD in a scratch worktree; the 214-test suite passes with it; demo.py exits 0 without and non-zero with the patch",
           "what_was_run": ran, "caught_by": [] if caught == 'none' else caught.split(',')},
          open(os.path.join(d, 'meta.json'), 'w'), indent=1)
print("kept", d)
