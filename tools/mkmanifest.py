#!/usr/bin/env python3
"""Compose /verif/MANIFEST.json from manifest.d/*.json fragments (one per property) + manifest.d/_head.json.
A fragment is either a check entry (has quick_cmd) or {"property_id":..,"not_applicable":"reason"}."""
import json, os, sys, glob
here = os.path.dirname(os.path.dirname(os.path.abspath(__file__)))
head = json.load(open(os.path.join(here, "manifest.d", "_head.json")))
props = [json.loads(l)["id"] for l in open(os.path.join(here, "properties.jsonl")) if l.strip()]
checks, na = [], []
for pid in props:
    f = os.path.join(here, "manifest.d", pid + ".json")
    if not os.path.exists(f):
        na.append({"property_id": pid, "reason": "check not built yet in this round (see DESIGN.md section 4 for the planned TLA+ specification)"})
        continue
    d = json.load(open(f))
    if "not_applicable" in d:
        na.append({"property_id": pid, "reason": d["not_applicable"]})
    else:
        checks.append(d)
# known findings: one committed file, composed from per-property fragments
kf = {"comment": "Genuine amoco defects recorded (status known) or repaired (status fixed). Read-only at run time. Composed from known_findings.d/*.json by tools/mkmanifest.py.", "findings": []}
for f in sorted(glob.glob(os.path.join(here, "known_findings.d", "*.json"))):
    kf["findings"].extend(json.load(open(f)).get("findings", []))
json.dump(kf, open(os.path.join(here, "known_findings.json"), "w"), indent=1)
head["hooks"]["source_commits"] = head["hooks"].get("source_commits", [])
served = [c["property_id"] for c in checks]
for e in head.get("engines", []):
    if e.get("name") == "tlc":
        e["serves_properties"] = served
head["checks"] = checks
head["not_applicable"] = na
json.dump(head, open(os.path.join(here, "MANIFEST.json"), "w"), indent=1)
try:
    import jsonschema
    jsonschema.validate(head, json.load(open("/root/.vp/MANIFEST.schema.json")))
    print("MANIFEST.json valid: %d checks, %d not_applicable" % (len(checks), len(na)))
except ImportError:
    print("MANIFEST.json written (jsonschema not available for validation)")
