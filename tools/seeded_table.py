#!/usr/bin/env python3
"""rewrite the table of section 13 of DESIGN.md from seeded/*/meta.json"""
import json, os, re
rows = []
for d in sorted(os.listdir('/verif/seeded')):
    m = json.load(open('/verif/seeded/%s/meta.json' % d))
    caught = ", ".join(m["caught_by"]) if m["caught_by"] else "**not caught**"
    res = m.get("result", "").replace("|", "/")
    rows.append("| %s | %s | %s | %s | %s |" % (d, m["breaks_property"], m["needs_to_manifest"].replace("|", "/"), caught, res))
table = "| seeded change | property | needs | caught by | what happened |\n|---|---|---|---|---|\n" + "\n".join(rows)
s = open('/verif/DESIGN.md').read()
a = s.index("| seeded change | property | needs | caught by |")
b = s.index("\n\n", a)
s = s[:a] + table + s[b:]
open('/verif/DESIGN.md', 'w').write(s)
n = len(rows); c = sum(1 for d in os.listdir('/verif/seeded') if json.load(open('/verif/seeded/%s/meta.json' % d))["caught_by"])
print("seeded changes: %d, caught by at least one registered quick check: %d" % (n, c))
