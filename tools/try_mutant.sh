#!/bin/sh
# tools/try_mutant.sh <dir with patch.diff + demo.py> <scratch name> [CHECK_ID ...]
# 1. fresh worktree of /repo HEAD under /tmp/mutrun/<name>; demo must pass; apply patch; suite must pass; demo must fail
# 2. each listed check (quick tier) is run against the patched tree; prints its exit code
D="$1"; N="$2"; shift 2
W=/tmp/mutrun/$N
rm -rf "$W"; git -C /repo worktree prune; git -C /repo worktree add -f --detach "$W" HEAD >/dev/null 2>&1 || exit 9
cd "$W"
PYTHONPATH=$W /venv/bin/python "$D/demo.py" >/dev/null 2>&1; echo "demo(clean)=$?"
git apply "$D/patch.diff" || { echo "PATCH DOES NOT APPLY"; git -C /repo worktree remove --force "$W"; exit 8; }
PYTHONPATH=$W /venv/bin/python -m pytest -q -p no:cacheprovider --timeout=900 2>&1 | tail -1
PYTHONPATH=$W /venv/bin/python "$D/demo.py" >/dev/null 2>&1; echo "demo(patched)=$?"
for c in "$@"; do
  (cd /verif && VERIF_REPO=$W ./check $c --tier quick > /verif/.work/mut_${N}_$c.log 2>&1; echo "check $c exit=$? :: $(grep -m1 'violation\|VIOLATION\|MACHINERY' /verif/.work/mut_${N}_$c.log | cut -c1-300)")
done
git -C /repo worktree remove --force "$W"
