\* G (exhaustive): every format of at most 3 directives with LEN 8 / 16 / *, boundary words + 2 seeded words
CONSTANTS
  Lens = {16, 0}
  Dirs = {"<", ">"}
  MaxDirs = 3
  FieldLens = {1, 4, 11}
  Opts = {"", "~", "#"}
  EqLens = {2}
  ByteVals = {47}
  Stars = TRUE
  Classes = {"core"}
  Styles = {"tight"}
  Sfx = {"none"}
  Slack = 0
  VarMax = 16
  ModRMs = {8, 2, 5}
  Fill = FALSE
  DupNames = FALSE
  Gen = TRUE
  WordMode = "boundary"
  NRand = 1
  Dev = {}
INIT Init
NEXT Next
CONSTRAINT EmitC
CHECK_DEADLOCK FALSE
