\* behaviour generator (thorough, drift only): streams of 3..4 instructions of 1..2 units, n/c, every order of 3 of ALL contiguous runs (outside the property's domain)
CONSTANTS
  MinN = 3
  MaxN = 4
  Lens = {1, 2}
  Flags = {"n", "c"}
  MaxIns = 3
  MaxLinks = 0
  MaxRe = 0
  Wide = TRUE
  GenHist = TRUE
  Dev = {}
INIT Init
NEXT Next
CONSTRAINT Emit
CHECK_DEADLOCK FALSE
