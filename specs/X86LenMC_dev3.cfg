\* C07 self-test: the seeded fault ImmIgnores66 must violate an invariant
CONSTANTS
  Dev = "ImmIgnores66"
  Modes = {32, 64}
  MaxPfx = 1
  PfxSeqs = {}
  Hist = FALSE
INIT Init
NEXT NextF
INVARIANTS TypeOK LenBound DispRule DispRule3 ImmRule Deterministic
PROPERTY Progress
