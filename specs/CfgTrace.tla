------------------------------ MODULE CfgTrace ------------------------------
(***************************************************************************)
(* C18, code -> spec: validation of traces recorded from real amoco         *)
(* (harness/c18.py) against the definitions of CfgOps.tla.                  *)
(* TRACE_FILE is NDJSON, one trace per line, two kinds.                     *)
(*                                                                          *)
(* kind = "sweep": one linear sweep of a raw byte buffer from `start`:      *)
(*   seq    <<addr, len, cf, dl>> of every instruction lsweep.sequence       *)
(*          yielded (cf: type = type_control_flow, dl: misc["delayed"])     *)
(*   ib     the bytes of each of them                                       *)
(*   blocks what lsweep.iterblocks yielded: [a, len, lo, hi, ia, il, raw]   *)
(*          = block.address, .length, .support, addresses and lengths of    *)
(*          its instructions, block.raw()                                   *)
(*   gb     what lsweep.getblock(start) returned ([ok |-> 0] for None)      *)
(*   ops    slices / cuts performed on fresh copies of those blocks         *)
(* TLC recomputes the block partition from seq (CfgOps!BlocksFrom) and      *)
(* checks: Consecutive, BlocksAreMaximalRuns, BlockIsConcatenation,         *)
(* GetBlockIsFirstBlock, SliceAtBoundary, CutAtBoundary.                    *)
(*                                                                          *)
(* kind = "graph": one history of insertions into a real cfg.graph:         *)
(*   S      the instruction stream the blocks were cut from (as seq above)  *)
(*   dom    1 when every inserted block is meant to be in the property's    *)
(*          domain (TLC checks that it is: GetBlockIsMaximalRun)            *)
(*   steps  [op |-> "add", bd |-> boundaries of the inserted block] |       *)
(*          [op |-> "link", x, y] | [op |-> "readd", n], each with what was *)
(*          observed after the call: lay = graph.support._map as            *)
(*          <<addr, len>>, ed = edges as <<addr, addr, mapped, mapped>>,    *)
(*          exc/sig = the                                                   *)
(*          exception the call ended with                                   *)
(* The statement's clauses are evaluated on the OBSERVED states only:       *)
(*   Disjoint, Covers, FallThrough (see CfgOps), Raised.                    *)
(* The transcription (CfgOps!AddV) is run in lockstep, once as the intended *)
(* design (mi) and once with the deviations today's code has (ma); it is    *)
(* used (a) to attribute a failed clause to NAMED deviations: the           *)
(* observation must be exactly what the model with the deviations predicts, *)
(* and those named are the ones that made a difference in this very step,   *)
(* (b) for drift: the observed layout / edges differ from both models.      *)
(* Verdicts are total: one line per trace,                                  *)
(*   [t, verdict |-> "ok" | JSON [line, clause], known, drift]              *)
(***************************************************************************)
EXTENDS CfgOps, TLC, Json, IOUtils

Traces == ndJsonDeserialize(IOEnv.TRACE_FILE)

VARIABLES tid, l, mi, ma, nodes, nodesA, pLay, pEd, ins, gone, verdict, known, drift, done
vars == <<tid, l, mi, ma, nodes, nodesA, pLay, pEd, ins, gone, verdict, known, drift, done>>

T == Traces[tid]

(* exception signatures of the deviations that raise: type and innermost     *)
(* amoco / grandalf frames, as projected by harness/c18.py                   *)
HistSig  == <<"AttributeError", "node.__init__", "node.__getitem__", "datadiv.setlen", "mo.setlen", "MemoryZone.addtomap">>
EmptySig == <<"AttributeError", "_checkarg_sizes.<locals>.checkarg_sizes", "_checkarg_numeric.<locals>.checkarg_numeric",
              "MemoryZone.locate", "graph.add_vertex", "Graph.add_edge">>
AnonSig  == <<"AttributeError", "Graph.add_edge", "graph.__cut_add_vertex", "graph.add_vertex">>
SigIs(sig, pat) == Len(sig) >= Len(pat) /\ SubSeq(sig, 1, Len(pat)) = pat
(* the named deviations of CfgOps.tla; which of them the tree under test has *)
(* is decided by TLC itself from probe histories (kind = "probe", below) and *)
(* travels with every graph trace as the field asis                          *)
AllDevs == {"SplitSelfLoop", "HistCopySlice", "EmptyOldEdge", "AnonSplitEdge", "FirstBlockSwallow", "CutPathSwallow"}
AsIs == {T.asis[i] : i \in 1..Len(T.asis)}
(* the clauses a deviation can make fail                                     *)
Explains(F) == CASE F = "SplitSelfLoop" -> {"FallThrough"}
                 [] F \in {"HistCopySlice", "EmptyOldEdge", "AnonSplitEdge"} -> {"Raised"}
                 [] F \in {"CutPathSwallow", "FirstBlockSwallow"} -> {"Covers", "Disjoint"}
                 [] OTHER -> {}
(* The two Swallow deviations act with a delay: a node dropped from the      *)
(* support stays a vertex, the partition breaks when it is re-inserted later *)
(* (by add_edge or add_vertex). `gone` remembers which of them has changed   *)
(* the state earlier in the trace.                                           *)
Swallows == {"CutPathSwallow", "FirstBlockSwallow"}

ToSet(s) == {s[i] : i \in 1..Len(s)}
RECURSIVE Flat(_)
Flat(ss) == IF ss = <<>> THEN <<>> ELSE Head(ss) \o Flat(Tail(ss))
RECURSIVE Sum(_)
Sum(s) == IF s = <<>> THEN 0 ELSE Head(s) + Sum(Tail(s))

(* stream record of CfgOps from a logged sequence <<addr, len, cf, dl>>      *)
FlagOf(x) == IF x[4] = 1 THEN "d" ELSE IF x[3] = 1 THEN "c" ELSE "n"
StreamOf(seq) ==
  [a |-> [k \in 1..(Len(seq) + 1) |-> IF k <= Len(seq) THEN seq[k][1] ELSE seq[Len(seq)][1] + seq[Len(seq)][2]],
   f |-> [k \in 1..Len(seq) |-> FlagOf(seq[k])]]
ConsecutiveQ(seq) == \A j \in 1..(Len(seq) - 1) : seq[j + 1][1] = seq[j][1] + seq[j][2]

-----------------------------------------------------------------------------
(* sweep traces: name of the first failing clause, "" if none               *)
BlockOf(br) == [k \in 1..(Len(br.ia) + 1) |->
                  IF k <= Len(br.ia) THEN br.ia[k] ELSE br.ia[Len(br.ia)] + br.il[Len(br.il)]]

(* is the logged block record the run of instructions s..e-1 of the sweep?  *)
IsRun(t, br, s, e) ==
  /\ br.ia = [k \in 1..(e - s) |-> t.seq[s + k - 1][1]]
  /\ br.il = [k \in 1..(e - s) |-> t.seq[s + k - 1][2]]
(* address range and raw bytes are the concatenation of the instructions    *)
IsConcat(t, br, s, e) ==
  /\ br.a = t.seq[s][1]
  /\ br.len = Sum([k \in 1..(e - s) |-> t.seq[s + k - 1][2]])
  /\ br.lo = t.seq[s][1] /\ br.hi = t.seq[e - 1][1] + t.seq[e - 1][2]
  /\ br.raw = Flat([k \in 1..(e - s) |-> t.ib[s + k - 1]])

(* result record of a slice/cut against the expected block (boundaries)     *)
ResIs(t, res, b) ==
  IF b = <<>> THEN res.ok = 0
  ELSE /\ res.ok = 1
       /\ res.ia = SubSeq(b, 1, Len(b) - 1)
       /\ res.lo = b[1] /\ res.hi = b[Len(b)] /\ res.len = b[Len(b)] - b[1]
       /\ LET p == CHOOSE k \in 1..Len(t.seq) : t.seq[k][1] = b[1] IN
          res.raw = Flat([k \in 1..(Len(b) - 1) |-> t.ib[p + k - 1]])

OpClause(t, o) ==
  LET br == t.blocks[o.b]
      b  == BlockOf(br)
  IN IF o.op = "slice" THEN
       LET exp == SliceB(b, o.sta, o.sto) IN
       IF ResIs(t, o.res, exp) THEN ""
       ELSE IF exp = <<>> THEN "drift:SliceOffBoundary" ELSE "SliceAtBoundary"
     ELSE
       LET C == CutB(b, o.at, {}) IN
       IF C.nl = 0 THEN (IF o.nl = 0 /\ ResIs(t, o.res, b) THEN "" ELSE "drift:CutOffBoundary")
       ELSE IF o.nl = C.nl /\ (IF Len(C.b) = 1 THEN o.res.ok = 1 /\ o.res.ia = <<>> /\ o.res.len = 0
                              ELSE ResIs(t, o.res, C.b))
            THEN "" ELSE "CutAtBoundary"

IsDrift(c) == c \in {"drift:SliceOffBoundary", "drift:CutOffBoundary", "drift:BlocksAfterBranchInDelaySlot",
                      "drift:LengthIsNotByteCount"}

BlockRecOK(r) == "ok" \in DOMAIN r /\ (r.ok = 1 => {"a", "len", "lo", "hi", "ia", "il", "raw"} \subseteq DOMAIN r /\ Len(r.il) = Len(r.ia))
WellFormedSweep(t) ==
  /\ {"seq", "ib", "blocks", "gb", "ops", "exc", "start"} \subseteq DOMAIN t
  /\ Len(t.ib) = Len(t.seq) /\ \A k \in 1..Len(t.seq) : Len(t.seq[k]) = 4
  /\ \A i \in 1..Len(t.blocks) : BlockRecOK(t.blocks[i]) /\ t.blocks[i].ok = 1
  /\ BlockRecOK(t.gb)
  /\ \A i \in 1..Len(t.ops) : LET o == t.ops[i] IN
        /\ {"op", "b", "res"} \subseteq DOMAIN o /\ o.b \in 1..Len(t.blocks) /\ BlockRecOK(o.res)
        /\ (o.op = "slice" /\ {"sta", "sto"} \subseteq DOMAIN o) \/ (o.op = "cut" /\ {"at", "nl"} \subseteq DOMAIN o)

SweepClause(t) ==
  LET n == Len(t.seq) IN
  IF ~WellFormedSweep(t) THEN "MalformedEvent"
  ELSE IF t.exc # "" THEN "Raised"
  ELSE IF n = 0 THEN (IF t.blocks = <<>> /\ t.gb.ok = 0 THEN "" ELSE "BlocksAreMaximalRuns")
  ELSE
    LET Sm == StreamOf(t.seq)
        B  == BlocksFrom(Sm.f, 1)
    IN
    IF t.seq[1][1] # t.start \/ ~ConsecutiveQ(t.seq) \/ \E k \in 1..n : t.seq[k][2] < 1
      THEN "Consecutive"
    ELSE IF \E k \in 1..n : Len(t.ib[k]) # t.seq[k][2]
      THEN "drift:LengthIsNotByteCount"
    ELSE IF Len(t.blocks) # Len(B) \/ \E i \in 1..Min(Len(B), Len(t.blocks)) : ~IsRun(t, t.blocks[i], B[i][1], B[i][2])
      THEN (IF Delayed2(Sm.f) THEN "drift:BlocksAfterBranchInDelaySlot" ELSE "BlocksAreMaximalRuns")
    ELSE IF \E i \in 1..Len(B) : ~IsConcat(t, t.blocks[i], B[i][1], B[i][2])
      THEN "BlockIsConcatenation"
    ELSE IF t.gb.ok = 0 \/ ~IsRun(t, t.gb, B[1][1], B[1][2]) \/ ~IsConcat(t, t.gb, B[1][1], B[1][2])
      THEN "GetBlockIsFirstBlock"
    ELSE LET oc  == [i \in 1..Len(t.ops) |-> OpClause(t, t.ops[i])]
             bad == {i \in 1..Len(t.ops) : oc[i] # "" /\ ~IsDrift(oc[i])}
             dr  == {i \in 1..Len(t.ops) : oc[i] # ""}
         IN IF bad # {} THEN oc[CHOOSE i \in bad : TRUE]
            ELSE IF dr # {} THEN oc[CHOOSE i \in dr : TRUE]
    ELSE ""

-----------------------------------------------------------------------------
Init == /\ tid \in 1..Len(Traces)
        /\ l = 1
        /\ mi = EmptyG /\ ma = EmptyG /\ nodes = <<>> /\ nodesA = <<>>
        /\ pLay = <<>> /\ pEd = {} /\ ins = {} /\ gone = {}
        /\ verdict = "ok" /\ known = {} /\ drift = {} /\ done = FALSE

Bad(clause) == IF verdict = "ok" THEN ToJson([line |-> l, clause |-> clause]) ELSE verdict

SweepStep ==
  /\ ~done /\ T.kind = "sweep" /\ l = 1
  /\ LET c == SweepClause(T) IN
     /\ verdict' = IF c = "" \/ IsDrift(c) THEN verdict ELSE Bad(c)
     /\ drift' = IF IsDrift(c) THEN drift \cup {c} ELSE drift
  /\ l' = 2
  /\ UNCHANGED <<tid, mi, ma, nodes, nodesA, pLay, pEd, ins, gone, known, done>>

(* index of the instruction of stream S that starts at address a, 0 if none  *)
IdxOf(Sm, a) == IF \E k \in 1..NI(Sm) : Sm.a[k] = a THEN CHOOSE k \in 1..NI(Sm) : Sm.a[k] = a ELSE 0
InDomain(Sm, b) == LET s == IdxOf(Sm, b[1]) IN s # 0 /\ b = DomBlock(Sm, s)

Halt == l' = Len(T.steps) + 1
LinkM(m, x, y, D) == IF NodeAt(m, x) # 0 /\ NodeAt(m, y) # 0 THEN AddE(m, NodeAt(m, x), NodeAt(m, y), D) ELSE m

(* the model step for one logged event under the deviations D                *)
StepM(m, nd, e, D) ==
  IF e.op = "add" THEN AddV(m, e.bd, D)
  ELSE IF e.op = "readd" THEN ReAddV(m, nd[e.n], D)
  ELSE LinkM(m, e.x, e.y, D)
(* what an observer sees of a model state / what was observed                *)
(* (kind = "probe": a few canonical histories run on the tree under test;    *)
(* TLC picks the smallest set D of named deviations such that the model      *)
(* with exactly D reproduces every observation of every probe history)       *)
ProjM(m)  == [lay |-> Layout(m, m.sup), ed |-> EdgeAddrs(m), err |-> m.err]
ProjO(e)  == [lay |-> e.lay, ed |-> ToSet(e.ed),
              err |-> IF e.exc = "" THEN ""
                      ELSE IF SigIs(e.sig, HistSig) THEN "AttributeError:hist"
                      ELSE IF SigIs(e.sig, EmptySig) THEN "AttributeError:empty"
                      ELSE IF SigIs(e.sig, AnonSig) THEN "AttributeError:anon"
                      ELSE "other:" \o e.exc]
RECURSIVE MatchFrom(_, _, _, _, _)
MatchFrom(m, nd, steps, i, D) ==
  IF i > Len(steps) THEN TRUE
  ELSE LET e  == steps[i]
           m2 == IF e.op = "add" THEN AddV(m, e.bd, D)
                 ELSE IF e.op = "readd" THEN ReAddV(m, nd[e.n], D)
                 ELSE LinkM(m, e.x, e.y, D)
       IN ProjM(m2) = ProjO(e)
          /\ MatchFrom(m2, IF e.op = "add" THEN Append(nd, Len(m.blk) + 1) ELSE nd, steps, i + 1, D)
ProbeCands(t) == {D \in SUBSET AllDevs : \A h \in 1..Len(t.hists) : MatchFrom(EmptyG, <<>>, t.hists[h].steps, 1, D)}
ProbeStep ==
  /\ ~done /\ T.kind = "probe" /\ l = 1
  /\ LET C == ProbeCands(T) IN
     IF C = {} THEN PrintT(ToJson([t |-> T.t, probe |-> "none", asis |-> {}]))
     ELSE PrintT(ToJson([t |-> T.t, probe |-> "ok",
                         asis |-> CHOOSE D \in C : \A D2 \in C : Cardinality(D) <= Cardinality(D2)]))
  /\ l' = 2 /\ done' = TRUE
  /\ UNCHANGED <<tid, mi, ma, nodes, nodesA, pLay, pEd, ins, gone, verdict, known, drift>>

(* deviations of today's code that made a difference in this step            *)
Fired(m, nd, e) == {F \in AsIs : ProjM(StepM(m, nd, e, AsIs \ {F})) # ProjM(StepM(m, nd, e, AsIs))}

(* verdicts are total: an event the spec cannot interpret is a verdict, not a TLC error *)
WellFormedEvent(e) ==
  /\ {"op", "exc", "sig", "lay", "ed"} \subseteq DOMAIN e
  /\ \/ e.op = "add" /\ "bd" \in DOMAIN e /\ Len(e.bd) >= 2 /\ \A k \in 1..(Len(e.bd) - 1) : e.bd[k] < e.bd[k + 1]
     \/ e.op = "readd" /\ "n" \in DOMAIN e /\ e.n \in 1..Len(nodes)
     \/ e.op = "link" /\ {"x", "y"} \subseteq DOMAIN e
  /\ \A i \in 1..Len(e.lay) : Len(e.lay[i]) = 2
  /\ \A i \in 1..Len(e.ed) : Len(e.ed[i]) = 4

MalformedStep ==
  /\ ~done /\ T.kind = "graph" /\ l <= Len(T.steps) /\ ~WellFormedEvent(T.steps[l])
  /\ verdict' = Bad("MalformedEvent") /\ Halt
  /\ UNCHANGED <<tid, mi, ma, nodes, nodesA, pLay, pEd, ins, gone, known, drift, done>>

GraphStep ==
  /\ ~done /\ T.kind = "graph" /\ l <= Len(T.steps) /\ WellFormedEvent(T.steps[l])
  /\ LET e     == T.steps[l]
         Sm    == StreamOf(T.S)
         lay   == e.lay
         ed    == ToSet(e.ed)
         isadd == e.op = "add"
         mi2   == StepM(mi, nodes, e, {})
         ma2   == StepM(ma, nodesA, e, AsIs)
         obs   == ProjO(e)
         a0    == IF isadd THEN e.bd[1] ELSE IF e.op = "readd" THEN BStart(mi.blk[nodes[e.n]]) ELSE 0 - 1
         hi0   == IF isadd THEN e.bd[Len(e.bd)] ELSE IF e.op = "readd" THEN BEnd(mi.blk[nodes[e.n]]) ELSE 0
         ins2  == IF isadd THEN ins \cup Instrs(e.bd) ELSE ins
         si    == IF e.op = "link" THEN 0 ELSE SplitIdx(pLay, a0)
         dom   == T.dom = 1
         \* the statement's clauses, on what was observed
         clause == IF isadd /\ ~InDomain(Sm, e.bd) THEN "GetBlockIsMaximalRun"
                   ELSE IF e.exc # "" THEN "Raised"
                   ELSE IF ~DisjointL(lay) THEN "Disjoint"
                   ELSE IF ~CoversL(lay, ins2) THEN "Covers"
                   ELSE IF si # 0 /\ ~FallThroughO(pEd, ed, pLay[si][1], a0, hi0) THEN "FallThrough"
                   ELSE ""
         asis   == obs = ProjM(ma2)
         \* only the Swallow deviations make the mapped layout differ from the intended design's
         sw     == IF Layout(ma2, ma2.sup) # Layout(mi2, mi2.sup) THEN AsIs \cap Swallows ELSE {}
         fired  == {F \in Fired(ma, nodesA, e) \cup gone : clause \in Explains(F)}
     IN
     /\ mi' = mi2 /\ ma' = ma2
     /\ nodes' = IF isadd THEN Append(nodes, Len(mi.blk) + 1) ELSE nodes
     /\ nodesA' = IF isadd THEN Append(nodesA, Len(ma.blk) + 1) ELSE nodesA
     /\ ins' = ins2 /\ pLay' = lay /\ pEd' = ed
     /\ gone' = gone \cup sw
     /\ IF ~dom \/ clause = "" THEN
          /\ UNCHANGED <<verdict, known>>
          /\ IF e.exc # "" THEN Halt ELSE l' = l + 1
          /\ drift' = IF obs = ProjM(mi2) \/ asis THEN drift
                      ELSE IF e.exc # "" THEN drift \cup {"drift:RaisedOutsideDomain"}
                      ELSE IF lay # Layout(mi2, mi2.sup) THEN drift \cup {"drift:LayoutDiffersFromModel:" \o mi2.br}
                      ELSE drift \cup {"drift:EdgesDifferFromModel:" \o mi2.br}
        ELSE IF clause # "GetBlockIsMaximalRun" /\ asis /\ fired # {} THEN
          /\ known' = known \cup fired /\ UNCHANGED <<verdict, drift>>
          /\ IF e.exc # "" THEN Halt ELSE l' = l + 1
        ELSE
          /\ verdict' = Bad(clause) /\ Halt /\ UNCHANGED <<known, drift>>
  /\ UNCHANGED <<tid, done>>

Finish ==
  /\ ~done
  /\ \/ T.kind = "sweep" /\ l = 2
     \/ T.kind = "graph" /\ l > Len(T.steps)
  /\ done' = TRUE
  /\ PrintT(ToJson([t |-> T.t, verdict |-> verdict, known |-> known, drift |-> drift]))
  /\ UNCHANGED <<tid, l, mi, ma, nodes, nodesA, pLay, pEd, ins, gone, verdict, known, drift>>

Next == SweepStep \/ GraphStep \/ MalformedStep \/ ProbeStep \/ Finish
Spec == Init /\ [][Next]_vars
=============================================================================
