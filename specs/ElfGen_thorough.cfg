\* C14 M+G (ELF): every image of the larger scope (thorough tier) (BFS), all 4 class x order combinations: the design check
\* Report(Encode(A)) = Expected(A) is evaluated by TLC for every image (field rt) and every image is emitted for the replayer
CONSTANTS
  Dev = ""
  Classes = {32, 64}
  Orders = {"LE", "BE"}
  Seeds = {11}
  MaxPh = 2
  MaxUser = 1
  MaxSym = 1
  Machines = {3}
  Types = {2}
  PTypes = {1}
  Layouts = {1, 4, 6}
  Pads = {0}
  Kinds = {"bits", "nobits", "plain"}
  SymChoices = {TRUE, FALSE}
INIT Init
NEXT Next
CONSTRAINT Emit
CHECK_DEADLOCK FALSE
