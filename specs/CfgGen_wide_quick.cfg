\* behaviour generator (quick, drift only): streams of 3 unit instructions, n/c, every order of 3 of ALL contiguous runs (outside the property's domain)
CONSTANTS
  MinN = 3
  MaxN = 3
  Lens = {1}
  Flags = {"n", "c"}
  MaxIns = 3
  MaxLinks = 0
  MaxRe = 0
  Wide = TRUE
  GenHist = TRUE
  Dev = {}
INIT Init
NEXT Next
CONSTRAINT Emit
CHECK_DEADLOCK FALSE
