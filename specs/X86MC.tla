------------------------------- MODULE X86MC -------------------------------
(***************************************************************************)
(* C06, x86 part, M: the definitions of X86.tla checked against ordinary    *)
(* integer arithmetic and against specs/lib/BitVec.tla on small instances.  *)
(*   Flags8     AddF / SubF / LogicF at 8 bits against integer definitions  *)
(*              of CF (unsigned overflow), OF (signed overflow), AF (carry   *)
(*              out of bit 3), ZF, SF, PF (even number of ones)             *)
(*   Limbs      the integer-limb address arithmetic (L4Add L4Sub L4Scale    *)
(*              L4Int, EAofL) equals BitVec's Add / Sub / Shl               *)
(*   FastMul    FMul2U / FMul2S equal BitVec!Mul2U / Mul2S                  *)
(*   SubReg     the sub-register write rule (32-bit writes zero the upper   *)
(*              half, 8/16-bit and AH..BH writes preserve everything else)  *)
(*   CondTable  Cond against the SDM's flag formulas spelled out            *)
(*   DivRel     the division relation accepts exactly the quotient and      *)
(*              remainder that BitVec's long division computes (16-bit)     *)
(* Fault = "of-or" replaces the overflow formula of AddF by the mutation    *)
(* `|` for `&`: TLC must reject it (non-vacuity of Flags8).                 *)
(***************************************************************************)
EXTENDS X86

CONSTANTS Fault, Vals8, Limbs16

VARIABLES a, b, c
vars == <<a, b, c>>

Init == a \in Vals8 /\ b \in Vals8 /\ c \in {0, 1}
Next == UNCHANGED vars

A8 == NBits(a, 8)
B8 == NBits(b, 8)
SInt(u, w) == IF u >= Pow2(w - 1) THEN u - Pow2(w) ELSE u
RECURSIVE Ones8(_)
Ones8(u) == IF u = 0 THEN 0 ELSE (u % 2) + Ones8(u \div 2)
AddFBad(x, y, k) == LET res == AddC(x, y, k) IN
  Res(res, CarryOut(x, y, k), B((Msb(res) # Msb(x)) \/ (Msb(res) # Msb(y))), (x[5] + y[5] + res[5]) % 2)
AddFT(x, y, k) == IF Fault = "of-or" THEN AddFBad(x, y, k) ELSE AddF(x, y, k)

FlagsOK(F, u, s) ==     \* u: the unbounded unsigned result, s: the unbounded signed result
  LET r == BNat(F.res) IN
  /\ r = u % 256
  /\ F.cf = B(u < 0 \/ u > 255)
  /\ F.of = B(s < -128 \/ s > 127)
  /\ F.zf = B(r = 0) /\ F.sf = B(r >= 128) /\ F.pf = B(Ones8(r) % 2 = 0)
Flags8 ==
  /\ FlagsOK(AddFT(A8, B8, c), a + b + c, SInt(a, 8) + SInt(b, 8) + c)
  /\ AddFT(A8, B8, c).af = B((a % 16) + (b % 16) + c > 15)
  /\ FlagsOK(SubF(A8, B8, c), a - b - c, SInt(a, 8) - SInt(b, 8) - c)
  /\ SubF(A8, B8, c).af = B((a % 16) - (b % 16) - c < 0)
  /\ LET L == LogicF(And(A8, B8)) IN L.cf = 0 /\ L.of = 0 /\ L.zf = B(IsZero(L.res)) /\ L.sf = Msb(L.res)

FastMul ==
  /\ FMul2U(A8, B8) = Mul2U(A8, B8) /\ FMul2S(A8, B8) = Mul2S(A8, B8)
  /\ LET x == NBits(a * 257 + c, 16)  y == NBits(b * 129 + 77 * c, 16) IN
     FMul2U(x, y) = Mul2U(x, y) /\ FMul2S(x, y) = Mul2S(x, y)

(* 64-bit values built from the small state: limbs drawn from Limbs16 by position *)
LimbPool == <<0, 1, 65535, 32768, 32767, 255, 256, 4660, 43981, 65534, 2, 61440>>
LS == Limbs16
Pick(n) == LS[(n % Len(LS)) + 1]
Lm(k) == <<Pick(a + k), Pick(b + 2 * k), Pick(a + b + k), Pick(a * 3 + b + c + k)>>
Limbs ==
  LET x == Lm(0)  y == Lm(1)  X == FromLimbs(x, 64)  Y == FromLimbs(y, 64) IN
  /\ L4Add(x, y) = ToLimbs(Add(X, Y))
  /\ L4Sub(x, y) = ToLimbs(Sub(X, Y))
  /\ \A k \in {1, 2, 4, 8} : L4Scale(x, k) = ToLimbs(Shl(X, Log2(k)))
  /\ \A v \in {0, 1, -1, a - 128, 65536 * a + b, -(65536 * a + b), 2147483647, -2147483647} : L4Int(v) = ToLimbs(IntBV(v, 64))
  /\ LET m == [b |-> 3, x |-> 7, sc |-> 4, d |-> a - 77, a32 |-> c, rip |-> 0]
         r == [i \in 1..16 |-> Lm(i)]
         sum == Add(Add(FromLimbs(r[4], 64), Shl(FromLimbs(r[8], 64), 2)), IntBV(a - 77, 64)) IN
     EAof(r, m) = IF c = 1 THEN Zext(Trunc(sum, 32), 64) ELSE sum

SubReg ==
  LET r == [i \in 1..16 |-> Lm(i)]  old == FromLimbs(r[4], 64)  v64 == FromLimbs(Lm(20), 64) IN
  /\ FromLimbs(WrReg(r, 3, 0, 32, Trunc(v64, 32))[4], 64) = Trunc(v64, 32) \o Zero(32)
  /\ FromLimbs(WrReg(r, 3, 0, 16, Trunc(v64, 16))[4], 64) = Trunc(v64, 16) \o Slice(old, 16, 48)
  /\ FromLimbs(WrReg(r, 3, 0, 8, Trunc(v64, 8))[4], 64) = Trunc(v64, 8) \o Slice(old, 8, 56)
  /\ FromLimbs(WrReg(r, 7, 1, 8, Trunc(v64, 8))[4], 64) = Slice(old, 0, 8) \o Trunc(v64, 8) \o Slice(old, 16, 48)   \* BH
  /\ WrReg(r, 3, 0, 64, v64)[4] = Lm(20)
  /\ \A i \in 1..16 : i # 4 => WrReg(r, 3, 0, 32, Trunc(v64, 32))[i] = r[i]
  /\ RdReg(r, 7, 1, 8) = Slice(old, 8, 8)

CondTable ==
  LET fl == [cf |-> a % 2, pf |-> (a \div 2) % 2, af |-> 0, zf |-> (a \div 4) % 2, sf |-> (a \div 8) % 2, of |-> (a \div 16) % 2, df |-> 0] IN
  /\ Cond(0, fl) = (fl.of = 1) /\ Cond(1, fl) = (fl.of = 0)
  /\ Cond(2, fl) = (fl.cf = 1) /\ Cond(3, fl) = (fl.cf = 0)
  /\ Cond(4, fl) = (fl.zf = 1) /\ Cond(5, fl) = (fl.zf = 0)
  /\ Cond(6, fl) = (fl.cf = 1 \/ fl.zf = 1) /\ Cond(7, fl) = (fl.cf = 0 /\ fl.zf = 0)
  /\ Cond(8, fl) = (fl.sf = 1) /\ Cond(9, fl) = (fl.sf = 0)
  /\ Cond(10, fl) = (fl.pf = 1) /\ Cond(11, fl) = (fl.pf = 0)
  /\ Cond(12, fl) = (fl.sf # fl.of) /\ Cond(13, fl) = (fl.sf = fl.of)
  /\ Cond(14, fl) = (fl.zf = 1 \/ fl.sf # fl.of) /\ Cond(15, fl) = (fl.zf = 0 /\ fl.sf = fl.of)

(* one-operand DIV / IDIV of AX by an 8-bit register against integer division *)
DvN == 256 * a + ((b * 37 + c) % 256)
DvRegs == [i \in 1..16 |-> IF i = 1 THEN <<DvN, 0, 0, 0>> ELSE IF i = 4 THEN <<b, 0, 0, 0>> ELSE <<0, 0, 0, 0>>]
DvState == [r |-> DvRegs, fl |-> [cf |-> 0, pf |-> 0, af |-> 0, zf |-> 0, sf |-> 0, of |-> 0, df |-> 0],
            mem |-> [k \in 1..MEMN |-> 0]]
DvNone == [k |-> "n", n |-> 0, h |-> 0]
DvForm(m) == [mn |-> m, sz |-> 8, ssz |-> 0, o1 |-> [k |-> "r", n |-> 3, h |-> 0], o2 |-> DvNone, o3 |-> DvNone, cc |-> 0]
DvU == SpecStep(DvState, DvForm("div"), 2, <<>>)
DvI == SpecStep(DvState, DvForm("idiv"), 2, <<>>)
DvSn == SInt(DvN, 16)
DvSd == SInt(b, 8)
IAbs(v) == IF v < 0 THEN -v ELSE v
DvTq == IF DvSd = 0 THEN 0 ELSE IF (DvSn < 0) = (DvSd < 0) THEN IAbs(DvSn) \div IAbs(DvSd) ELSE -(IAbs(DvSn) \div IAbs(DvSd))
DvTr == DvSn - DvTq * DvSd
DivRel ==
  /\ (DvU.fault = "DE") = (b = 0 \/ DvN \div b > 255)
  /\ (DvU.fault = "") => DvU.r[1][1] = (DvN \div b) + 256 * (DvN % b)
  /\ (DvI.fault = "DE") = (DvSd = 0 \/ DvTq > 127 \/ DvTq < -128)
  /\ (DvI.fault = "") => DvI.r[1][1] = (DvTq % 256) + 256 * (DvTr % 256)
=============================================================================
