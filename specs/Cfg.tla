--------------------------------- MODULE Cfg ---------------------------------
(***************************************************************************)
(* C18 - sweeps, blocks and control-flow graphs partition the code.         *)
(*                                                                          *)
(* A behaviour first builds an instruction stream S (phase "build": one     *)
(* Grow step per instruction, every byte length in Lens and every flag in   *)
(* Flags), then (phase "run") inserts blocks cut from S into an initially   *)
(* empty cfg.graph, in every order:                                         *)
(*   Insert(s)      the block of the property's domain that starts at       *)
(*                  instruction s: the run from s to the end of the basic   *)
(*                  block containing s (what lsweep.getblock returns)       *)
(*   InsertRun(s,e) only when Wide: any contiguous run of instructions      *)
(*                  (no sweep yields these; explored for drift only)        *)
(*   Link(x, y)     graph.add_edge between two nodes of the support (what   *)
(*                  an analysis does once it knows a block's targets), so   *)
(*                  that split blocks have out-edges to move                *)
(*   ReAdd(k)       add_vertex of the node object of the k-th insertion,    *)
(*                  if it is still mapped in the support                    *)
(* The graph g evolves by CfgOps!AddV, the transcription of                 *)
(* graph.add_vertex/__cut_add_vertex over MemoryZone, with the deviations   *)
(* named in Dev enabled (Dev = {} is the intended design).                  *)
(*                                                                          *)
(* Invariants (the graph half of property C18):                             *)
(*   Disjoint     the main support holds pairwise-disjoint non-empty blocks *)
(*   Covers       every inserted instruction lies in exactly one of them    *)
(*   FallThrough  when the inserted block starts strictly inside a support  *)
(*                block, afterwards there is an edge old -> new and every   *)
(*                former out-edge of old leaves new instead                 *)
(*   NoRaise      add_vertex returns                                        *)
(* and the lemma BlocksAreMaximalRuns relating the scan-shaped definition   *)
(* of blocks (lsweep.iterblocks) to the declarative one.                    *)
(*                                                                          *)
(* Under a generator config (GenHist) the history h is printed once per     *)
(* complete behaviour; harness/c18.py replays it on a real cfg.graph.       *)
(***************************************************************************)
EXTENDS CfgOps, TLC, Json

CONSTANTS MinN, MaxN,   \* number of instructions of the stream
          Lens,         \* byte lengths of instructions
          Flags,        \* subset of {"n", "c", "d"}
          MaxIns,       \* insertions per behaviour
          MaxLinks,     \* add_edge calls per behaviour
          MaxRe,        \* re-insertions of an already inserted node object
          Wide,         \* TRUE: any contiguous run may be inserted (outside the property's domain)
          GenHist,      \* TRUE: record the history (generator configs)
          Dev           \* deviations enabled in AddV

VARIABLES ph, S, g, started, nodes, ins, nl, nre, last, h
vars == <<ph, S, g, started, nodes, ins, nl, nre, last, h>>

NoSplit == [split |-> FALSE, old |-> 0, new |-> 0, pre |-> {}]
EdgeSet(G) == ESet(G.edges)
Log(r) == h' = IF GenHist THEN Append(h, r) ELSE h

Init == /\ ph = "build"
        /\ S = [a |-> <<0>>, f |-> <<>>]
        /\ g = EmptyG
        /\ started = {} /\ nodes = <<>> /\ ins = {}
        /\ nl = 0 /\ nre = 0 /\ last = NoSplit /\ h = <<>>

Grow(l, fl) ==
  /\ ph = "build" /\ NI(S) < MaxN
  /\ S' = [a |-> Append(S.a, S.a[Len(S.a)] + l), f |-> Append(S.f, fl)]
  /\ UNCHANGED <<ph, g, started, nodes, ins, nl, nre, last, h>>

Seal ==
  /\ ph = "build" /\ NI(S) >= MinN
  /\ ph' = "run"
  /\ UNCHANGED <<S, g, started, nodes, ins, nl, nre, last, h>>

Live == ph = "run" /\ g.err = ""
(* nodes made by add_vertex (MemoryZone also maps anonymous nodes it made by slicing; those are *)
(* not vertices of the graph and an analysis never holds them)                                 *)
IsVertex(id) == \E n \in 1..Len(nodes) : nodes[n] = id

(* insertion of the run of instructions s .. e-1 as a new node              *)
InsertB(s, e) ==
  /\ Live /\ Cardinality(started) < MaxIns /\ <<s, e>> \notin started
  /\ LET b   == Bd(S, s, e)
         k   == Len(g.blk) + 1
         lay == Layout(g, g.sup)
         si  == SplitIdx(lay, b[1])
         g2  == AddV(g, b, Dev)
     IN /\ g' = g2
        /\ last' = IF si = 0 THEN NoSplit
                   ELSE [split |-> TRUE, old |-> g.sup[si].id, new |-> k, pre |-> EdgeSet(g)]
        /\ nodes' = Append(nodes, k)
        /\ Log([op |-> "add", s |-> s, e |-> e, br |-> g2.br, err |-> g2.err,
                lay |-> Layout(g2, g2.sup), ed |-> EdgeAddrs(g2)])
  /\ started' = started \cup {<<s, e>>}
  /\ ins' = ins \cup Instrs(Bd(S, s, e))
  /\ UNCHANGED <<ph, S, nl, nre>>

Insert(s) == InsertB(s, BlockEnd(S.f, s))

Link(i, j) ==
  /\ Live /\ nl < MaxLinks
  /\ i \in 1..Len(g.sup) /\ j \in 1..Len(g.sup)
  /\ IsVertex(g.sup[i].id) /\ IsVertex(g.sup[j].id)
  /\ ~EHas(g.edges, <<g.sup[i].id, g.sup[j].id>>)
  /\ g' = AddE(g, g.sup[i].id, g.sup[j].id, Dev)
  /\ nl' = nl + 1 /\ last' = NoSplit
  /\ Log([op |-> "link", x |-> g.sup[i].va, y |-> g.sup[j].va])
  /\ UNCHANGED <<ph, S, started, nodes, ins, nre>>

ReAdd(n) ==
  /\ Live /\ nre < MaxRe /\ n \in 1..Len(nodes)
  /\ \E i \in 1..Len(g.sup) : g.sup[i].id = nodes[n]    \* still mapped (a node that was swallowed
  /\ LET k   == nodes[n]                                  \* or cut is no longer a block of the stream)
         lay == Layout(g, g.sup)
         si  == SplitIdx(lay, BStart(g.blk[k]))
         g2  == ReAddV(g, k, Dev)
     IN /\ g' = g2
        /\ last' = IF si = 0 \/ g.sup[si].id = k THEN NoSplit
                   ELSE [split |-> TRUE, old |-> g.sup[si].id, new |-> k, pre |-> EdgeSet(g)]
        /\ Log([op |-> "readd", n |-> n, br |-> g2.br, err |-> g2.err,
                lay |-> Layout(g2, g2.sup), ed |-> EdgeAddrs(g2)])
  /\ nre' = nre + 1
  /\ UNCHANGED <<ph, S, started, nodes, ins, nl>>

Next ==
  \/ \E l \in Lens, fl \in Flags : Grow(l, fl)
  \/ Seal
  \/ \E s \in 1..NI(S) : Insert(s)
  \/ Wide /\ \E s \in 1..NI(S) : \E e \in (s + 1)..(NI(S) + 1) : InsertB(s, e)
  \/ \E i \in 1..Len(g.sup), j \in 1..Len(g.sup) : Link(i, j)
  \/ \E n \in 1..Len(nodes) : ReAdd(n)

Spec == Init /\ [][Next]_vars

-----------------------------------------------------------------------------
(* Invariants *)
Disjoint    == DisjointG(g)
Covers      == g.err = "" => CoversG(g, ins)
FallThrough == (last.split /\ g.err = "") => FallThroughE(last.pre, EdgeSet(g), last.old, last.new)
NoRaise     == g.err = ""
NoOverlay   == ~g.hasOvl
(* the scan-shaped block end is the declarative one; sweeps are consecutive; *)
(* the blocks of a sweep tile the stream from the start to its end           *)
BlocksAreMaximalRuns ==
  (ph = "run" /\ started = {}) =>
    /\ WellFormed(S)
    /\ \A s \in 1..NI(S) :
         /\ Consecutive(Sweep(S, s))
         /\ ~Delayed2(S.f) => BlockEnd(S.f, s) = AbstractEnd(S.f, s)
         /\ LET B == BlocksFrom(S.f, s) IN
            /\ B[1][1] = s /\ B[Len(B)][2] = NI(S) + 1
            /\ \A i \in 1..(Len(B) - 1) : B[i][2] = B[i + 1][1]
            /\ \A i \in 1..Len(B) : B[i][1] < B[i][2]

-----------------------------------------------------------------------------
(* generator: a behaviour is complete when nothing more may be inserted      *)
NBlocks   == IF Wide THEN (NI(S) * (NI(S) + 1)) \div 2 ELSE NI(S)
CanInsert == Cardinality(started) < Min(MaxIns, NBlocks)
CanLink   == nl < MaxLinks /\ \E i \in 1..Len(g.sup), j \in 1..Len(g.sup) :
                 IsVertex(g.sup[i].id) /\ IsVertex(g.sup[j].id) /\ ~EHas(g.edges, <<g.sup[i].id, g.sup[j].id>>)
CanRe     == nre < MaxRe /\ \E n \in 1..Len(nodes) : \E i \in 1..Len(g.sup) : g.sup[i].id = nodes[n]
Done == ph = "run" /\ (g.err # "" \/ ~(CanInsert \/ CanLink \/ CanRe))
Emit == Done => PrintT(ToJson([L |-> [k \in 1..NI(S) |-> S.a[k + 1] - S.a[k]], F |-> S.f, h |-> h]))
=============================================================================
