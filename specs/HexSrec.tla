------------------------------- MODULE HexSrec -------------------------------
(***************************************************************************)
(* Intel-HEX and Motorola S-record files as record streams (C14, C15).     *)
(*                                                                         *)
(* A line is text (a sequence of code points).  For each format:           *)
(*   Line(r)    the text of record r                                       *)
(*   Parse(t)   [ok |-> TRUE, type, addr, data, cks] or [ok |-> FALSE, why]*)
(*              why in {"syntax", "checksum", "count", "type"} (in this    *)
(*              order: "count"/"type" mean a well-summed but ill-formed    *)
(*              record)                                                    *)
(*   Decode(rs) the meaning of a record stream: the data blocks with their *)
(*              absolute addresses (HEX: extended segment / linear base    *)
(*              address state machine; the most recent type-02 / type-04   *)
(*              record is in effect), and the start address.               *)
(* Intel HEX: ':' LL AAAA TT DD.. CC, CC = two's complement of the sum of  *)
(* all preceding bytes.  S-record: 'S' T LL AAAA[AA[AA]] DD.. CC, LL counts*)
(* address+data+checksum bytes, CC = one's complement of the sum of LL,    *)
(* address and data bytes; the type digit is not covered by the checksum.  *)
(* Addresses are digits (4 bytes, little-endian) because they reach 2^32.  *)
(***************************************************************************)
EXTENDS Integers, Sequences, FiniteSets, TLC, Bytes

CONSTANT Dev      \* "" or a seeded fault (self-test only)

Colon == 58
CharS == 83

(* ------------------------------ Intel HEX --------------------------------*)
HexDataLen(type) == CASE type = 1 -> {0} [] type = 2 -> {2} [] type = 3 -> {4} [] type = 4 -> {2} [] type = 5 -> {4}
                      [] OTHER -> 0..255
HexBody(r) == <<Len(r.data)>> \o Rev(Digits(r.addr, 2)) \o <<r.type>> \o r.data
HexSummed(body) == IF Dev = "HexSumNoAddr" THEN <<body[1]>> \o SubSeq(body, 4, Len(body)) ELSE body
HexLine(r) == LET body == HexBody(r) IN <<Colon>> \o HexOfBytes(body \o <<TwosCompl8(HexSummed(body))>>)

HexParse(t) ==
  IF Len(t) < 11 \/ t[1] # Colon \/ ~IsHex(Tail(t)) \/ Len(t) % 2 = 0 THEN [ok |-> FALSE, why |-> "syntax"]
  ELSE LET b == BytesOfHex(Tail(t))  n == Len(b) IN
       IF (Sum8(HexSummed(SubSeq(b, 1, n - 1))) + b[n]) % 256 # 0 THEN [ok |-> FALSE, why |-> "checksum"]
       ELSE IF n # b[1] + 5 THEN [ok |-> FALSE, why |-> "count"]
       ELSE IF b[4] > 5 \/ b[1] \notin HexDataLen(b[4]) THEN [ok |-> FALSE, why |-> "type"]
       ELSE [ok |-> TRUE, type |-> b[4], addr |-> 256 * b[2] + b[3], data |-> SubSeq(b, 5, n - 1), cks |-> b[n], count |-> b[1]]

\* stream meaning: fold over the records
HexAbs(mode, base, a) == CASE mode = "lin" -> Digits(a, 2) \o Digits(base, 2)
                           [] mode = "seg" -> Digits(base * 16 + a, 4)
                           [] OTHER        -> Digits(a, 4)
RECURSIVE HexRun(_, _, _, _, _, _)
HexRun(rs, k, mode, base, out, entry) ==
  IF k > Len(rs) THEN [blocks |-> out, entry |-> entry]
  ELSE LET r == rs[k] IN
    CASE r.type = 0 -> HexRun(rs, k + 1, mode, base, Append(out, [a |-> HexAbs(mode, base, r.addr), d |-> r.data]), entry)
      [] r.type = 2 -> HexRun(rs, k + 1, "seg", BE(r.data), out, entry)
      [] r.type = 4 -> HexRun(rs, k + 1, "lin", BE(r.data), out, entry)
      [] r.type = 3 -> HexRun(rs, k + 1, mode, base, out,
                              [kind |-> "csip", v |-> Digits(BE(SubSeq(r.data, 1, 2)) * 16 + BE(SubSeq(r.data, 3, 4)), 4),
                               cs |-> BE(SubSeq(r.data, 1, 2)), ip |-> BE(SubSeq(r.data, 3, 4))])
      [] r.type = 5 -> HexRun(rs, k + 1, mode, base, out, [kind |-> "eip", v |-> Rev(r.data), cs |-> 0, ip |-> 0])
      [] OTHER      -> [blocks |-> out, entry |-> entry]                   \* type 1: end of file
NoEntry == [kind |-> "none", v |-> <<0, 0, 0, 0>>, cs |-> 0, ip |-> 0]
HexDecode(rs) == HexRun(rs, 1, "none", 0, <<>>, NoEntry)
\* a stream "mixes" the two addressing modes when a data record follows records of both type 02 and type 04
HexMixed(rs) == \E i, j, k \in DOMAIN rs : i < k /\ j < k /\ rs[i].type = 2 /\ rs[j].type = 4 /\ rs[k].type = 0

(* ------------------------------ S-record ----------------------------------*)
SrecTypes == {0, 1, 2, 3, 5, 6, 7, 8, 9}
SrecAddrLen(type) == CASE type \in {0, 1, 5, 9} -> 2 [] type \in {2, 6, 8} -> 3 [] OTHER -> 4
SrecBody(r) == LET al == SrecAddrLen(r.type) IN <<al + Len(r.data) + 1>> \o Rev(Widen(r.addr, al)) \o r.data
SrecLine(r) == LET body == SrecBody(r) IN <<CharS, 48 + r.type>> \o HexOfBytes(body \o <<OnesCompl8(body)>>)

SrecParse(t) ==
  IF Len(t) < 10 \/ t[1] # CharS \/ (t[2] - 48) \notin SrecTypes \/ ~IsHex(SubSeq(t, 3, Len(t))) \/ Len(t) % 2 # 0
  THEN [ok |-> FALSE, why |-> "syntax"]
  ELSE LET b == BytesOfHex(SubSeq(t, 3, Len(t)))  n == Len(b)  ty == t[2] - 48  al == SrecAddrLen(ty) IN
       IF (Sum8(SubSeq(b, 1, n - 1)) + b[n]) % 256 # 255 THEN [ok |-> FALSE, why |-> "checksum"]
       ELSE IF n # b[1] + 1 \/ b[1] < al + 1 THEN [ok |-> FALSE, why |-> "count"]
       ELSE [ok |-> TRUE, type |-> ty, addr |-> Widen(Rev(SubSeq(b, 2, 1 + al)), 4), data |-> SubSeq(b, 2 + al, n - 1), cks |-> b[n],
             count |-> b[1]]

RECURSIVE SrecRun(_, _, _, _)
SrecRun(rs, k, out, entry) ==
  IF k > Len(rs) THEN [blocks |-> out, entry |-> entry]
  ELSE LET r == rs[k] IN
    CASE r.type \in {1, 2, 3} -> SrecRun(rs, k + 1, Append(out, [a |-> r.addr, d |-> r.data]), entry)
      [] r.type \in {7, 8, 9} -> SrecRun(rs, k + 1, out, [kind |-> "start", v |-> r.addr, cs |-> 0, ip |-> 0])
      [] OTHER                -> SrecRun(rs, k + 1, out, entry)
SrecDecode(rs) == SrecRun(rs, 1, <<>>, NoEntry)

(* ------------------------------ common ------------------------------------*)
Line(fmt, r)  == IF fmt = "hex" THEN HexLine(r) ELSE SrecLine(r)
Parse(fmt, t) == IF fmt = "hex" THEN HexParse(t) ELSE SrecParse(t)
Decode(fmt, rs) == IF fmt = "hex" THEN HexDecode(rs) ELSE SrecDecode(rs)
Subst(t, i, c) == [t EXCEPT ![i] = c]
=============================================================================
