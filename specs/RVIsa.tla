------------------------------- MODULE RVIsa -------------------------------
(***************************************************************************)
(* C06, RISC-V part.  The RV32I / RV64I base integer instruction sets       *)
(* written from "The RISC-V Instruction Set Manual, Volume I: Unprivileged  *)
(* ISA" (chapters 2 "RV32I" and 5 "RV64I"), as pure operators over          *)
(* specs/lib/BitVec.tla (bit-vectors are sequences of bits, LSB first).     *)
(*                                                                          *)
(*   Decode(w)                    32-bit word -> [op, rd, rs1, rs2, imm]    *)
(*                                by opcode / funct3 / funct7               *)
(*   Encode(op, rd, rs1, rs2, i)  the inverse (used by the generators)      *)
(*   Exec(d, a, b, pc, m, Devs)   the effect of one instruction:            *)
(*        a, b  values of x[rs1], x[rs2] BEFORE the instruction,            *)
(*        pc    address of the instruction,                                 *)
(*        m     for loads: the LoadSize(d.op) bytes at EA(d, a) as one      *)
(*              little-endian bit-vector, or <<>> when that memory is not   *)
(*              part of the modelled state,                                 *)
(*        result [rd  |-> <<>> (no register written) | <<value>>,           *)
(*                unk |-> TRUE when rd receives a value the model cannot    *)
(*                        know (load from unmodelled memory),               *)
(*                pc  |-> next program counter,                             *)
(*                st  |-> <<>> | <<address, value>> : value is stored       *)
(*                        little-endian at address .. address+Len/8-1]      *)
(*                                                                          *)
(* XLEN is 32 or 64.  The reduced instances XLEN = 8 and XLEN = 16 (used    *)
(* only to model-check the definitions against integer arithmetic, RV.tla)  *)
(* keep every rule and scale the widths: immediates are truncated to XLEN,  *)
(* shift amounts have log2(XLEN) bits, memory accesses wider than XLEN do   *)
(* not exist.                                                               *)
(*                                                                          *)
(* Not modelled: traps.  ECALL / EBREAK transfer control to the execution   *)
(* environment and are outside the claim (Traps).  FENCE is a no-op for a   *)
(* single hart (pc + 4).  Misaligned instruction-fetch / data exceptions    *)
(* are not raised: the next pc is the target the manual's formula gives     *)
(* (IALIGN = 16 behaviour), data accesses are performed at any alignment.   *)
(*                                                                          *)
(* Devs names deviations from the manual.  With Devs = {} this is the       *)
(* reference.  A non-empty Devs describes exactly one wrong behaviour each; *)
(* they are used (a) as seeded faults that the model checker must reject,   *)
(* (b) to attribute a mismatch observed on amoco to a *listed* finding      *)
(* (RVTrace.tla: a mismatch is attributed to a set of deviations only when  *)
(* the deviating interpreter reproduces amoco's whole post-state).          *)
(***************************************************************************)
EXTENDS BVWire

CONSTANT XLEN

LOGX == CHOOSE k \in 1..6 : Pow2(k) = XLEN            \* bits of a shift amount

Sx(v) == IF Len(v) >= XLEN THEN Trunc(v, XLEN) ELSE Sext(v, XLEN)
Zx(v) == IF Len(v) >= XLEN THEN Trunc(v, XLEN) ELSE Zext(v, XLEN)
Fld(w, lo, n) == BNat(Slice(w, lo, n))                \* bits lo .. lo+n-1 of the word

-----------------------------------------------------------------------------
(* the instruction sets *)
RV32Ops == {"LUI", "AUIPC", "JAL", "JALR", "BEQ", "BNE", "BLT", "BGE", "BLTU", "BGEU",
            "LB", "LH", "LW", "LBU", "LHU", "SB", "SH", "SW",
            "ADDI", "SLTI", "SLTIU", "XORI", "ORI", "ANDI", "SLLI", "SRLI", "SRAI",
            "ADD", "SUB", "SLL", "SLT", "SLTU", "XOR", "SRL", "SRA", "OR", "AND",
            "FENCE", "ECALL", "EBREAK"}
RV64Only == {"LWU", "LD", "SD", "ADDIW", "SLLIW", "SRLIW", "SRAIW",
             "ADDW", "SUBW", "SLLW", "SRLW", "SRAW"}
Traps == {"ECALL", "EBREAK"}

LoadSize(op)  == CASE op \in {"LB", "LBU"} -> 1 [] op \in {"LH", "LHU"} -> 2
                   [] op \in {"LW", "LWU"} -> 4 [] op = "LD" -> 8 [] OTHER -> 0
StoreSize(op) == CASE op = "SB" -> 1 [] op = "SH" -> 2 [] op = "SW" -> 4 [] op = "SD" -> 8 [] OTHER -> 0
Fits(op) == 8 * LoadSize(op) <= XLEN /\ 8 * StoreSize(op) <= XLEN
            /\ (op \in RV64Only => XLEN = 64)
Ops == {op \in RV32Ops \cup RV64Only : Fits(op)}

-----------------------------------------------------------------------------
(* Decode: manual chapter 2.2/2.3 (formats R I S B U J and their immediates), tables of chapter 24 *)
Illegal == [op |-> "ILLEGAL", rd |-> 0, rs1 |-> 0, rs2 |-> 0, imm |-> Zero(XLEN)]

Decode(w) ==
  LET opc == Fld(w, 0, 7)   rd  == Fld(w, 7, 5)   f3 == Fld(w, 12, 3)
      rs1 == Fld(w, 15, 5)  rs2 == Fld(w, 20, 5)  f7 == Fld(w, 25, 7)
      immI == Slice(w, 20, 12)
      immS == Slice(w, 7, 5) \o Slice(w, 25, 7)
      immB == <<0>> \o Slice(w, 8, 4) \o Slice(w, 25, 6) \o Slice(w, 7, 1) \o Slice(w, 31, 1)
      immU == Zero(12) \o Slice(w, 12, 20)
      immJ == <<0>> \o Slice(w, 21, 10) \o Slice(w, 20, 1) \o Slice(w, 12, 8) \o Slice(w, 31, 1)
      D(op, x, y, z, im) == IF op \in Ops THEN [op |-> op, rd |-> x, rs1 |-> y, rs2 |-> z, imm |-> Sx(im)]
                            ELSE Illegal
      R(op) == D(op, rd, rs1, rs2, <<0>>)
      I(op) == D(op, rd, rs1, 0, immI)
      S(op) == D(op, 0, rs1, rs2, immS)
      B(op) == D(op, 0, rs1, rs2, immB)
      \* shift by immediate: shamt has n bits, the instruction bits above it select the variant
      Sh(op, n) == D(op, rd, rs1, 0, Slice(w, 20, n) \o <<0>>)
      hi(n) == Fld(w, 20 + n, 12 - n)
      arith(n) == Pow2(10 - n)                              \* instruction bit 30 within hi(n)
  IN CASE opc = 55  -> D("LUI", rd, 0, 0, immU)                                     \* 0110111
       [] opc = 23  -> D("AUIPC", rd, 0, 0, immU)                                   \* 0010111
       [] opc = 111 -> D("JAL", rd, 0, 0, immJ)                                     \* 1101111
       [] opc = 103 -> IF f3 = 0 THEN I("JALR") ELSE Illegal                        \* 1100111
       [] opc = 99  -> (CASE f3 = 0 -> B("BEQ")  [] f3 = 1 -> B("BNE")              \* 1100011
                          [] f3 = 4 -> B("BLT")  [] f3 = 5 -> B("BGE")
                          [] f3 = 6 -> B("BLTU") [] f3 = 7 -> B("BGEU")
                          [] OTHER -> Illegal)
       [] opc = 3   -> (CASE f3 = 0 -> I("LB")  [] f3 = 1 -> I("LH")  [] f3 = 2 -> I("LW")  \* 0000011
                          [] f3 = 4 -> I("LBU") [] f3 = 5 -> I("LHU")
                          [] f3 = 3 -> I("LD")  [] f3 = 6 -> I("LWU")
                          [] OTHER -> Illegal)
       [] opc = 35  -> (CASE f3 = 0 -> S("SB") [] f3 = 1 -> S("SH") [] f3 = 2 -> S("SW")   \* 0100011
                          [] f3 = 3 -> S("SD")
                          [] OTHER -> Illegal)
       [] opc = 19  -> (CASE f3 = 0 -> I("ADDI") [] f3 = 2 -> I("SLTI") [] f3 = 3 -> I("SLTIU")  \* 0010011
                          [] f3 = 4 -> I("XORI") [] f3 = 6 -> I("ORI")  [] f3 = 7 -> I("ANDI")
                          [] f3 = 1 -> IF hi(LOGX) = 0 THEN Sh("SLLI", LOGX) ELSE Illegal
                          [] f3 = 5 -> IF hi(LOGX) = 0 THEN Sh("SRLI", LOGX)
                                       ELSE IF hi(LOGX) = arith(LOGX) THEN Sh("SRAI", LOGX) ELSE Illegal)
       [] opc = 51  -> IF f7 = 0                                                    \* 0110011
                       THEN (CASE f3 = 0 -> R("ADD") [] f3 = 1 -> R("SLL") [] f3 = 2 -> R("SLT")
                               [] f3 = 3 -> R("SLTU") [] f3 = 4 -> R("XOR") [] f3 = 5 -> R("SRL")
                               [] f3 = 6 -> R("OR") [] f3 = 7 -> R("AND"))
                       ELSE IF f7 = 32
                       THEN (CASE f3 = 0 -> R("SUB") [] f3 = 5 -> R("SRA") [] OTHER -> Illegal)
                       ELSE Illegal
       [] opc = 15  -> IF f3 = 0 THEN D("FENCE", 0, 0, 0, <<0>>) ELSE Illegal      \* 0001111
       [] opc = 115 -> IF Fld(w, 7, 13) = 0 /\ rs2 = 0 /\ f7 = 0 THEN D("ECALL", 0, 0, 0, <<0>>)   \* 1110011
                       ELSE IF Fld(w, 7, 13) = 0 /\ rs2 = 1 /\ f7 = 0 THEN D("EBREAK", 0, 0, 0, <<0>>)
                       ELSE Illegal
       [] opc = 27  -> (CASE f3 = 0 -> I("ADDIW")                                   \* 0011011 (RV64)
                          [] f3 = 1 -> IF f7 = 0 THEN Sh("SLLIW", 5) ELSE Illegal
                          [] f3 = 5 -> IF f7 = 0 THEN Sh("SRLIW", 5)
                                       ELSE IF f7 = 32 THEN Sh("SRAIW", 5) ELSE Illegal
                          [] OTHER -> Illegal)
       [] opc = 59  -> IF f7 = 0                                                    \* 0111011 (RV64)
                       THEN (CASE f3 = 0 -> R("ADDW") [] f3 = 1 -> R("SLLW") [] f3 = 5 -> R("SRLW")
                               [] OTHER -> Illegal)
                       ELSE IF f7 = 32
                       THEN (CASE f3 = 0 -> R("SUBW") [] f3 = 5 -> R("SRAW") [] OTHER -> Illegal)
                       ELSE Illegal
       [] OTHER -> Illegal

-----------------------------------------------------------------------------
(* Encode: format, opcode, funct3, funct7 per instruction (chapter 24 listings) *)
Info(op) ==
  CASE op = "LUI" -> <<"U", 55, 0, 0>>    [] op = "AUIPC" -> <<"U", 23, 0, 0>>
    [] op = "JAL" -> <<"J", 111, 0, 0>>   [] op = "JALR" -> <<"I", 103, 0, 0>>
    [] op = "BEQ" -> <<"B", 99, 0, 0>>    [] op = "BNE" -> <<"B", 99, 1, 0>>
    [] op = "BLT" -> <<"B", 99, 4, 0>>    [] op = "BGE" -> <<"B", 99, 5, 0>>
    [] op = "BLTU" -> <<"B", 99, 6, 0>>   [] op = "BGEU" -> <<"B", 99, 7, 0>>
    [] op = "LB" -> <<"I", 3, 0, 0>>      [] op = "LH" -> <<"I", 3, 1, 0>>
    [] op = "LW" -> <<"I", 3, 2, 0>>      [] op = "LBU" -> <<"I", 3, 4, 0>>
    [] op = "LHU" -> <<"I", 3, 5, 0>>     [] op = "LWU" -> <<"I", 3, 6, 0>>
    [] op = "LD" -> <<"I", 3, 3, 0>>
    [] op = "SB" -> <<"S", 35, 0, 0>>     [] op = "SH" -> <<"S", 35, 1, 0>>
    [] op = "SW" -> <<"S", 35, 2, 0>>     [] op = "SD" -> <<"S", 35, 3, 0>>
    [] op = "ADDI" -> <<"I", 19, 0, 0>>   [] op = "SLTI" -> <<"I", 19, 2, 0>>
    [] op = "SLTIU" -> <<"I", 19, 3, 0>>  [] op = "XORI" -> <<"I", 19, 4, 0>>
    [] op = "ORI" -> <<"I", 19, 6, 0>>    [] op = "ANDI" -> <<"I", 19, 7, 0>>
    [] op = "SLLI" -> <<"H", 19, 1, 0>>   [] op = "SRLI" -> <<"H", 19, 5, 0>>
    [] op = "SRAI" -> <<"H", 19, 5, 32>>
    [] op = "ADD" -> <<"R", 51, 0, 0>>    [] op = "SUB" -> <<"R", 51, 0, 32>>
    [] op = "SLL" -> <<"R", 51, 1, 0>>    [] op = "SLT" -> <<"R", 51, 2, 0>>
    [] op = "SLTU" -> <<"R", 51, 3, 0>>   [] op = "XOR" -> <<"R", 51, 4, 0>>
    [] op = "SRL" -> <<"R", 51, 5, 0>>    [] op = "SRA" -> <<"R", 51, 5, 32>>
    [] op = "OR" -> <<"R", 51, 6, 0>>     [] op = "AND" -> <<"R", 51, 7, 0>>
    [] op = "FENCE" -> <<"F", 15, 0, 0>>
    [] op = "ECALL" -> <<"E", 115, 0, 0>> [] op = "EBREAK" -> <<"E", 115, 0, 1>>
    [] op = "ADDIW" -> <<"I", 27, 0, 0>>  [] op = "SLLIW" -> <<"HW", 27, 1, 0>>
    [] op = "SRLIW" -> <<"HW", 27, 5, 0>> [] op = "SRAIW" -> <<"HW", 27, 5, 32>>
    [] op = "ADDW" -> <<"R", 59, 0, 0>>   [] op = "SUBW" -> <<"R", 59, 0, 32>>
    [] op = "SLLW" -> <<"R", 59, 1, 0>>   [] op = "SRLW" -> <<"R", 59, 5, 0>>
    [] op = "SRAW" -> <<"R", 59, 5, 32>>
Fmt(op) == Info(op)[1]
UsesRd(op)  == Fmt(op) \in {"U", "J", "I", "H", "HW", "R"}
UsesRs1(op) == Fmt(op) \in {"I", "H", "HW", "R", "S", "B"}
UsesRs2(op) == Fmt(op) \in {"R", "S", "B"}

(* imm32: the immediate as the 32-bit value the manual's formats produce (sign-extended to 32
   bits; U: the value with its low 12 bits zero; H/HW: the shift amount).  ValidImm says which
   imm32 a format can carry. *)
ShBits(op) == IF Fmt(op) = "HW" THEN 5 ELSE LOGX
ValidImm(op, i) ==
  CASE Fmt(op) \in {"I", "S"} -> i = Sext(Trunc(i, 12), 32)
    [] Fmt(op) = "B" -> i[1] = 0 /\ i = Sext(Trunc(i, 13), 32)
    [] Fmt(op) = "J" -> i[1] = 0 /\ i = Sext(Trunc(i, 21), 32)
    [] Fmt(op) = "U" -> Trunc(i, 12) = Zero(12)
    [] Fmt(op) \in {"H", "HW"} -> i = Zext(Trunc(i, ShBits(op)), 32)
    [] OTHER -> i = Zero(32)

Encode(op, rd, rs1, rs2, i) ==
  LET inf == Info(op)  f == inf[1]
      opc == NBits(inf[2], 7)  f3 == NBits(inf[3], 3)  f7 == NBits(inf[4], 7)
      RD == NBits(rd, 5)  R1 == NBits(rs1, 5)  R2 == NBits(rs2, 5)
  IN CASE f = "R" -> opc \o RD \o f3 \o R1 \o R2 \o f7
       [] f = "I" -> opc \o RD \o f3 \o R1 \o Slice(i, 0, 12)
       [] f \in {"H", "HW"} ->
            LET n == ShBits(op) IN
            opc \o RD \o f3 \o R1 \o Slice(i, 0, n) \o NBits(IF inf[4] = 32 THEN Pow2(10 - n) ELSE 0, 12 - n)
       [] f = "S" -> opc \o Slice(i, 0, 5) \o f3 \o R1 \o R2 \o Slice(i, 5, 7)
       [] f = "B" -> opc \o Slice(i, 11, 1) \o Slice(i, 1, 4) \o f3 \o R1 \o R2 \o Slice(i, 5, 6) \o Slice(i, 12, 1)
       [] f = "U" -> opc \o RD \o Slice(i, 12, 20)
       [] f = "J" -> opc \o RD \o Slice(i, 12, 8) \o Slice(i, 11, 1) \o Slice(i, 1, 10) \o Slice(i, 20, 1)
       [] f = "F" -> opc \o Zero(25)
       [] f = "E" -> opc \o Zero(13) \o NBits(inf[4], 12)

-----------------------------------------------------------------------------
(* Exec: the manual's description of each instruction, one operator per instruction.
   Arguments as described in the header; every operator returns an effect record. *)
Four == NBits(4, XLEN)
Eff(rdv, npc, st) == [rd |-> rdv, unk |-> FALSE, pc |-> npc, st |-> st]
Bool(c) == IF c THEN One(XLEN) ELSE Zero(XLEN)
EA(d, a) == Add(a, d.imm)                                  \* effective address of loads / stores
W32(v) == Sx(Trunc(v, 32))                                 \* RV64 *W: low 32 bits, sign-extended

Exec(d, a, b, pc, m, Devs) ==
  LET imm == d.imm
      nxt == Add(pc, Four)
      DevOn(n) == n \in Devs
      Wr(v)  == Eff(IF d.rd = 0 THEN <<>> ELSE <<v>>, nxt, <<>>)            \* x0 is hard-wired to zero
      Br(c)  == Eff(<<>>, IF c THEN Add(pc, imm) ELSE nxt, <<>>)
      Ld(sg) == IF m = <<>> THEN [Wr(Zero(XLEN)) EXCEPT !.unk = (d.rd # 0)]
                ELSE Wr(IF sg /\ ~DevOn("LoadNoSignExt") THEN Sx(m) ELSE Zx(m))
      St(n)  == Eff(<<>>, nxt, <<EA(d, a), Trunc(b, 8 * (IF DevOn("StoreWide") /\ 16 * n <= XLEN THEN 2 * n ELSE n))>>)
      \* signed comparison of two register values / of a register value with the immediate
      SLess(u, v) == IF DevOn("SignedCmpAsUnsigned") THEN Ult(u, v) ELSE Slt(u, v)
      \* rs1 read as an unsigned number, the (sign-extended) immediate as a signed number
      MixedLess(u, v) == IF Msb(v) = 1 THEN FALSE ELSE Ult(u, v)
      SLessI(u, v) == IF DevOn("SltiMixedSignedness") THEN MixedLess(u, v) ELSE Slt(u, v)
      shr  == BNat(Trunc(b, IF DevOn("ShiftAmount5Bits") THEN 5 ELSE LOGX))   \* register shift amount
      shi  == BNat(Trunc(imm, LOGX))
      shr5 == BNat(Trunc(b, 5))
      shi5 == BNat(Trunc(imm, 5))
      a32  == Trunc(a, 32)
      b32  == Trunc(b, 32)
      link == IF d.rd = 0 THEN <<>> ELSE <<nxt>>
      \* U-immediate: the 32-bit value imm[31:12] << 12, sign-extended to XLEN
      uimm == IF DevOn("UImmZeroExtended") /\ XLEN > 32 THEN Zx(Trunc(imm, 32)) ELSE imm
  IN CASE d.op = "LUI"   -> Wr(uimm)
       [] d.op = "AUIPC" -> Wr(IF DevOn("AuipcNoPc") THEN uimm
                               ELSE IF DevOn("AuipcFromNextPc") THEN Add(nxt, uimm) ELSE Add(pc, uimm))
       [] d.op = "JAL"   -> Eff(link, Add(pc, imm), <<>>)
       [] d.op = "JALR"  ->
            \* target = (rs1 + imm) with bit 0 cleared; rs1 is the value before rd is written
            LET base == IF DevOn("JalrLinkBeforeBase") /\ d.rd = d.rs1 /\ d.rd # 0 THEN nxt ELSE a
                t == Add(base, imm)
            IN Eff(link, IF DevOn("JalrKeepsBit0") THEN t ELSE And(t, Not(One(XLEN))), <<>>)
       [] d.op = "BEQ"   -> Br(a = b)
       [] d.op = "BNE"   -> Br(a # b)
       [] d.op = "BLT"   -> Br(SLess(a, b))
       [] d.op = "BGE"   -> Br(~SLess(a, b))
       [] d.op = "BLTU"  -> Br(Ult(a, b))
       [] d.op = "BGEU"  -> Br(~Ult(a, b))
       [] d.op \in {"LB", "LH", "LW", "LD"} -> Ld(TRUE)
       [] d.op \in {"LBU", "LHU", "LWU"}    -> Ld(FALSE)
       [] d.op = "SB"    -> St(1)
       [] d.op = "SH"    -> St(2)
       [] d.op = "SW"    -> St(4)
       [] d.op = "SD"    -> St(8)
       [] d.op = "ADDI"  -> Wr(Add(a, imm))
       [] d.op = "SLTI"  -> Wr(Bool(SLessI(a, imm)))
       [] d.op = "SLTIU" -> Wr(Bool(Ult(a, imm)))
       [] d.op = "XORI"  -> Wr(Xor(a, imm))
       [] d.op = "ORI"   -> Wr(Or(a, imm))
       [] d.op = "ANDI"  -> Wr(And(a, imm))
       [] d.op = "SLLI"  -> Wr(Shl(a, shi))
       [] d.op = "SRLI"  -> Wr(Lshr(a, shi))
       [] d.op = "SRAI"  -> Wr(IF DevOn("SraLogical") THEN Lshr(a, shi) ELSE Ashr(a, shi))
       [] d.op = "ADD"   -> Wr(Add(a, b))
       [] d.op = "SUB"   -> Wr(Sub(a, b))
       [] d.op = "SLL"   -> Wr(Shl(a, shr))
       [] d.op = "SLT"   -> Wr(Bool(SLess(a, b)))
       [] d.op = "SLTU"  -> Wr(Bool(Ult(a, b)))
       [] d.op = "XOR"   -> Wr(Xor(a, b))
       [] d.op = "SRL"   -> Wr(Lshr(a, shr))
       [] d.op = "SRA"   -> Wr(Ashr(a, shr))
       [] d.op = "OR"    -> Wr(Or(a, b))
       [] d.op = "AND"   -> Wr(And(a, b))
       [] d.op = "FENCE" -> Eff(<<>>, nxt, <<>>)
       \* RV64I: operations on the low 32 bits, result sign-extended to 64
       [] d.op = "ADDIW" -> Wr(W32(Add(a, imm)))
       [] d.op = "SLLIW" -> Wr(IF DevOn("ShiftImmWAs64") THEN Shl(a, shi5) ELSE W32(Shl(a32, shi5)))
       [] d.op = "SRLIW" -> Wr(IF DevOn("ShiftImmWAs64") THEN Lshr(a, shi5) ELSE W32(Lshr(a32, shi5)))
       [] d.op = "SRAIW" -> Wr(IF DevOn("ShiftImmWAs64") THEN Ashr(a, shi5) ELSE W32(Ashr(a32, shi5)))
       [] d.op = "ADDW"  -> Wr(W32(Add(a, b)))
       [] d.op = "SUBW"  -> Wr(W32(Sub(a, b)))
       [] d.op = "SLLW"  -> Wr(W32(Shl(a32, shr5)))
       [] d.op = "SRLW"  -> Wr(W32(Lshr(a32, shr5)))
       [] d.op = "SRAW"  -> Wr(W32(Ashr(a32, shr5)))

(* the instruction has no effect at all, not even on pc *)
NoEffect(pc) == Eff(<<>>, pc, <<>>)
ExecD(d, a, b, pc, m, Devs) == IF "Unimplemented" \in Devs THEN NoEffect(pc) ELSE Exec(d, a, b, pc, m, Devs)

=============================================================================
