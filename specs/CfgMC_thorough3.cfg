\* exhaustive design check (thorough): streams of 1..4 unit instructions, n/c/d, <= 4 insertions, 2 links, 1 re-insertion
CONSTANTS
  MinN = 1
  MaxN = 4
  Lens = {1}
  Flags = {"n", "c", "d"}
  MaxIns = 4
  MaxLinks = 2
  MaxRe = 1
  Wide = FALSE
  GenHist = FALSE
  Dev = {}
INIT Init
NEXT Next
INVARIANT Disjoint
INVARIANT Covers
INVARIANT FallThrough
INVARIANT NoRaise
INVARIANT NoOverlay
INVARIANT BlocksAreMaximalRuns
CHECK_DEADLOCK FALSE
