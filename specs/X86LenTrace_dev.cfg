\* C07 self-test: with the seeded fault SibBase5NoDisp the vendored reference table must be rejected
CONSTANTS
  Dev = "SibBase5NoDisp"
  Modes = {32, 64}
  MaxPfx = 0
  PfxSeqs = {}
  Hist = FALSE
INIT TInit
NEXT TNext
CHECK_DEADLOCK FALSE
