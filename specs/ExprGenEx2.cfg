\* exhaustive: every tree with two operator nodes (the second call uses the first result), widths 1..2
CONSTANTS
  Widths = {1, 2}
  MaxSteps = 2
  MaxW = 8
  FreshOnly = TRUE
  Ops = {"bin", "un", "slice", "compose", "ext"}
  Shape <- ShapeAny
  LeafSet = {}
  AutoSimp = TRUE
  MapSpan = 6
  MapSrc = {}
  Rand = FALSE
INIT Init
NEXT Next
CHECK_DEADLOCK FALSE
