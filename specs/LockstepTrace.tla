---------------------------- MODULE LockstepTrace ----------------------------
(***************************************************************************)
(* C02, code -> spec.  Validates traces recorded by harness/c02.py from the *)
(* real ISA semantics of amoco.                                             *)
(*                                                                          *)
(* TRACE_FILE: NDJSON, one case per line                                    *)
(*  [t, isa, noal, mt, en,                                                  *)
(*   regs0 : <<[n, w, v]>>      sigma0: register name, width, 16-bit limbs  *)
(*   mem0  : <<[s, b]>>         sigma0: byte ranges (start < 2^30, bytes)   *)
(*   seq   : mnemonics,                                                     *)
(*   steps : <<[k,              prefix length                               *)
(*              ra, rx, rb, re  "" or the exception a route raised          *)
(*              A, X, B, E      <<[n, w, c, v]>> registers after the prefix *)
(*                              on route A (concrete, step by step), X (the *)
(*                              same with exact concrete memory), B (amoco's*)
(*                              sigma0 >> map), E (map.eval(sigma0));       *)
(*                              c = 1 constant, 0 still symbolic            *)
(*              mA, mX, mB      <<[a, c, v]>> touched memory bytes          *)
(*              acc             symbolic pointer accesses of the map        *)
(*                              <<[z, base, dv, n]>> (no-aliasing cases)    *)
(*              deep, map       <<[loc, val]>> the map as serialised trees  *)
(*             ]>>]                                                         *)
(*                                                                          *)
(* Clauses (first failure of each is kept; the trace is always consumed to  *)
(* its end):                                                                *)
(*  prop  Lockstep      per register / touched byte: B is not a constant or *)
(*                      equals A (A itself a constant)                      *)
(*  prop  LockstepEval  the same for E (registers)                          *)
(*  prop  LockstepExact the same for B against X                            *)
(*  prop  RaiseAgree    a prefix raises on the concrete route iff it raises *)
(*                      on the symbolic route                               *)
(*  prop  GlobalsAgree  the decode-mode globals of the env module (python   *)
(*                      state outside the map: thumb/arm switch, endianness,*)
(*                      IT state) are the same after both routes; later    *)
(*                      prefixes of such a trace are not judged             *)
(*  drift RefEval       Expr!Eval(tree of the map, sigma0), where it is not *)
(*                      Unknown, equals route A                             *)
(* With the no-aliasing assumption on, a prefix is inside the claim only    *)
(* when the accesses of its map through syntactically different pointer     *)
(* bases are pairwise disjoint in sigma0 (Disjoint); otherwise it is counted*)
(* in `outside` and not judged.                                             *)
(***************************************************************************)
EXTENDS Expr, Json, IOUtils

(* the file is parsed once (Init) and kept in a TLC register: a plain definition would be re-evaluated,
   i.e. the file re-parsed, at every reference *)
Traces == TLCGet(7)

VARIABLES tid, k, env, verdict, done
vars == <<tid, k, env, verdict, done>>

T == Traces[tid]

P16 == <<1, 2, 4, 8, 16, 32, 64, 128, 256, 512, 1024, 2048, 4096, 8192, 16384, 32768>>
Limb16(n) == [j \in 1..16 |-> (n \div P16[j]) % 2]
RECURSIVE LimbBits(_, _)
LimbBits(l, i) == IF i > Len(l) THEN <<>> ELSE Limb16(l[i]) \o LimbBits(l, i + 1)
Bits(l, w) == Trunc(LimbBits(l, 1), w)

(* sigma0 as an environment of the reference semantics *)
RegEnv(R) == [n \in {R[i].n : i \in 1..Len(R)} |->
                LET i == CHOOSE j \in 1..Len(R) : R[j].n = n IN Bits(R[i].v, R[i].w)]
RECURSIVE MemEnvR(_, _)
MemEnvR(M, i) == IF i > Len(M) THEN <<>>
                 ELSE [a \in (M[i].s)..(M[i].s + Len(M[i].b) - 1) |-> M[i].b[a - M[i].s + 1]] @@ MemEnvR(M, i + 1)
MemEnv(M) == MemEnvR(M, 1)      \* the ranges are disjoint
EnvOf(t) == [regs |-> RegEnv(t.regs0), mem |-> MemEnv(t.mem0)]

-----------------------------------------------------------------------------
(* Disjoint(sigma0): accesses through different pointer bases do not overlap *)
AccAddr(x) == IF x.base.k = "none" THEN x.dv
              ELSE LET b == Eval(x.base, env, {}) IN
                   IF IsU(b) \/ Len(b) # Len(x.dv) THEN Unknown ELSE Add(b, x.dv)
Below(v, n) == SatNat(v, n) < n
Overlap(a1, n1, a2, n2) == Below(Sub(a2, a1), n1) \/ Below(Sub(a1, a2), n2)
(* "yes" | "no" | "undecided" *)
DisjointAcc(acc) ==
  LET N == Len(acc)
      ad == [i \in 1..N |-> AccAddr(acc[i])]
      pairs == {<<i, j>> \in (1..N) \X (1..N) : i < j /\ acc[i].z # acc[j].z}
  IN IF \E p \in pairs : IsU(ad[p[1]]) \/ IsU(ad[p[2]]) \/ Len(ad[p[1]]) # Len(ad[p[2]]) THEN "undecided"
     ELSE IF \E p \in pairs : Overlap(ad[p[1]], acc[p[1]].n, ad[p[2]], acc[p[2]].n) THEN "no"
     ELSE "yes"

-----------------------------------------------------------------------------
(* first index where both sides are constants and differ; 0 if none; -1 if the lists are not aligned *)
RECURSIVE FirstDiff(_, _, _)
FirstDiff(P, Q, i) ==
  IF Len(P) # Len(Q) THEN -1
  ELSE IF i > Len(P) THEN 0
  ELSE IF P[i].c = 1 /\ Q[i].c = 1 /\ P[i].v # Q[i].v THEN i
  ELSE FirstDiff(P, Q, i + 1)

RECURSIVE CountC(_, _, _)
CountC(P, c, i) == IF i > Len(P) THEN 0 ELSE (IF P[i].c = c THEN 1 ELSE 0) + CountC(P, c, i + 1)
RECURSIVE CountBoth(_, _, _)
CountBoth(P, Q, i) == IF i > Len(P) \/ i > Len(Q) THEN 0
                      ELSE (IF P[i].c = 1 /\ Q[i].c = 1 THEN 1 ELSE 0) + CountBoth(P, Q, i + 1)

Set(v, f, val) == IF v[f] = "ok" THEN [v EXCEPT ![f] = val] ELSE v

(* Named deviation "RshiftDropsStores": with no-aliasing on and memory tracing off the stores of a map live
   only in its memory zones, and sigma0 >> map (rcompose) iterates over the map items only: the byte keeps
   the value it has in sigma0.  A memory difference of exactly that shape is recorded under `dropped`, it
   is not the trace's Lockstep failure (known_findings decides whether the deviation is listed). *)
AddrNatL(a) == IF Len(a) = 1 THEN a[1]
               ELSE IF a[2] < 16384 /\ \A i \in 3..Len(a) : a[i] = 0 THEN a[1] + 65536 * a[2] ELSE -1
Stale(x) == /\ T.noal = 1 /\ T.mt = 0
            /\ LET ad == AddrNatL(x.a) IN ad >= 0 /\ ad \in DOMAIN env.mem /\ env.mem[ad] = x.v
RECURSIVE FirstDiffM(_, _, _, _)
FirstDiffM(P, Q, i, skipstale) ==
  IF Len(P) # Len(Q) THEN -1
  ELSE IF i > Len(P) THEN 0
  ELSE IF P[i].c = 1 /\ Q[i].c = 1 /\ P[i].v # Q[i].v /\ ~(skipstale /\ Stale(Q[i])) THEN i
  ELSE FirstDiffM(P, Q, i + 1, skipstale)
RECURSIVE CountStale(_, _, _)
CountStale(P, Q, i) ==
  IF Len(P) # Len(Q) \/ i > Len(P) THEN 0
  ELSE (IF P[i].c = 1 /\ Q[i].c = 1 /\ P[i].v # Q[i].v /\ Stale(Q[i]) THEN 1 ELSE 0) + CountStale(P, Q, i + 1)

(* compare registers P (reference route) with Q (symbolic route), then memory *)
Cmp(v, f, st, P, Q, mP, mQ, pn, qn) ==
  LET i == FirstDiff(P, Q, 1) IN
  IF i = -1 THEN Set(v, f, ToJson([step |-> st.k, kind |-> "align"]))
  ELSE IF i > 0 THEN Set(v, f, ToJson([step |-> st.k, kind |-> "reg", loc |-> P[i].n, w |-> P[i].w,
                                         ref |-> P[i].v, got |-> Q[i].v, refroute |-> pn, route |-> qn]))
  ELSE LET j == FirstDiffM(mP, mQ, 1, qn = "B") IN
       IF j = -1 THEN Set(v, f, ToJson([step |-> st.k, kind |-> "malign"]))
       ELSE IF j > 0 THEN Set(v, f, ToJson([step |-> st.k, kind |-> "mem", loc |-> mP[j].a, w |-> 8,
                                              ref |-> <<mP[j].v>>, got |-> <<mQ[j].v>>,
                                              refroute |-> pn, route |-> qn]))
       ELSE v

(* reference evaluation of the map's register entries *)
RegObs(P, n) == IF \E i \in 1..Len(P) : P[i].n = n THEN P[CHOOSE i \in 1..Len(P) : P[i].n = n] ELSE [c |-> 0]
RECURSIVE RefDiff(_, _, _)
RefDiff(M, P, i) ==
  IF i > Len(M) THEN 0
  ELSE LET e == M[i] IN
       IF e.loc.k # "reg" THEN RefDiff(M, P, i + 1)
       ELSE LET o == RegObs(P, e.loc.n) IN
            IF o.c # 1 \/ o.w # e.val.w THEN RefDiff(M, P, i + 1)
            ELSE LET r == Eval(e.val, env, {}) IN
                 IF IsU(r) \/ r = Bits(o.v, o.w) THEN RefDiff(M, P, i + 1) ELSE i
RECURSIVE RefCount(_, _, _)
RefCount(M, P, i) ==
  IF i > Len(M) THEN 0
  ELSE LET e == M[i] IN
       (IF e.loc.k = "reg" /\ RegObs(P, e.loc.n).c = 1 /\ ~IsU(Eval(e.val, env, {})) THEN 1 ELSE 0)
       + RefCount(M, P, i + 1)

RaiseKind(s) == s   \* "" | exception name; "build:X" / "apply:X" on the symbolic route
Raised(st) == st.ra # "" \/ st.rb # "" \/ st.rx # ""
IsTimeout(x) == x \in {"RouteTimeout", "build:RouteTimeout", "apply:RouteTimeout", "eval:RouteTimeout", "observe:RouteTimeout"}
DivZero(st) == st.ra = "ZeroDivisionError" \/ st.rx = "ZeroDivisionError"
TimedOut(st) == IsTimeout(st.ra) \/ IsTimeout(st.rb) \/ IsTimeout(st.rx) \/ IsTimeout(st.re)

CheckStep(v, st) ==
  LET inside == IF T.noal = 0 THEN "yes" ELSE IF st.accok = 0 THEN "undecided" ELSE DisjointAcc(st.acc) IN
  IF inside # "yes"
  THEN [v EXCEPT !.outside = @ + (IF inside = "no" THEN 1 ELSE 0), !.undecided = @ + (IF inside = "undecided" THEN 1 ELSE 0)]
  ELSE IF v.globals # "ok"
  THEN [v EXCEPT !.afterglobals = @ + 1]  \* an earlier prefix left the decode-mode globals different on the two routes:
                                          \* what follows is a consequence of that (already recorded) divergence
  ELSE IF "gA" \in DOMAIN st /\ st.gA # st.gB
  THEN Set(v, "globals", ToJson([step |-> st.k, kind |-> "globals", ga |-> st.gA, gb |-> st.gB]))
  ELSE IF TimedOut(st)
  THEN [v EXCEPT !.timeouts = @ + 1]      \* a route exceeded its CPU budget: no value to compare, not a verdict
  ELSE IF DivZero(st)
  THEN [v EXCEPT !.divzero = @ + 1]       \* the concrete route divides by zero: an excluded input (undefined result)
  ELSE IF Raised(st)
  THEN (IF st.ra # "" /\ st.rb # ""
        THEN [v EXCEPT !.bothraise = @ + 1]
        ELSE IF st.ra = "" /\ st.rb = "" THEN v   \* only the exact route differs: not part of the claim
        ELSE Set(v, "raise", ToJson([step |-> st.k, kind |-> "raise", ra |-> st.ra, rb |-> st.rb])))
  ELSE
    LET v1 == Cmp(v, "lock", st, st.A, st.B, st.mA, st.mB, "A", "B")
        v2 == IF st.re = "" THEN Cmp(v1, "evl", st, st.A, st.E, <<>>, <<>>, "A", "E")
              ELSE Set(v1, "raise", ToJson([step |-> st.k, kind |-> "raise", ra |-> "", rb |-> st.re]))
        v3 == IF T.noal = 0 /\ st.rx = "" THEN Cmp(v2, "exact", st, st.X, st.B, st.mX, st.mB, "X", "B") ELSE v2
        v4 == IF st.deep = 1
              THEN LET i == RefDiff(st.map, st.A, 1) IN
                   IF i > 0 THEN Set(v3, "ref", ToJson([step |-> st.k, kind |-> "ref", loc |-> st.map[i].loc.n]))
                   ELSE v3
              ELSE v3
    IN [v4 EXCEPT !.cmp = @ + CountBoth(st.A, st.B, 1) + CountBoth(st.mA, st.mB, 1),
                  !.symB = @ + CountC(st.B, 0, 1) + CountC(st.mB, 0, 1),
                  !.symA = @ + CountC(st.A, 0, 1) + CountC(st.mA, 0, 1),
                  !.refd = @ + (IF st.deep = 1 THEN RefCount(st.map, st.A, 1) ELSE 0),
                  !.dropped = @ + CountStale(st.mA, st.mB, 1),
                  !.judged = @ + 1]

Init == /\ TLCSet(7, ndJsonDeserialize(IOEnv.TRACE_FILE))
        /\ tid \in 1..Len(Traces)
        /\ k = 1
        /\ env = IF "steps" \in DOMAIN Traces[tid] THEN EnvOf(Traces[tid]) ELSE [regs |-> <<>>, mem |-> <<>>]
        /\ verdict = [lock |-> "ok", evl |-> "ok", exact |-> "ok", raise |-> "ok", ref |-> "ok", globals |-> "ok", afterglobals |-> 0,
                      cmp |-> 0, symB |-> 0, symA |-> 0, refd |-> 0, judged |-> 0,
                      outside |-> 0, undecided |-> 0, bothraise |-> 0, dropped |-> 0, timeouts |-> 0, divzero |-> 0]
        /\ done = FALSE

NSteps == IF "steps" \in DOMAIN T THEN Len(T.steps) ELSE 0

Step ==
  /\ ~done /\ k <= NSteps
  /\ k' = k + 1 /\ UNCHANGED <<tid, env, done>>
  /\ verdict' = CheckStep(verdict, T.steps[k])

Finish ==
  /\ ~done /\ k > NSteps
  /\ done' = TRUE
  /\ PrintT(ToJson([t |-> T.t, v |-> verdict]))
  /\ UNCHANGED <<tid, k, env, verdict>>

Next == Step \/ Finish
Spec == Init /\ [][Next]_vars
=============================================================================
