\* C15 M+G (ELF loader): every placement pattern of up to 2 segments, page sizes 16 / 64 / 4096, both classes (BFS);
\* the paging-loader model must leave exactly Image(bytes) in every segment
CONSTANTS
  Dev = ""
  Classes = {32, 64}
  Seeds = {7}
  PageSizes = {16, 64, 4096}
  MaxSeg = 2
  Relations = {"apart", "adjacent", "samepage"}
  Tails = {"none", "inpage", "beyond"}
INIT Init
NEXT Next
INVARIANT Refines
CONSTRAINT Emit
CHECK_DEADLOCK FALSE
