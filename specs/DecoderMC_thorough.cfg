\* design check: no foreign exception possible [all inputs of <= 2 tokens, 3 calls]
CONSTANTS
  Alphabet = {"P", "V", "W", "N", "R", "X"}
  MaxLen = 2
  Classes = {"valid", "invalid", "truncated", "rejecting", "raising", "prefix_only", "prefix_truncated", "prefix_invalid", "prefix_valid", "prefix_raising"}
  MaxCalls = 3
  GenHist = FALSE
  RaiseAfterPrefix = TRUE
  Dev = {}
INIT Init
NEXT Next
INVARIANT NoMemory
INVARIANT FunctionalCalls
INVARIANT ConsumesInv
INVARIANT PrefixDeterminedInv
INVARIANT FunctionalInv
CHECK_DEADLOCK FALSE
