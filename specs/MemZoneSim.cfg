\* behaviour generator (simulation): 8 actions, two maps, two zones, shifts, sizes up to 8
CONSTANTS
  MaxAddr = 11
  Sizes = {1, 2, 3, 4, 8}
  MaxOps = 8
  Zones = {"none", "r"}
  Maps = 2
  Shifts <- ShiftsB
  GenHist = TRUE
  Dev = {}
INIT Init
NEXT Next
CONSTRAINT Emit
CHECK_DEADLOCK FALSE
