\* G: every form of every mnemonic, all addressing modes and register choices
CONSTANTS
  MnSel <- Mnemonics
  Wide = TRUE
INIT Init
NEXT Next
CONSTRAINT Emit
CHECK_DEADLOCK FALSE
