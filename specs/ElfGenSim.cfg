\* C14 G (ELF): random images (-simulate), full structural scope: 0..3 program headers, NULL + 0..4 user sections
\* + section-name table + symbol table with 0..3 symbols, all table orders, padded entry sizes
CONSTANTS
  Dev = ""
  Classes = {32, 64}
  Orders = {"LE", "BE"}
  Seeds <- SeedRange
  MaxPh = 3
  MaxUser = 4
  MaxSym = 3
  Machines = {3, 62, 40, 2, 8, 243}
  Types = {1, 2, 3}
  PTypes = {0, 1, 2, 3, 4, 6, 7, 1685382481}
  Layouts = {1, 2, 3, 4, 5, 6}
  Pads = {0, 8}
  Kinds = {"bits", "nobits", "note", "initarr", "plain"}
  SymChoices = {TRUE, FALSE}
INIT Init
NEXT Next
CONSTRAINT Emit
CHECK_DEADLOCK FALSE
