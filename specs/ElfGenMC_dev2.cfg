\* C14 self-test: a reader that resolves symbol names in the section-name string table must violate RoundTrip
CONSTANTS
  Dev = "SymNameInShstr"
  Classes = {64}
  Orders = {"BE"}
  Seeds = {11}
  MaxPh = 1
  MaxUser = 0
  MaxSym = 1
  Machines = {3}
  Types = {2}
  PTypes = {1}
  Layouts = {1}
  Pads = {0}
  Kinds = {"bits", "nobits"}
  SymChoices = {TRUE}
INIT Init
NEXT Next
INVARIANT RoundTrip
CHECK_DEADLOCK FALSE
