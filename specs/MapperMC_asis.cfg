\* C09: amoco as it is (all quirks) must violate Correct
CONSTANTS
  Ptrs = {"p", "q"}
  Offs = {0, 1}
  Sizes = {1, 2}
  Deltas <- DeltasSmall
  P0 = 4
  Top = 10
  NAs = {FALSE}
  MTs = {TRUE}
  Ens <- EnsBoth
  MInits = {0}
  VKs = {"d"}
  MaxSt = 3
  MaxLd = 0
  MaxLen = 3
  Template <- NoTemplate
  Q <- QAsIs
  Clauses <- AllClauses
  Probe = TRUE
  PvInState = FALSE
  Gen = FALSE
INIT Init
NEXT Next
CHECK_DEADLOCK FALSE
INVARIANTS Correct
