\* M+G (thorough, exhaustive, unions of byte strings and pointers): unions of <= 2 members over P, L, B and the byte
\* strings s / c of 3 and 6 bytes, both pointer sizes (the member a union is packed from depends on the pointer size)
CONSTANTS
  RawT = {"P", "L", "B", "s", "c"}
  ArrN = {3, 6}
  NestN = {}
  Ords = {""}
  DefOrds = {""}
  DefKinds = {"union"}
  MaxF = 2
  MaxIF = 0
  MinF = 1
  MaxDepth = 0
  Feat = {}
  BitSplits <- BitSplitsNone
  PS = {32, 64}
  VCs = {"pat"}
  Stride = 1
  Dev = {}
  Mode = "gen"
INIT Init
NEXT Next
INVARIANT LayoutOK
INVARIANT SizeOK
INVARIANT RoundTrip
INVARIANT Monotone
CONSTRAINT Emit
CHECK_DEADLOCK FALSE
