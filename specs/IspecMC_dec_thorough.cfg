\* M (decode): the decode transcription accepts the documented words and slices the documented bits
CONSTANTS
  Lens = {8, 16, 0}
  Dirs = {"<", ">"}
  MaxDirs = 4
  FieldLens = {1, 3, 4, 7, 9}
  Opts = {"", "#"}
  EqLens = {2}
  ByteVals = {47}
  Stars = TRUE
  Classes = {"core"}
  Styles = {"spaced"}
  Sfx = {"none"}
  Slack = 0
  VarMax = 16
  ModRMs = {8, 2, 5}
  Fill = FALSE
  DupNames = FALSE
  Gen = FALSE
  WordMode = "boundary"
  NRand = 0
  Dev = {}
INIT Init
NEXT Next
INVARIANT DecodeSem
CHECK_DEADLOCK FALSE
