\* C09 finding: amoco's quirk BottomLE ALONE (everything else repaired) must violate Correct:
\* unwritten part of a big-endian read becomes a little-endian mem at the wrong offset
CONSTANTS
  Ptrs = {"p", "q"}
  Offs = {0, 1}
  Sizes = {1, 2}
  Deltas <- DeltasSmall
  P0 = 4
  Top = 10
  NAs = {TRUE}
  MTs = {TRUE}
  Ens <- EnsBE
  MInits = {0}
  VKs = {"d"}
  MaxSt = 3
  MaxLd = 0
  MaxLen = 3
  Template <- NoTemplate
  Q = {"BottomLE"}
  Clauses <- AllClauses
  Probe = TRUE
  PvInState = FALSE
  Gen = FALSE
INIT Init
NEXT Next
CHECK_DEADLOCK FALSE
INVARIANTS Correct
