\* smoke test
CONSTANTS
  Ptrs = {"p", "q"}
  Offs = {0, 1}
  Sizes = {1, 2}
  Deltas <- DeltasSmall
  P0 = 6
  Top = 15
  NAs = {FALSE}
  MTs = {TRUE}
  Ens = {1}
  MInits = {0}
  VKs = {"d"}
  MaxSt = 3
  MaxLd = 0
  MaxLen = 3
  Q <- QAsIs
  Clauses <- AllClauses
  Probe = TRUE
  PvInState = FALSE
  Gen = FALSE
INIT Init
NEXT Next
CHECK_DEADLOCK FALSE
INVARIANTS Correct
