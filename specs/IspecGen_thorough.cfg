\* G (exhaustive): every format of at most 4 directives with LEN 8 / 16 / *, boundary words + 2 seeded words
CONSTANTS
  Lens = {8, 16, 0}
  Dirs = {"<", ">"}
  MaxDirs = 4
  FieldLens = {1, 3, 4, 5, 8, 11, 12}
  Opts = {"", ".", "~", "#"}
  EqLens = {2}
  ByteVals = {47}
  Stars = TRUE
  Classes = {"core"}
  Styles = {"tight"}
  Sfx = {"none"}
  Slack = 0
  VarMax = 16
  ModRMs = {8, 2, 5}
  Fill = FALSE
  DupNames = FALSE
  Gen = TRUE
  WordMode = "boundary"
  NRand = 4
  Dev = {}
INIT Init
NEXT Next
CONSTRAINT EmitC
CHECK_DEADLOCK FALSE
