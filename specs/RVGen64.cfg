\* G: behaviour generator, RV64I, simulation over the full class grid (run with -simulate num=N -depth 8)
CONSTANTS
  XLEN = 64
  NREG = 32
  MEMN = 32
  Dev = {}
  Triples = {}
  MCVals = {}
  ImmSel = "few"
  GPats <- GPatsAll
  GVals <- GValsAll
  GImms <- GImmsAll
  GPcs <- GPcsAll
  GOffs <- GOffsAll
  GEnum = FALSE
INIT GInit
NEXT GNext
CONSTRAINT Emit
CHECK_DEADLOCK FALSE
