------------------------------ MODULE DecTreeOps ------------------------------
(***************************************************************************)
(* C04 - the decoder index (amoco/arch/core.py, disassembler.setup and the *)
(* walk of disassembler.__call__) next to the reference "try every spec in *)
(* most-constrained-first order".  Pure operators shared by DecTree.tla    *)
(* (M, G) and DecTreeTrace.tla (T).                                        *)
(*                                                                         *)
(* A spec is [size, mask, fix, hk, w]: size in bits (a multiple of the unit   *)
(* U; U = 8 for real specs, smaller in the model), mask/fix = SETS of bit  *)
(* positions (TLC integers are 32-bit, real masks reach 168 bits),         *)
(* hk = whether precondition and setup function accept.  A spec table S is *)
(* a sequence (the order specs were found in: ties of the sort keep it).   *)
(* Bit position p of a spec of n units: unit p \div U of the fetched word, *)
(* the word being the first n input units, little-endian (E = 1) or        *)
(* reversed first (E = -1), exactly as ispec.decode reads it.              *)
(*                                                                         *)
(* P = [E, maxlen (units), leafmax (5 in amoco), U].                       *)
(***************************************************************************)
EXTENDS Integers, Sequences, FiniteSets

P2x == <<1, 2, 4, 8, 16, 32, 64, 128, 256>>
UBit(v, t) == (v \div P2x[t + 1]) % 2
ToSet(s) == {s[i] : i \in DOMAIN s}
Shift(x, d) == {p + d : p \in x}

HW(s) == s.w          \* mask weight, = Cardinality(s.mask) (computed once when the table is made)
WithW(s) == [size |-> s.size, mask |-> s.mask, fix |-> s.fix, hk |-> s.hk, w |-> Cardinality(s.mask)]

(* stable sort of an index list by mask weight, descending: ispecs.sort(key=hw, reverse=True).   *)
(* Written as a bucket pass per weight (TLC evaluates it in |weights| x |l| steps); ListSortDef is *)
(* the defining formulation, DecTree.tla checks that both agree on every model table.              *)
RECURSIVE Buckets(_, _, _)
Buckets(S, l, ws) ==      \* ws: the distinct weights, as a descending sequence
  IF ws = <<>> THEN <<>>
  ELSE LET T(i) == HW(S[i]) = ws[1] IN SelectSeq(l, T) \o Buckets(S, l, Tail(ws))
RECURSIVE DescSeq(_)
DescSeq(X) == IF X = {} THEN <<>> ELSE LET m == CHOOSE m \in X : \A y \in X : y <= m IN <<m>> \o DescSeq(X \ {m})
ListSort(S, l) == Buckets(S, l, DescSeq({HW(S[l[k]]) : k \in 1..Len(l)}))
ListSortDef(S, l) ==
  LET n  == Len(l)
      rk == [k \in 1..n |-> Cardinality({m \in 1..n : HW(S[l[m]]) > HW(S[l[k]]) \/ (HW(S[l[m]]) = HW(S[l[k]]) /\ m < k)}) + 1]
  IN [r \in 1..n |-> l[CHOOSE k \in 1..n : rk[k] = r]]
(* the reference order over the table as found *)
Before(S, i, j) == HW(S[i]) > HW(S[j]) \/ (HW(S[i]) = HW(S[j]) /\ i < j)
Rank(S, i) == Cardinality({j \in 1..Len(S) : Before(S, j, i)}) + 1
AllSorted(S) == ListSort(S, [i \in 1..Len(S) |-> i])

(* ------------------------------------------------------------------------ *)
(* what a spec accepts (ispec.decode: length check, fetch order, mask test)  *)
Ones(bytes, n, E, U) ==
  UNION {{U * (IF E = 1 THEN j - 1 ELSE n - j) + t : t \in {u \in 0..(U - 1) : UBit(bytes[j], u) = 1}} : j \in 1..n}
Matches(s, bytes, P) ==
  LET n == s.size \div P.U IN
  /\ Len(bytes) >= n
  /\ Ones(bytes, n, P.E, P.U) \cap s.mask = s.fix
Accepts(s, bytes, P) == Matches(s, bytes, P) /\ s.hk

(* the reference: first accepting spec in most-constrained-first order, 0 if none *)
RECURSIVE FirstIn(_, _, _, _)
FirstIn(S, l, bytes, P) == IF l = <<>> THEN 0
                           ELSE IF Accepts(S[l[1]], bytes, P) THEN l[1] ELSE FirstIn(S, Tail(l), bytes, P)
Scan(S, bytes, P) == FirstIn(S, AllSorted(S), bytes, P)

(* ------------------------------------------------------------------------ *)
(* disassembler.setup, transcribed.  Dev names a seeded fault (self-test).   *)
Adj(x, s, P) == IF P.E = -1 THEN Shift(x, P.maxlen * P.U - s.size) ELSE x

Leaf(l)      == [leaf |-> TRUE, f |-> {}, specs |-> l, kids |-> <<>>]
Node(f, kid) == [leaf |-> FALSE, f |-> f, specs |-> <<>>, kids |-> kid]

RECURSIVE InterAll(_, _, _)
InterAll(S, l, P) == IF Len(l) = 1 THEN Adj(S[l[1]].mask, S[l[1]], P)
                     ELSE Adj(S[l[1]].mask, S[l[1]], P) \cap InterAll(S, Tail(l), P)

RECURSIVE Build(_, _, _, _)
Build(S, l0, P, Dev) ==
  LET l == IF "NoSort" \in Dev THEN l0 ELSE ListSort(S, l0)
  IN IF Len(l) < P.leafmax THEN Leaf(l)
     ELSE
     LET adj(x, s) == IF "NoAdjustInSetup" \in Dev THEN x ELSE Adj(x, s, P)
         lm == IF "NoAdjustInSetup" \in Dev
               THEN LET Q == [P EXCEPT !.E = 1] IN InterAll(S, l, Q) ELSE InterAll(S, l, P)
     IN IF lm = {} THEN Leaf(l)
        ELSE LET ks   == [k \in 1..Len(l) |-> adj(S[l[k]].fix, S[l[k]]) \cap lm]      \* l[adjust(s.fix) & f].append(s)
                 keys == {ks[k] : k \in 1..Len(l)}
                 Class(x) == LET idx == SelectSeq([k \in 1..Len(l) |-> k], LAMBDA k : ks[k] = x)
                             IN [j \in 1..Len(idx) |-> l[idx[j]]]
             IN IF Cardinality(keys) = 1 THEN Leaf(l)
                ELSE Node(lm, [x \in keys |->
                        IF "DropLastOfBigClass" \in Dev /\ Len(Class(x)) >= P.leafmax
                        THEN Build(S, SubSeq(Class(x), 1, Len(Class(x)) - 1), P, Dev)
                        ELSE Build(S, Class(x), P, Dev)])

(* disassembler.__call__: key from the first maxlen units, walk, leaf scan   *)
KeyOf(bytes, P) ==
  LET n == IF Len(bytes) < P.maxlen THEN Len(bytes) ELSE P.maxlen
  IN IF P.E = 1 THEN Ones(bytes, n, 1, P.U)
     ELSE Shift(Ones(bytes, n, -1, P.U), P.maxlen * P.U - n * P.U)     \* Bits(bs) has n units: adjust shifts it up

RECURSIVE Walk(_, _, _, _, _)
Walk(S, T, b, bytes, P) ==
  IF T.leaf THEN FirstIn(S, T.specs, bytes, P)
  ELSE LET k == b \cap T.f IN
       IF k \in DOMAIN T.kids THEN Walk(S, T.kids[k], b, bytes, P) ELSE 0
Lookup(S, T, bytes, P) == Walk(S, T, KeyOf(bytes, P), bytes, P)

(* ------------------------------------------------------------------------ *)
(* structural meaning of "the tree is only an index"                         *)
RECURSIVE LeavesOf(_, _)
LeavesOf(T, path) ==      \* set of [path, specs]; path = sequence of <<f, x>>
  IF T.leaf THEN {[path |-> path, specs |-> T.specs]}
  ELSE UNION {LeavesOf(T.kids[x], Append(path, <<T.f, x>>)) : x \in DOMAIN T.kids}

(* every spec in a leaf satisfies every test on the way: words it matches are routed to it *)
Routed(S, lf, P) ==
  \A k \in 1..Len(lf.specs) : \A e \in 1..Len(lf.path) :
     LET s == S[lf.specs[k]]  f == lf.path[e][1]  x == lf.path[e][2]
     IN f \subseteq Adj(s.mask, s, P) /\ (Adj(s.fix, s, P) \cap f) = x
RoutingL(S, L, P) == \A lf \in L : Routed(S, lf, P)
Routing(S, T, P) == RoutingL(S, LeavesOf(T, <<>>), P)

(* no spec is lost or duplicated *)
RECURSIVE ConcatSpecs(_)
ConcatSpecs(L) == IF L = {} THEN <<>> ELSE LET lf == CHOOSE lf \in L : TRUE IN lf.specs \o ConcatSpecs(L \ {lf})
RECURSIVE SumLens(_)
SumLens(L) == IF L = {} THEN 0 ELSE LET lf == CHOOSE lf \in L : TRUE IN Len(lf.specs) + SumLens(L \ {lf})
PartitionL(S, L) ==
  LET ids == UNION {ToSet(lf.specs) : lf \in L} IN
  /\ ids = 1..Len(S)                                  \* every spec is in some leaf, nothing else is
  /\ SumLens(L) = Len(S)                              \* ... exactly once
  /\ Cardinality(L) >= 1
PartitionAll(S, T) == PartitionL(S, LeavesOf(T, <<>>))

(* two specs that can both match some (long enough) input *)
Overlap(a, b, P) == (Adj(a.fix, a, P) \cap Adj(b.mask, b, P)) = (Adj(b.fix, b, P) \cap Adj(a.mask, a, P))

(* leaf order: no spec comes before a strictly more constrained one it overlaps with (property);  *)
(* exactly the stable order (model-shaped, drift)                                                 *)
LeafOrderWL(S, L, P) == \A lf \in L : \A k, m \in 1..Len(lf.specs) :
                          (k < m /\ HW(S[lf.specs[k]]) < HW(S[lf.specs[m]])) => ~Overlap(S[lf.specs[k]], S[lf.specs[m]], P)
LeafOrderW(S, T, P) == LeafOrderWL(S, LeavesOf(T, <<>>), P)
LeafOrderStableL(S, L) == \A lf \in L : \A k \in 1..(Len(lf.specs) - 1) : Before(S, lf.specs[k], lf.specs[k + 1])
LeafOrderStable(S, T) == LeafOrderStableL(S, LeavesOf(T, <<>>))
=============================================================================
