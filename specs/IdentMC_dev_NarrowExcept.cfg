\* self-test: the seeded fault NarrowExcept must be rejected (INVARIANT InvTotal)
CONSTANTS
  Dev = {"NarrowExcept"}
  Mode = "mc"
SPECIFICATION Spec
INVARIANT InvTotal
CHECK_DEADLOCK FALSE
