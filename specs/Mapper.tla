------------------------------- MODULE Mapper -------------------------------
(***************************************************************************)
(* C09 - the state machine over specs/MapperOps.tla.                        *)
(*                                                                          *)
(* A state is a configuration (noaliasing, memtrace, endianness, whether    *)
(* the concrete start state holds its initial memory) and a program: a      *)
(* sequence of micro-operations                                             *)
(*   store n bytes of a fresh data symbol / a constant / a loaded register  *)
(*         through pointer+off;   load n bytes through pointer+off.         *)
(* Two machines run over the program (both recomputed from it): the         *)
(* transcribed mapper with quirk set Q, and the byte-level sequential       *)
(* machine. The invariant Correct quantifies over EVERY assignment of the   *)
(* pointer registers - equal, overlapping by any number of bytes, adjacent, *)
(* disjoint (pointer "p" is fixed at P0, the others range over P0 + Deltas: *)
(* only relative positions matter) - and, besides the loads that are part   *)
(* of the program, over every load that could come next (Probes):           *)
(*   SymLoads / SymMemory   the symbolic map, read in s0 with the reference *)
(*                          meaning (mods replayed), gives the loaded       *)
(*                          values / the final memory of the byte machine   *)
(*   InstLoads / InstMemory the same after amoco's own instantiation        *)
(*                          c >> m (transcribed use/rcompose/mem.eval)      *)
(* Under noaliasing only for assignments in which the ranges accessed       *)
(* through different pointers are disjoint. Byte values are opaque tags     *)
(* (<<symbol, k>> and <<"m", address>>), so any mix-up of bytes is visible. *)
(* In the generator configs (PvInState) the assignment is chosen in Init    *)
(* and travels with the behaviour.                                          *)
(***************************************************************************)
EXTENDS MapperOps

CONSTANTS Ptrs,      \* pointer registers; "p" is one of them
          Offs,      \* offsets usable with every pointer
          Sizes,     \* access sizes in bytes
          Deltas,    \* value of the other pointers relative to "p"
          P0, Top,   \* value of "p"; memory is 0..Top
          NAs, MTs, Ens, MInits,   \* configurations
          VKs,       \* kinds of stored values: "d" data register, "c" constant, "r" loaded register
          MaxSt, MaxLd, MaxLen,
          Template,  \* <<>> or the sequence of operation kinds a program must follow:
                     \* "ld" load, "sd" store of a data register / constant, "sr" store of a LOADED register
          Q,         \* quirk set of the transcribed mapper (AsIs = amoco as it is, {} = repaired)
          Clauses,   \* the clauses the invariant enforces
          Probe,     \* TRUE: the invariant also covers every possible next load
          PvInState, \* TRUE: the pointer assignment is part of the state (generator configs)
          Gen        \* TRUE: print complete behaviours (generator configs)

DeltasTiny  == -2..2
DeltasSmall == -3..3      \* cfg files cannot contain negative numbers
DeltasMid   == -6..6
DeltasWide  == -9..9
OffsNeg     == -2..3
EnsLE       == {1}
EnsBE       == {-1}
EnsBoth     == {1, -1}
NoTemplate  == <<>>
(* a value loaded BEFORE a store is stored through another pointer and read back after a further store: *)
(* its mods must be replayed with values taken in the INPUT state, not in the state being rebuilt      *)
Reload      == <<"ld", "sd", "sr", "sd", "ld">>
QAsIs       == AsIs
AllClauses  == {"SymLoads", "SymMemory", "InstLoads", "InstMemory"}
SymClauses  == {"SymLoads", "SymMemory"}

VARIABLES cf, pv, prog
vars == <<cf, pv, prog>>

DN == <<"d1", "d2", "d3", "d4", "d5", "d6", "d7", "d8">>
RN == <<"r1", "r2", "r3", "r4", "r5", "r6", "r7", "r8">>
MaxSize == MaxS(Sizes)
PVs  == {f \in [Ptrs -> {P0 + d : d \in Deltas} \cup {P0}] : f["p"] = P0}
DV0  == [r \in {DN[i] : i \in 1..Len(DN)} |-> [k \in 1..MaxSize |-> <<r, k - 1>>]]     \* constants: evaluated once
IM0  == [a \in 0..Top |-> <<"m", a>>]
IMA0 == [i \in 1..(Top + 1) |-> i - 1]
S0(f) == [pv |-> f, minit |-> cf.mi, dv |-> DV0, im |-> IM0, ima |-> IMA0, regs |-> <<"p", "q", "d1", "d2">>]

NSt == Cardinality({i \in 1..Len(prog) : prog[i].o = "st"})
NLd == Len(prog) - NSt

Init == /\ cf \in [na : NAs, mt : MTs, en : Ens, mi : MInits]
        /\ pv \in (IF PvInState THEN PVs ELSE {<<>>})
        /\ prog = <<>>

LoadedOfSize(n) == {i \in 1..Len(prog) : prog[i].o = "ld" /\ prog[i].n = n}

Kind(k) == Template = <<>> \/ (Len(prog) < Len(Template) /\ Template[Len(prog) + 1] = k)
Store(p, off, n) ==
  /\ NSt < MaxSt
  /\ \/ \E vk \in VKs \ {"r"} : Kind("sd") /\ prog' = Append(prog, [o |-> "st", p |-> p, off |-> off, n |-> n, vk |-> vk, src |-> DN[NSt + 1]])
     \/ /\ "r" \in VKs /\ Kind("sr")
        /\ \E i \in LoadedOfSize(n) : prog' = Append(prog, [o |-> "st", p |-> p, off |-> off, n |-> n, vk |-> "r", src |-> prog[i].dst])

Load(p, off, n) ==
  /\ NLd < MaxLd /\ Kind("ld")
  /\ prog' = Append(prog, [o |-> "ld", p |-> p, off |-> off, n |-> n, dst |-> RN[NLd + 1]])

Next == /\ Len(prog) < MaxLen
        /\ \E p \in Ptrs, off \in Offs, n \in Sizes :
              /\ (prog = <<>> => p = "p")                 \* the pointers are interchangeable
              /\ (Store(p, off, n) \/ Load(p, off, n))
        /\ UNCHANGED <<cf, pv>>

Spec == Init /\ [][Next]_vars

-----------------------------------------------------------------------------
Recorded == cf.mt \/ ~cf.na          \* memory writes are kept as map items (mapper.py:280)
ProbeOps == IF Probe THEN {[o |-> "ld", p |-> p, off |-> off, n |-> n, dst |-> "probe"] : p \in Ptrs, off \in Offs, n \in Sizes}
            ELSE {}

(* first failing <<clause, pointer assignment, probe>>, <<>> if none. Everything that does *)
(* not depend on the pointer assignment is computed once per state.                       *)
Verdict ==
  LET m   == SymRun(EmptyMs, prog, Q, cf)
      um  == Use(m, Q, cf)
      pvl == [pr \in ProbeOps |-> LoadValU(m, um, MLoc(SymB(pr.p), pr.off), pr.n, Q, cf)]   \* m(mem(..)) for every probe
      c0  == BuildC(S0(<<>>), Q, cf)
      cu  == [c |-> c0, u |-> Use(c0, Q, cf)]
      inst == Clauses \cap {"InstLoads", "InstMemory"} # {}
      Bad(f) ==
        LET s0 == S0(f) IN
        IF cf.na /\ ~Disjoint(prog, s0) THEN <<>>
        ELSE LET c  == ConcRun(Conc0(s0), prog, s0, cf.en)
                 rs == DOMAIN c.regs
                 mm == ComposeR(cu.u, m.map, cu, s0, Q, cf)
                 okp(pr) == ~cf.na \/ Disjoint(Append(prog, pr), s0)
                 exp(pr) == RdBytes(c.mem, f[pr.p] + pr.off, pr.n, cf.en)
             IN IF "SymLoads" \in Clauses /\ \E r \in rs : RefVal(RegVal(m, r), s0) # c.regs[r] THEN <<"SymLoads", f>>
                ELSE IF "SymLoads" \in Clauses /\ \E pr \in ProbeOps : okp(pr) /\ RefVal(pvl[pr], s0) # exp(pr)
                     THEN <<"SymLoads", f, CHOOSE pr \in ProbeOps : okp(pr) /\ RefVal(pvl[pr], s0) # exp(pr)>>
                ELSE IF "SymMemory" \in Clauses /\ Recorded /\ RefFinal(m, s0, cf.en) # c.mem THEN <<"SymMemory", f>>
                ELSE IF "InstLoads" \in Clauses /\ \E r \in rs : RefVal(RegVal(mm, r), s0) # c.regs[r] THEN <<"InstLoads", f>>
                ELSE IF "InstLoads" \in Clauses /\ \E pr \in ProbeOps : okp(pr) /\ RefVal(EvalVal(pvl[pr], cu, s0, Q, cf), s0) # exp(pr)
                     THEN <<"InstLoads", f, CHOOSE pr \in ProbeOps : okp(pr) /\ RefVal(EvalVal(pvl[pr], cu, s0, Q, cf), s0) # exp(pr)>>
                ELSE IF "InstMemory" \in Clauses /\ Recorded /\ ZoneFinal(mm, s0) # c.mem THEN <<"InstMemory", f>>
                ELSE <<>>
      fs == IF PvInState THEN {pv} ELSE PVs
  IN IF \A f \in fs : Bad(f) = <<>> THEN <<>> ELSE Bad(CHOOSE f \in fs : Bad(f) # <<>>)

Correct == LET v == Verdict IN IF v = <<>> THEN TRUE ELSE PrintT(<<"VIOLATED", v>>) /\ FALSE

(* generator: one line per complete behaviour                               *)
Emit == (Gen /\ Len(prog) = MaxLen) =>
          PrintT(ToJson([cf |-> [na |-> IF cf.na THEN 1 ELSE 0, mt |-> IF cf.mt THEN 1 ELSE 0, en |-> cf.en, mi |-> cf.mi],
                         pv |-> pv, prog |-> prog]))
=============================================================================
