\* self-test: the seeded fault CoffFirst must be rejected (INVARIANT InvNoMisclaim)
CONSTANTS
  Dev = {"CoffFirst"}
  Mode = "mc"
SPECIFICATION Spec
INVARIANT InvNoMisclaim
CHECK_DEADLOCK FALSE
