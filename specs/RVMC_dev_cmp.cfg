\* M, seeded fault SignedCmpAsUnsigned: TLC must reject it
CONSTANTS
  XLEN = 8
  NREG = 4
  MEMN = 16
  Dev = {"SignedCmpAsUnsigned"}
  Triples <- TriplesQuick
  MCVals <- ValsQuick
  ImmSel = "few"
  GPats = {}
  GVals = {}
  GImms = {}
  GPcs = {}
  GOffs = {}
  GEnum = TRUE
INIT Init
NEXT Next
CONSTRAINT OneStep
INVARIANTS IntSem X0Zero Typed RegFrame MemFrame RoundTrip
CHECK_DEADLOCK FALSE
