\* T: validation of recorded chains (no seeded fault: the design)
CONSTANTS
  Dev = {}
  Mode = "mc"
INIT TInit
NEXT TNext
CHECK_DEADLOCK FALSE
