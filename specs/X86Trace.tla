------------------------------ MODULE X86Trace ------------------------------
(***************************************************************************)
(* C06, x86 part: validation of recorded executions against X86!SpecStep.   *)
(*                                                                          *)
(* TRACE_FILE: NDJSON, one vector per line                                  *)
(*   [t   |-> id,  f |-> form (X86.tla),  len |-> instruction length,       *)
(*    pre |-> [r |-> <<16 x 4 limbs>>, fl |-> [cf pf af zf sf of df],       *)
(*             mem |-> <<MEMN bytes>>],                                     *)
(*    cpu |-> the PROCESSOR's result (harness/x86run.c, corpus/x86cpu):     *)
(*            [sig |-> 0 | signal, r, fl, mem, rip |-> next rip - start],   *)
(*    ams |-> << amoco results >>, each                                     *)
(*            [mode |-> "x64" | "x86", dec |-> 0|1, raised |-> "" | text,   *)
(*             r   |-> per register <<4 limbs>> (constant),                 *)
(*                     <<4 value limbs, 4 mask limbs>> (known bits only),   *)
(*                     <<>> (unknown: top / symbolic),                      *)
(*             fl  |-> per flag 0 | 1 | -1 (unknown),                       *)
(*             mem |-> per byte 0..255 | -1 (unknown),                      *)
(*             rip |-> next rip - start, or -1 if not a constant,           *)
(*             out |-> number of bytes written outside the scratch area]]   *)
(*                                                                          *)
(* Clause (i), binding of the specification to the processor:               *)
(*   SpecStep(pre, f, len) = cpu on all 16 registers (except those the      *)
(*   architecture leaves undefined), all scratch bytes, rip, the direction  *)
(*   flag and the DEFINED status flags; a divide error in the specification *)
(*   iff the processor raised SIGFPE.  `sc' names the first disagreement    *)
(*   ("" if none): a non-empty sc means the oracle is broken (exit 2).      *)
(* Clause (ii), the property: amoco = cpu on the same outputs.  x64: all    *)
(*   64 bits; x86 (the same bytes decoded by cpu_x86): the low 32 bits of   *)
(*   the eight legacy registers.  Unknown values on amoco's side satisfy    *)
(*   the clause (listed in `unk').  `bad' lists EVERY deviating output:     *)
(*   "raised" | "rip" | "mem" | "out" | register name | flag name.          *)
(* Because sc = "" for the vector, every entry of `bad' is a disagreement   *)
(* with both the processor and the specification: amoco is the side that    *)
(* is wrong.  Vectors whose pre-state makes an access leave the scratch     *)
(* area are rejected (skip = "outside").                                    *)
(***************************************************************************)
EXTENDS X86, Json, IOUtils

Traces == ndJsonDeserialize(IOEnv.TRACE_FILE)

(* the vector itself is the state: the trace file is read while the initial states are computed, never again *)
VARIABLES tr, done
vars == <<tr, done>>

RegNames == R64
FlagOrder == <<"cf", "pf", "af", "zf", "sf", "of", "df">>
SIGFPE == 8

(* spec vs processor *)
SpecCpu(v, S) ==
  LET c == v.cpu IN
  IF S.fault # "" THEN (IF c.sig = SIGFPE THEN "" ELSE "fault:spec=" \o S.fault)
  ELSE IF c.sig # 0 THEN "fault:cpu=" \o ToString(c.sig)
  ELSE IF c.rip # S.rip THEN "rip"
  ELSE IF \E i \in 1..16 : (i - 1) \notin S.ur /\ c.r[i] # S.r[i]
       THEN "reg:" \o RegNames[CHOOSE i \in 1..16 : (i - 1) \notin S.ur /\ c.r[i] # S.r[i]]
  ELSE IF c.mem # S.mem THEN "mem"
  ELSE IF \E n \in DOMAIN S.fl : n \notin S.undef /\ c.fl[n] # S.fl[n]
       THEN "flag:" \o (CHOOSE n \in DOMAIN S.fl : n \notin S.undef /\ c.fl[n] # S.fl[n])
  ELSE ""

(* amoco vs processor; returns [bad |-> set of names, unk |-> set of names] *)
Mask32(l) == <<l[1], l[2]>>
RegCmp(a, c, mode) ==     \* "eq" | "ne" | "unk";  x86: only the low 32 bits are compared
  IF Len(a) = 0 THEN "unk"
  ELSE IF Len(a) = 4 THEN (IF (IF mode = "x86" THEN Mask32(a) = Mask32(c) ELSE a = c) THEN "eq" ELSE "ne")
  ELSE LET w == IF mode = "x86" THEN 32 ELSE 64
           val == Trunc(FromLimbs(<<a[1], a[2], a[3], a[4]>>, 64), w)
           msk == Trunc(FromLimbs(<<a[5], a[6], a[7], a[8]>>, 64), w)
       IN \* partly known: the known bits must agree; the register as a whole counts as unknown
          IF And(Trunc(FromLimbs(c, 64), w), msk) = val THEN "unk" ELSE "ne"
AmCpu(v, a, S) ==
  LET c == v.cpu
      regs == IF a.mode = "x86" THEN 1..8 ELSE 1..16
      rb == {RegNames[i] : i \in {j \in regs : (j - 1) \notin S.ur /\ RegCmp(a.r[j], c.r[j], a.mode) = "ne"}}
      ru == {RegNames[i] : i \in {j \in regs : (j - 1) \notin S.ur /\ RegCmp(a.r[j], c.r[j], a.mode) = "unk"}}
      fnames == {n \in DOMAIN c.fl : n \notin S.undef}
      fb == {n \in fnames : a.fl[n] >= 0 /\ a.fl[n] # c.fl[n]}
      fu == {n \in fnames : a.fl[n] < 0}
      mb == IF \E k \in 1..Len(c.mem) : a.mem[k] >= 0 /\ a.mem[k] # c.mem[k] THEN {"mem"} ELSE {}
      mu == IF \E k \in 1..Len(c.mem) : a.mem[k] < 0 THEN {"mem"} ELSE {}
      pb == IF a.rip >= 0 /\ a.rip # c.rip THEN {"rip"} ELSE {}
      pu == IF a.rip < 0 THEN {"rip"} ELSE {}
      ob == IF a.out > 0 THEN {"out"} ELSE {}
  IN IF a.raised # "" THEN [bad |-> {"raised"}, unk |-> {}]
     ELSE [bad |-> rb \cup fb \cup mb \cup pb \cup ob, unk |-> ru \cup fu \cup mu \cup pu]

Judge(v) ==
  LET s == v.pre  f == v.f IN
  IF ~Inside(s, f) THEN [t |-> v.t, skip |-> "outside", sc |-> "", am |-> <<>>]
  ELSE LET S == SpecStep(s, f, v.len, IF v.cpu.sig = 0 THEN <<FromLimbs(v.cpu.r[1], 64), FromLimbs(v.cpu.r[3], 64)>> ELSE <<>>)
           sc == IF S.fault = "UNDEF" THEN "" ELSE SpecCpu(v, S)
       IN IF S.fault = "UNDEF" THEN [t |-> v.t, skip |-> "undefined", sc |-> "", am |-> <<>>]
          ELSE IF sc # "" THEN [t |-> v.t, skip |-> "", sc |-> sc, am |-> <<>>]
          ELSE IF v.cpu.sig # 0 THEN [t |-> v.t, skip |-> "fault", sc |-> "", am |-> <<>>]
          ELSE [t |-> v.t, skip |-> "", sc |-> "",
                am |-> [i \in 1..Len(v.ams) |->
                          IF v.ams[i].dec = 0 THEN [mode |-> v.ams[i].mode, undec |-> 1, bad |-> {}, unk |-> {}]
                          ELSE LET r == AmCpu(v, v.ams[i], S) IN
                               [mode |-> v.ams[i].mode, undec |-> 0, bad |-> r.bad, unk |-> r.unk]],
                und |-> S.undef]

Init == LET T == Traces IN tr \in {T[i] : i \in 1..Len(T)} /\ done = FALSE
Next == /\ ~done /\ done' = TRUE /\ UNCHANGED tr
        /\ PrintT(ToJson(Judge(tr)))
Spec == Init /\ [][Next]_vars
=============================================================================
