---------------------------- MODULE DecoderTrace ----------------------------
(***************************************************************************)
(* C05 / C11 / C17, code -> spec: traces recorded from amoco's real         *)
(* disassembler objects are judged by the definitions of DecoderObs.tla.    *)
(*                                                                          *)
(* TRACE_FILE is NDJSON, one trace per line: [t, kind, m, maxlen, ev]       *)
(*                                                                          *)
(* kind "c05"  a CALL FAMILY on one mode: ev[l] = [in, out]; the history     *)
(*             grows by one observation per line and Consumes /             *)
(*             PrefixDetermined (with its named special case                *)
(*             TruncatedAccepted) / Window / Functional are evaluated       *)
(*             between the new observation and every earlier one.           *)
(* kind "c11"  a CALL HISTORY on ONE disassembler object:                   *)
(*             ev[l] = [in, out, pend, base(, xleak)] where out is what the *)
(*             object with that history returned, base what a fresh object  *)
(*             in a fresh process returned for the same input, pend = 1 iff *)
(*             the instance variable __i was not None at return.            *)
(*             NoMemory: out = base.  The model of Decoder.tla has exactly  *)
(*             one way to violate it, the action HookRaises (a foreign      *)
(*             exception propagates and leaves __i set): a mismatch that    *)
(*             follows such a call is attributed to Dev_HookRaises; one     *)
(*             whose only difference is the `sf` flag of shared register    *)
(*             objects to Dev_SharedRegSf; any other mismatch is NoMemory.  *)
(* kind "c17"  the LIFE of one input: ev = decode, then for an instruction  *)
(*             render/toks per syntax, pickle (fp0/fp1 fingerprints and,    *)
(*             where recorded, tx0/tx1 renderings of original and copy),    *)
(*             apply.  Every event must be                                  *)
(*             in the total outcome type; a "raised" event is not.          *)
(*                                                                          *)
(* Verdicts are total: every failing <<line, clause>> of a trace is         *)
(* reported (capped), one JSON line per trace.                              *)
(***************************************************************************)
EXTENDS DecoderObs, TLC, Json, IOUtils

Traces == ndJsonDeserialize(IOEnv.TRACE_FILE)

VARIABLES tid, done
vars == <<tid, done>>

F(l, c) == [line |-> l, clause |-> c, with |-> 0]
Cap == 12

-----------------------------------------------------------------------------
(* C05: observation l against every earlier observation j of the family.    *)
(* Calls that raised are C17's subject and do not enter the history.         *)
Ob(tr, l) == [m |-> tr.m, in |-> tr.ev[l].in, out |-> tr.ev[l].out]
FP(l, c, j) == [line |-> l, clause |-> c, with |-> j]

C05Pair(tr, l, j) ==
  LET x == Ob(tr, l) y == Ob(tr, j) IN
  IF IsRaised(y.out) THEN <<>>
  ELSE (IF TruncatedAccepted(x, y) \/ TruncatedAccepted(y, x) THEN <<FP(l, "TruncatedAccepted", j)>>
        ELSE IF PDPair(x, y) /\ PDPair(y, x) THEN <<>> ELSE <<FP(l, "PrefixDetermined", j)>>)
       \o (IF WindowPair(x, y, tr.maxlen) /\ WindowPair(y, x, tr.maxlen) THEN <<>> ELSE <<FP(l, "Window", j)>>)
       \o (IF FunctionalPair(x, y) THEN <<>> ELSE <<FP(l, "Functional", j)>>)

RECURSIVE C05Pairs(_, _, _)
C05Pairs(tr, l, j) == IF j >= l THEN <<>> ELSE C05Pair(tr, l, j) \o C05Pairs(tr, l, j + 1)

C05Line(tr, l) ==
  IF IsRaised(tr.ev[l].out) THEN <<>>
  ELSE (IF ConsumesAt(Ob(tr, l)) THEN <<>> ELSE <<FP(l, "Consumes", l)>>) \o C05Pairs(tr, l, 1)

RECURSIVE C05Run(_, _, _)
C05Run(tr, l, fails) ==
  IF l > Len(tr.ev) THEN fails ELSE C05Run(tr, l + 1, fails \o C05Line(tr, l))

-----------------------------------------------------------------------------
(* C11: mp = the model's pending flag (TRUE after a call in which HookRaises fired) *)
C11Line(tr, mp, l) ==
  LET e == tr.ev[l]
      same == e.out = e.base
      c1 == IF same THEN <<>>
            ELSE IF mp THEN <<F(l, "Dev_HookRaises")>>
            ELSE IF DiffersOnlyInSf(e.out, e.base) THEN <<F(l, "Dev_SharedRegSf")>>
            ELSE <<F(l, "NoMemory")>>
      c2 == IF e.pend = 1 /\ ~IsRaised(e.out) THEN <<F(l, "drift:PendingAtReturn")>> ELSE <<>>
      c3 == IF "xleak" \in DOMAIN e /\ ((e.xleak = 1) # (~same))
            THEN <<F(l, "drift:ModelPredictsOtherwise")>> ELSE <<>>
  IN c1 \o c2 \o c3

RECURSIVE C11Run(_, _, _, _)
C11Run(tr, mp, l, fails) ==
  IF l > Len(tr.ev) THEN fails
  ELSE LET e == tr.ev[l] IN
       C11Run(tr, IsRaised(e.out) /\ e.pend = 1, l + 1, fails \o C11Line(tr, mp, l))

-----------------------------------------------------------------------------
(* C17 *)
C17Line(tr, l) ==
  LET e == tr.ev[l] IN
  IF IsRaised(e) THEN <<F(l, "Raised")>>
  ELSE CASE e.st = "decode" ->
              IF e.k \notin DecodeOutcomes THEN <<F(l, "DecodeOutcome")>>
              ELSE IF e.k = "none" THEN <<>>
              ELSE (IF HasMnemonic(e) THEN <<>> ELSE <<F(l, "Mnemonic")>>)
                   \o (IF HasType(e) THEN <<>> ELSE <<F(l, "Type")>>)
                   \o (IF HasLength(e) THEN <<>> ELSE <<F(l, "Length")>>)
                   \o (IF ExprOperands(e) THEN <<>> ELSE <<F(l, "Operands")>>)
         [] e.st = "render" -> IF e.k \in RenderOutcomes THEN <<>> ELSE <<F(l, "RenderOutcome")>>
         [] e.st = "toks"   -> IF e.k \in ToksOutcomes THEN <<>> ELSE <<F(l, "ToksOutcome")>>
         [] e.st = "pickle" -> IF e.k \notin PickleOutcomes THEN <<F(l, "PickleOutcome")>>
                               ELSE IF e.fp1 = e.fp0 /\ ("tx0" \in DOMAIN e => e.tx1 = e.tx0)
                                    THEN <<>> ELSE <<F(l, "PickleChanged")>>
         [] e.st = "apply"  -> IF e.k \in ApplyOutcomes THEN <<>> ELSE <<F(l, "ApplyOutcome")>>
         [] OTHER -> <<F(l, "UnknownEvent")>>

RECURSIVE C17Run(_, _, _)
C17Run(tr, l, fails) ==
  IF l > Len(tr.ev) THEN fails ELSE C17Run(tr, l + 1, fails \o C17Line(tr, l))

-----------------------------------------------------------------------------
Verdict(tr) ==
  LET fs == CASE tr.kind = "c05" -> C05Run(tr, 1, <<>>)
              [] tr.kind = "c11" -> C11Run(tr, FALSE, 1, <<>>)
              [] tr.kind = "c17" -> C17Run(tr, 1, <<>>)
              [] OTHER -> <<F(0, "UnknownKind")>>
  IN IF Len(fs) > Cap THEN SubSeq(fs, 1, Cap) ELSE fs

Init == LET T == Traces IN tid \in 1..Len(T) /\ done = FALSE

Check == /\ ~done
         /\ done' = TRUE
         /\ LET tr == Traces[tid] fs == Verdict(tr) IN
            PrintT(ToJson([t |-> tr.t, n |-> Len(tr.ev), nf |-> Len(fs), fails |-> fs]))
         /\ UNCHANGED tid

Next == Check
Spec == Init /\ [][Next]_vars
=============================================================================
