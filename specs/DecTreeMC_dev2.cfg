\* self-test: a split that loses the last spec of a big class must violate Inv
CONSTANTS
  U = 1
  Sizes = {1, 2}
  Endians <- ELittle
  LeafMax = 2
  MaxSpecs = 4
  HookVals = {TRUE}
  MinW = 1
  CallExtra = 0
  AnyN = 0
  Dev = {"DropLastOfBigClass"}
  Gen = FALSE
INIT Init
NEXT Next
INVARIANT Inv
CHECK_DEADLOCK FALSE
