\* C07 generator (quick, 32-bit mode): one template per path class
CONSTANTS
  Dev = "none"
  Modes = {32}
  MaxPfx = 4
  PfxSeqs <- PfxQuick
  Hist = TRUE
INIT Init
NEXT Next
CONSTRAINT Emit
CHECK_DEADLOCK FALSE
