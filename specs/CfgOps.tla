------------------------------- MODULE CfgOps -------------------------------
(***************************************************************************)
(* C18 - operators shared by Cfg.tla (design check + behaviour generator)   *)
(* and CfgTrace.tla (validation of traces recorded from amoco).             *)
(* No constants, no variables: everything is a definition.                  *)
(*                                                                          *)
(* INSTRUCTION STREAMS. A stream is a record [a, f]:                        *)
(*   a : strictly increasing sequence of N+1 boundary addresses - the i-th  *)
(*       instruction occupies a[i] .. a[i+1]-1,                             *)
(*   f : N flags, "n" plain, "c" control flow, "d" delayed control flow     *)
(*       (instruction.type = type_control_flow, misc["delayed"]).           *)
(* BLOCKS are boundary sequences <<a0, a1, ..., an>> (n instructions, the   *)
(* k-th is a(k-1)..a(k)-1); <<a0>> is the empty block left by cutting a     *)
(* block at its own start.                                                  *)
(*                                                                          *)
(* GRAPH. The state of an amoco cfg.graph is a record                       *)
(*   blk    : node id -> block (every node object ever created, including   *)
(*            the anonymous ones MemoryZone makes by slicing)               *)
(*   inG    : ids of the vertices of the (grandalf) graph                   *)
(*   sup    : graph.support._map as a sequence of [va, id]                  *)
(*   ovl    : graph.overlay._map, hasOvl: graph.overlay is not None         *)
(*   edges  : sequence of <<id, id>> in attachment order                    *)
(*   err    : "" or the exception the call ended with                       *)
(*   br     : name of the branch of add_vertex the last call took           *)
(* AddV is a branch-by-branch transcription of graph.add_vertex /           *)
(* graph.__cut_add_vertex (cfg.py) and of MemoryZone.addtomap / mo.write /  *)
(* datadiv.setpart/cut/setlen (memory.py) specialised to zones that hold    *)
(* nodes: a node is "raw" data for the zone (it has no etype), its length   *)
(* is len(node) = block.length *at the time it is asked* (so cutting a      *)
(* block shrinks its memory object), raw parts never merge (node += node    *)
(* raises TypeError) and slicing goes through node.__getitem__ ->           *)
(* block.__getitem__, which yields None (then AttributeError in node())     *)
(* off instruction boundaries.                                              *)
(*                                                                          *)
(* The parameter D is the set of enabled DEVIATIONS from the intended       *)
(* design:                                                                  *)
(*   "SplitSelfLoop"  what cfg.py does today: the successors of the block   *)
(*                    being split are read AFTER the fall-through edge was  *)
(*                    added, so the new node is one of them: a self-loop    *)
(*                    new->new is added and the fall-through edge removed.  *)
(*   "HistCopySlice"  what memory.py does today: addtomap builds an unused  *)
(*                    "history" copy jj of the object following the written *)
(*                    one and truncates it to the LENGTH of the written one *)
(*                    (jj.setlen(z.end - z.vaddr)); for a node this slices  *)
(*                    the next block at a byte offset that need not be an   *)
(*                    instruction boundary -> AttributeError.               *)
(*   "EmptyOldEdge"   what cfg.py does today when the inserted block starts *)
(*                    exactly where another node starts: the old block is   *)
(*                    cut down to nothing and still given a fall-through    *)
(*                    edge; add_edge re-inserts its end points and an empty *)
(*                    block has no address -> AttributeError. Intended      *)
(*                    design: the node already mapped there is returned.    *)
(*   "FirstBlockSwallow", "CutPathSwallow"  what cfg.py does today: a block *)
(*                    that becomes the lowest of the support, and a block   *)
(*                    that splits a mapped block, are written whole even    *)
(*                    when they extend over the next mapped node(s) - which *)
(*                    MemoryZone then drops from the support (or trims by   *)
(*                    slicing, making node objects the graph does not know) *)
(*                    although they stay vertices; when add_edge later      *)
(*                    re-inserts such a vertex the covering block is cut    *)
(*                    and instructions are lost. Intended design: the new   *)
(*                    block is cut where the next mapped node starts, as    *)
(*                    add_vertex already does for blocks that cut nothing.  *)
(*   "AnonSplitEdge"  what cfg.py does today when the block being split is  *)
(*                    one MemoryZone made by trimming an overwritten block  *)
(*                    (mapped in the support, not a vertex of the graph):   *)
(*                    add_edge(link(oldnode, v)) finds no component for it  *)
(*                    -> AttributeError after the edge was attached.        *)
(*                    Intended design: oldnode is made a vertex first.      *)
(*   "NoMoveEdges", "NoFallThrough", "CutDropsOne"  seeded faults used to   *)
(*                    show that the invariants are not vacuous.             *)
(***************************************************************************)
EXTENDS Integers, Sequences, FiniteSets

Min(a, b) == IF a < b THEN a ELSE b

-----------------------------------------------------------------------------
(* Streams, sweeps, basic blocks                                            *)
NI(S) == Len(S.f)
WellFormed(S) == /\ Len(S.a) = Len(S.f) + 1
                 /\ \A k \in 1..Len(S.f) : S.a[k] < S.a[k + 1]

(* the linear sweep from instruction k: <<address, length>> of each         *)
Sweep(S, k) == [j \in 1..(NI(S) - k + 1) |-> <<S.a[k + j - 1], S.a[k + j] - S.a[k + j - 1]>>]
(* "each starts where the previous one ends"                                *)
Consecutive(seq) == \A j \in 1..(Len(seq) - 1) : seq[j + 1][1] = seq[j][1] + seq[j][2]

(* Instruction k ends the block that started at instruction s: it is not    *)
(* itself a delayed branch and it is a control-flow instruction or the      *)
(* delay slot of the instruction before it (lsweep.iterblocks).             *)
Ends(f, s, k) == f[k] # "d" /\ (f[k] = "c" \/ (k > s /\ f[k - 1] = "d"))
(* index of the boundary where the block starting at instruction s ends     *)
BlockEnd(f, s) ==
  IF \E k \in s..Len(f) : Ends(f, s, k)
  THEN (CHOOSE k \in s..Len(f) : Ends(f, s, k) /\ \A j \in s..(k - 1) : ~Ends(f, s, j)) + 1
  ELSE Len(f) + 1
(* iterblocks from instruction s: sequence of <<first instr, end boundary>>  *)
RECURSIVE BlocksFrom(_, _)
BlocksFrom(f, s) == IF s > Len(f) THEN <<>>
                    ELSE LET e == BlockEnd(f, s) IN <<<<s, e>>>> \o BlocksFrom(f, e)
(* the block (boundary sequence) made of instructions s .. e-1 of stream S  *)
Bd(S, s, e) == SubSeq(S.a, s, e)
(* the property's domain: for a start s, the run up to the end of its block *)
DomBlock(S, s) == Bd(S, s, BlockEnd(S.f, s))

(* Declarative reading of "maximal run ending at a control-flow instruction  *)
(* (plus its delay slot)", stated without the scan above: the run from s     *)
(* ends right after the first control-flow instruction t >= s, one           *)
(* instruction later when t is delayed (its delay slot), or with the stream. *)
(* Two delayed branches in a row (a branch in a delay slot) make that        *)
(* reading ambiguous, the lemma BlocksAreMaximalRuns (Cfg.tla) is stated for *)
(* the other streams.                                                        *)
Delayed2(f) == \E k \in 1..(Len(f) - 1) : f[k] = "d" /\ f[k + 1] = "d"
AbstractEnd(f, s) ==
  LET T == {k \in s..Len(f) : f[k] # "n"} IN
  IF T = {} THEN Len(f) + 1
  ELSE LET t == CHOOSE k \in T : \A j \in T : k <= j IN
       IF f[t] = "c" THEN t + 1 ELSE Min(t + 2, Len(f) + 1)

-----------------------------------------------------------------------------
(* Blocks: code.block                                                        *)
BStart(b) == b[1]
BEnd(b)   == b[Len(b)]
BLen(b)   == b[Len(b)] - b[1]                 \* block.length
BN(b)     == Len(b) - 1                       \* len(block.instr)
BSupport(b) == <<b[1], b[Len(b)]>>            \* block.support
Instrs(b) == {<<b[k], b[k + 1]>> : k \in 1..(Len(b) - 1)}

(* block.__getitem__(slice(sta, sto)): offsets relative to the block start, *)
(* clamped like slice.indices(length); <<>> stands for None (offsets off    *)
(* the instruction boundaries, or no instruction selected)                  *)
SliceB(b, sta, sto) ==
  LET L  == BLen(b)
      x  == Min(sta, L)
      y  == Min(sto, L)
      P  == {k \in 1..Len(b) : b[k] - b[1] = x}
      Q  == {k \in 1..Len(b) : b[k] - b[1] = y}
  IN IF P = {} \/ Q = {} THEN <<>>
     ELSE LET p == CHOOSE k \in P : TRUE
              q == CHOOSE k \in Q : TRUE
          IN IF p >= q THEN <<>> ELSE SubSeq(b, p, q)

(* block.cut(address): [b |-> what is left, nl |-> number of instructions   *)
(* removed]; nl = 0 when address is not the address of an instruction       *)
CutB(b, a, D) ==
  LET P == {k \in 1..(Len(b) - 1) : b[k] = a} IN
  IF P = {} THEN [b |-> b, nl |-> 0]
  ELSE LET p == CHOOSE k \in P : TRUE IN
       [b |-> SubSeq(b, 1, IF "CutDropsOne" \in D /\ p > 2 THEN p - 1 ELSE p), nl |-> Len(b) - p]

-----------------------------------------------------------------------------
(* MemoryZone holding nodes                                                  *)
NLen(B, id)   == BLen(B[id])
MEnd(B, m)    == m.va + NLen(B, m.id)
MHas(B, m, a) == m.va <= a /\ a < MEnd(B, m)

(* MemoryZone.locate *)
Loc(zm, a) ==
  IF \E i \in 1..Len(zm) : zm[i].va = a
  THEN CHOOSE i \in 1..Len(zm) : zm[i].va = a /\ \A j \in 1..(i - 1) : zm[j].va # a
  ELSE Cardinality({i \in 1..Len(zm) : zm[i].va < a})

RECURSIVE PlaceIds(_, _, _)
PlaceIds(B, va, ids) == IF ids = <<>> THEN <<>>
                        ELSE <<[va |-> va, id |-> Head(ids)]>> \o PlaceIds(B, va + NLen(B, Head(ids)), Tail(ids))

(* the "history" copy ii = _map[i].copy(); ii.trim(z.vaddr) (memory.py)     *)
HistTrimFails(B, m, a, D) ==
  /\ "HistCopySlice" \in D /\ MHas(B, m, a) /\ a > m.va
  /\ SliceB(B[m.id], a - m.va, NLen(B, m.id)) = <<>>

(* mo.write + datadiv.setpart + mergeparts for node data: [blk, out, err]   *)
MoWrite(B, m, z) ==
  IF ~(MHas(B, m, z.va) \/ z.va = MEnd(B, m)) THEN [blk |-> B, out |-> <<m, z>>, err |-> ""]
  ELSE
    LET o     == z.va - m.va
        lm    == NLen(B, m.id)
        olv   == o + NLen(B, z.id)
        endl  == lm - olv
        whole == o = lm                       \* getpart(0, o) returns the node itself
        tailb == IF endl > 0 THEN SliceB(B[m.id], olv, olv + endl) ELSE <<>>
        headb == IF o > 0 /\ ~whole THEN SliceB(B[m.id], 0, o) ELSE <<>>
    IN IF (endl > 0 /\ tailb = <<>>) \/ (o > 0 /\ ~whole /\ headb = <<>>)
       THEN [blk |-> B, out |-> <<m>>, err |-> "AttributeError"]
       ELSE LET B1  == IF endl > 0 THEN Append(B, tailb) ELSE B
                tid == Len(B1)
                B2  == IF o > 0 /\ ~whole THEN Append(B1, headb) ELSE B1
                hid == IF whole THEN m.id ELSE Len(B2)
                ids == (IF o > 0 THEN <<hid>> ELSE <<>>) \o <<z.id>> \o (IF endl > 0 THEN <<tid>> ELSE <<>>)
            IN [blk |-> B2, out |-> PlaceIds(B2, m.va, ids), err |-> ""]

(* MemoryZone.addtomap(mo(z.va, node z.id)): [blk, zm, err]                 *)
ZAdd(B, zm, z, D) ==
  LET i    == Loc(zm, z.va)
      zend == z.va + NLen(B, z.id)
      j    == Loc(zm, zend)
      n    == Len(zm)
      Fail(site) == [blk |-> B, zm |-> zm, err |-> "AttributeError:" \o site]
  IN
  IF j = 0 THEN [blk |-> B, zm |-> <<z>> \o zm, err |-> ""]
  ELSE IF i = j THEN
    IF HistTrimFails(B, zm[i], z.va, D) THEN Fail("histtrim")
    ELSE LET W == MoWrite(B, zm[i], z) IN
         IF W.err # "" THEN Fail("slice")
         ELSE [blk |-> W.blk, zm |-> SubSeq(zm, 1, i - 1) \o W.out \o SubSeq(zm, i + 1, n), err |-> ""]
  ELSE
    LET trimj == MHas(B, zm[j], zend)
        hist  == trimj /\ "HistCopySlice" \in D /\ SliceB(B[zm[j].id], 0, zend - z.va) = <<>>
        l     == zend - zm[j].va
        cutb  == IF trimj /\ l > 0 THEN SliceB(B[zm[j].id], l, NLen(B, zm[j].id)) ELSE <<>>
    IN
    IF hist THEN Fail("hist")
    ELSE IF trimj /\ l > 0 /\ cutb = <<>> THEN Fail("slice")
    ELSE
      LET B1  == IF trimj /\ l > 0 THEN Append(B, cutb) ELSE B
          zm1 == IF trimj THEN [zm EXCEPT ![j] = [va |-> zend, id |-> IF l > 0 THEN Len(B1) ELSE zm[j].id]] ELSE zm
          jj  == IF trimj THEN j ELSE j + 1
      IN
      IF i = 0 THEN [blk |-> B1, zm |-> <<z>> \o SubSeq(zm1, jj, n), err |-> ""]
      ELSE IF z.va <= MEnd(B1, zm1[i]) THEN
        IF HistTrimFails(B1, zm1[i], z.va, D) THEN Fail("histtrim")
        ELSE LET W == MoWrite(B1, zm1[i], z) IN
             IF W.err # "" THEN Fail("slice")
             ELSE [blk |-> W.blk, zm |-> SubSeq(zm1, 1, i - 1) \o W.out \o SubSeq(zm1, jj, n), err |-> ""]
      ELSE [blk |-> B1, zm |-> SubSeq(zm1, 1, i) \o <<z>> \o SubSeq(zm1, jj, n), err |-> ""]

-----------------------------------------------------------------------------
(* cfg.graph                                                                 *)
(* edges is a SEQUENCE without repetitions, in the order the links were      *)
(* attached: vertex.N(+1) lists successors in that order.                    *)
EmptyG == [blk |-> <<>>, inG |-> {}, sup |-> <<>>, ovl |-> <<>>, hasOvl |-> FALSE,
           edges |-> <<>>, err |-> "", br |-> ""]

Zone(G, zone) == IF zone = "ovl" THEN G.ovl ELSE G.sup
SetZone(G, zone, zm) == IF zone = "ovl" THEN [G EXCEPT !.ovl = zm] ELSE [G EXCEPT !.sup = zm]
EHas(E, e)  == \E i \in 1..Len(E) : E[i] = e
EAdd(E, e)  == IF EHas(E, e) THEN E ELSE Append(E, e)
ERem(E, e)  == SelectSeq(E, LAMBDA x : x # e)
ESet(E)     == {E[i] : i \in 1..Len(E)}
(* vertex.N(+1): successors of x in attachment order                         *)
OutsSeq(E, x) == LET O == SelectSeq(E, LAMBDA e : e[1] = x) IN [i \in 1..Len(O) |-> O[i][2]]
(* Graph.remove_edge(x -> y). When the removal disconnects the component,    *)
(* grandalf rebuilds two components and a component made of a single vertex  *)
(* is rebuilt WITHOUT its edges: a self-loop on a vertex left alone is lost. *)
ERemQ(E, x, y) ==
  LET E1 == ERem(E, <<x, y>>)
      Lone(v) == ~\E i \in 1..Len(E1) : (E1[i][1] = v /\ E1[i][2] # v) \/ (E1[i][2] = v /\ E1[i][1] # v)
  IN IF x = y THEN E1
     ELSE SelectSeq(E1, LAMBDA e : ~(e[1] = e[2] /\ e[1] \in {x, y} /\ Lone(e[1])))

(* super().add_vertex(v); support.write(vaddr, v)                           *)
WriteNode(G, zone, k, br, D) ==
  LET G1 == [G EXCEPT !.br = br, !.inG = @ \cup {k}]
      R  == ZAdd(G1.blk, Zone(G1, zone), [va |-> BStart(G1.blk[k]), id |-> k], D)
  IN SetZone([G1 EXCEPT !.blk = R.blk, !.err = R.err], zone, R.zm)

RECURSIVE AddIn(_, _, _, _), AddEdgeG(_, _, _, _), MoveOuts(_, _, _, _, _)

(* graph.add_edge(link(x, y)): grandalf's Graph.add_edge first calls         *)
(* self.add_vertex(x), self.add_vertex(y) - which is cfg.graph.add_vertex:   *)
(* an end point that is not (or no longer) mapped in the support gets        *)
(* (re-)inserted, cutting whatever block now covers its address.             *)
AddEdgeG(G, x, y, D) ==
  LET G1 == AddIn(G, x, "sup", D) IN
  IF G1.err # "" THEN G1
  ELSE LET G2 == AddIn(G1, y, "sup", D) IN
       IF G2.err # "" THEN G2
       \* an end point that is mapped but is no vertex (a slice made by MemoryZone) has no component:
       ELSE IF y \notin G2.inG THEN [G2 EXCEPT !.err = "AttributeError:anon"]
       ELSE IF x \notin G2.inG THEN [G2 EXCEPT !.edges = EAdd(@, <<x, y>>), !.inG = @ \cup {x}, !.err = "AttributeError:anon"]
       ELSE [G2 EXCEPT !.edges = EAdd(@, <<x, y>>)]

(* for n in outs: add_edge(link(v, n)); remove_edge(oldnode.e_to(n))         *)
MoveOuts(G, old, k, outs, D) ==
  IF outs = <<>> \/ G.err # "" THEN G
  ELSE LET n  == Head(outs)
           G1 == AddEdgeG(G, k, n, D)
       IN IF G1.err # "" THEN G1
          ELSE MoveOuts([G1 EXCEPT !.edges = ERemQ(@, old, n)], old, k, Tail(outs), D)

(* graph.__cut_add_vertex(v, mz, vaddr, mo): vaddr lies inside mo           *)
CutAdd(G, k, zone, m, D) ==
  LET old   == m.id
      vaddr == BStart(G.blk[k])
  IN
  IF old = k THEN [G EXCEPT !.br = IF @ = "" THEN "SameNode" ELSE @]
  ELSE IF BStart(G.blk[old]) = vaddr /\ "EmptyOldEdge" \notin D
    THEN [G EXCEPT !.br = "SameStart", !.inG = @ \cup {old}]   \* intended design: nothing to split, the mapped node stays
  ELSE
    LET C == CutB(G.blk[old], vaddr, D) IN
    IF C.nl = 0 THEN
      IF zone = "ovl" THEN [G EXCEPT !.br = "DoubleOverlay", !.inG = @ \cup {k}]
      ELSE AddIn(G, k, "ovl", D)
    ELSE
      LET G0 == [G EXCEPT !.blk[old] = C.b, !.br = IF Len(C.b) = 1 THEN "CutOldEmpty" ELSE "CutOld",
                          \* intended design: the block being split is made a vertex if MemoryZone made it
                          !.inG = IF "AnonSplitEdge" \in D THEN @ \cup {k} ELSE @ \cup {k, old}]
          \* intended design: like a block that cuts nothing, v stops where the next mapped node starts;
          \* today v is written whole and the nodes it covers silently leave the support
          zm0 == Zone(G0, zone)
          io  == Loc(zm0, m.va)
          nx  == io + 1 <= Len(zm0) /\ "CutPathSwallow" \notin D
                 /\ vaddr + BLen(G0.blk[k]) > BStart(G0.blk[zm0[io + 1].id])
          Cv  == IF nx THEN CutB(G0.blk[k], BStart(G0.blk[zm0[io + 1].id]), D) ELSE [b |-> G0.blk[k], nl |-> 0]
          G1  == [G0 EXCEPT !.blk[k] = Cv.b]
          R   == ZAdd(G1.blk, Zone(G1, zone), [va |-> vaddr, id |-> k], D)
      IN
      IF R.err # "" THEN [G1 EXCEPT !.err = R.err]
      ELSE
        LET G2    == SetZone([G1 EXCEPT !.blk = R.blk], zone, R.zm)
            \* the fall-through edge (add_edge re-inserts its end points: an emptied old block raises)
            G3    == IF "NoFallThrough" \in D THEN G2 ELSE AddEdgeG(G2, old, k, D)
            \* successors of old: today read after the fall-through edge was added (so v is one of them)
            outs  == IF "SplitSelfLoop" \in D THEN OutsSeq(G3.edges, old)
                     ELSE SelectSeq(OutsSeq(G3.edges, old), LAMBDA n : n # k)
        IN IF G3.err # "" \/ "NoMoveEdges" \in D THEN G3
           ELSE [MoveOuts(G3, old, k, outs, D) EXCEPT !.br = G1.br]

(* graph.add_vertex(v, support): node k (its block is G.blk[k]) into a zone  *)
AddIn(G, k, zone, D) ==
  LET G0    == IF zone = "ovl" THEN [G EXCEPT !.hasOvl = TRUE] ELSE G
      zm    == Zone(G0, zone)
      b     == G0.blk[k]
      vaddr == BStart(b)
      i     == Loc(zm, vaddr)
  IN
  IF Len(b) = 1 THEN [G0 EXCEPT !.err = "AttributeError:empty"]    \* address None -> locate(None)
  ELSE IF i # 0 /\ MHas(G0.blk, zm[i], vaddr) THEN CutAdd(G0, k, zone, zm[i], D)
  ELSE IF (i # 0 \/ "FirstBlockSwallow" \notin D) /\ i + 1 <= Len(zm)
          /\ vaddr + BLen(b) > BStart(G0.blk[zm[i + 1].id]) THEN
    \* v may swallow the next node: cut v at the next node's address (today not done for the lowest block)
    LET C == CutB(b, BStart(G0.blk[zm[i + 1].id]), D) IN
    IF C.nl = 0 THEN
      IF zone = "ovl" THEN [G0 EXCEPT !.br = "DoubleOverlaySwallow", !.inG = @ \cup {k}]
      ELSE IF G0.hasOvl THEN WriteNode(G0, "ovl", k, "SwallowOverlay", D)
      ELSE [G0 EXCEPT !.br = "SwallowTempZone", !.inG = @ \cup {k}]   \* written to a MemoryZone nobody keeps
    ELSE WriteNode([G0 EXCEPT !.blk[k] = C.b], zone, k, "CutNew", D)
  ELSE WriteNode(G0, zone, k, IF i = 0 THEN "FreshFirst" ELSE "Fresh", D)

(* add_vertex of a new node holding block b                                 *)
AddV(G, b, D) == AddIn([G EXCEPT !.blk = Append(@, b), !.err = "", !.br = ""], Len(G.blk) + 1, "sup", D)
(* add_vertex of a node that was inserted before                            *)
ReAddV(G, k, D) == AddIn([G EXCEPT !.err = "", !.br = ""], k, "sup", D)
(* graph.add_edge(link(x, y)) between two nodes                             *)
AddE(G, x, y, D) == [AddEdgeG([G EXCEPT !.err = "", !.br = "Link"], x, y, D) EXCEPT !.br = "Link"]

-----------------------------------------------------------------------------
(* What the property says about a graph state                               *)
Layout(G, zm) == [i \in 1..Len(zm) |-> <<zm[i].va, NLen(G.blk, zm[i].id)>>]
(* id of the support node that starts at address a (0 if none)              *)
NodeAt(G, a) == IF \E i \in 1..Len(G.sup) : G.sup[i].va = a
                THEN G.sup[CHOOSE i \in 1..Len(G.sup) : G.sup[i].va = a].id ELSE 0
(* an edge as an observer sees it: start addresses of its end points and, for each, whether that *)
(* node is the one mapped in the support (a vertex dropped from the support keeps its address)  *)
Mapped(G, id) == IF \E i \in 1..Len(G.sup) : G.sup[i].id = id THEN 1 ELSE 0
EdgeAddrs(G) == {<<BStart(G.blk[e[1]]), BStart(G.blk[e[2]]), Mapped(G, e[1]), Mapped(G, e[2])>> : e \in ESet(G.edges)}

(* pairwise-disjoint blocks, each memory object sitting at its block's address *)
DisjointG(G) ==
  /\ \A i \in 1..(Len(G.sup) - 1) : MEnd(G.blk, G.sup[i]) <= G.sup[i + 1].va
  /\ \A i \in 1..Len(G.sup) : G.sup[i].va = BStart(G.blk[G.sup[i].id]) /\ NLen(G.blk, G.sup[i].id) > 0
(* every inserted instruction lies in exactly one support block             *)
CoversG(G, ins) ==
  \A x \in ins : Cardinality({i \in 1..Len(G.sup) : x \in Instrs(G.blk[G.sup[i].id])}) = 1

(* the same two clauses on an OBSERVED layout: a sequence of <<addr, len>>   *)
(* as projected from graph.support._map                                     *)
DisjointL(lay) == /\ \A i \in 1..Len(lay) : lay[i][2] > 0
                  /\ \A i \in 1..(Len(lay) - 1) : lay[i][1] + lay[i][2] <= lay[i + 1][1]
CoversL(lay, ins) ==
  \A x \in ins : Cardinality({i \in 1..Len(lay) : lay[i][1] <= x[1] /\ x[2] <= lay[i][1] + lay[i][2]}) = 1
(* a block was split: the inserted block starts strictly inside a block of   *)
(* the previous layout: index of that block, 0 if none                      *)
SplitIdx(lay, a) == IF \E i \in 1..Len(lay) : lay[i][1] < a /\ a < lay[i][1] + lay[i][2]
                    THEN CHOOSE i \in 1..Len(lay) : lay[i][1] < a /\ a < lay[i][1] + lay[i][2] ELSE 0
(* fall-through edge old -> new and old's former out-edges now leave new     *)
FallThroughE(Epre, Epost, old, new) ==
  /\ <<old, new>> \in Epost
  /\ \A e \in Epre : (e[1] = old /\ e[2] # new) => (<<new, e[2]>> \in Epost /\ <<old, e[2]>> \notin Epost)
(* the same on observed edges <<from, to, from is mapped, to is mapped>>, old and new being the   *)
(* mapped nodes at those addresses                                                             *)
FallThroughO(Epre, Epost, old, new, hi) ==
  /\ \E e \in Epost : e[1] = old /\ e[3] = 1 /\ e[2] = new /\ e[4] = 1
  \* old's former out-edges no longer leave old; they leave the inserted block new .. hi-1 (the node mapped at
  \* new, or the piece of it that a re-inserted vertex split off in the same call)
  /\ \A e \in Epre : (e[1] = old /\ e[3] = 1 /\ ~(e[2] = new /\ e[4] = 1)) =>
        /\ \E f \in Epost : f[3] = 1 /\ new <= f[1] /\ f[1] < hi /\ f[2] = e[2]
        /\ ~\E f \in Epost : f[1] = old /\ f[3] = 1 /\ f[2] = e[2] /\ ~(f[2] = new /\ f[4] = 1)
=============================================================================
