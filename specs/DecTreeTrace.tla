----------------------------- MODULE DecTreeTrace -----------------------------
(***************************************************************************)
(* C04, code -> spec.  One trace per (cpu module, mode, fetch order):      *)
(*   [t, E, Ebuild, maxlen, callmaxlen,                                    *)
(*    specs : <<[size, mask, fix]>>      the mode's spec list as found     *)
(*            (mask/fix = lists of bit positions),                         *)
(*    nodes : <<[leaf, f, specs, kids : <<[key, node]>>]>>                 *)
(*            the real disassembler.specs[mode] tree, nodes[1] = root,     *)
(*    ev    : <<events>>]                                                  *)
(* Events                                                                  *)
(*  [k:"tree"]   check the dumped tree structurally                        *)
(*  [k:"dis", levels, out, real, ref]                                      *)
(*      one disassemble(bytes) call.  levels = one record per prefix level *)
(*      [bytes, cand, acc, tried, chosen]: the remaining input; cand = ids *)
(*      (as found) of the specs whose length / fixed-bit test passes (no   *)
(*      DecodeError: decided before anything is touched); acc = those of   *)
(*      them that also accept with a FRESH partial instruction; tried =    *)
(*      the specs whose precondition / setup function the real call ran,   *)
(*      in order; chosen = the spec that ended the level (0: none);        *)
(*      out = "ins" | "none" | "exc:<type>", real / ref = projections of   *)
(*      the returned instruction and of the one decoded again along the    *)
(*      chosen chain with fresh objects.                                   *)
(* Property clauses                                                        *)
(*   Partition, Routing, LeafOrder   the tree hides no spec                *)
(*   TriedNotMatching, TriedTwice, HiddenCandidate, ChosenIsLastTried,     *)
(*   NotMostConstrainedFirst, SkippedMoreConstrained  (see LevelProp)      *)
(* Model-shaped (drift) clauses                                            *)
(*   LeafOrderStable, ExactShape (tree = DecTreeOps!Build of the list),    *)
(*   FreshStateWinnerDiffers, TriedInStableOrder, ChosenFirstStable,       *)
(*   OutcomeDiffersFromFreshChain                                          *)
(* A Routing failure is tagged "/EndianAtBuild" when the tree is a correct *)
(* index for the fetch order endian() reported at import but not for the   *)
(* one of the call.                                                        *)
(***************************************************************************)
EXTENDS DecTreeOps, TLC, Json, IOUtils

Traces == ndJsonDeserialize(IOEnv.TRACE_FILE)

VARIABLES tid, l, S, T, verdict, drift, done
vars == <<tid, l, S, T, verdict, drift, done>>

Tr == Traces[tid]
Table(tr) == [i \in 1..Len(tr.specs) |->
                WithW([size |-> tr.specs[i].size, mask |-> ToSet(tr.specs[i].mask), fix |-> ToSet(tr.specs[i].fix), hk |-> TRUE])]

RECURSIVE TreeOf(_, _)
TreeOf(nodes, n) ==
  LET nd == nodes[n]
      ks == [k \in 1..Len(nd.kids) |-> ToSet(nd.kids[k].key)]
  IN IF nd.leaf THEN Leaf(nd.specs)
     ELSE Node(ToSet(nd.f), [x \in {ks[k] : k \in 1..Len(ks)} |->
                               TreeOf(nodes, nd.kids[CHOOSE k \in 1..Len(ks) : ks[k] = x].node)])

PBE(tr, e) == [E |-> e, maxlen |-> tr.maxlen, leafmax |-> 5, U |-> 8]
PC(tr) == [E |-> tr.E, maxlen |-> tr.callmaxlen, leafmax |-> 5, U |-> 8]

Init == /\ tid \in 1..Len(Traces)
        /\ l = 1
        /\ S = Table(Traces[tid])
        /\ T = TreeOf(Traces[tid].nodes, 1)
        /\ verdict = <<>> /\ drift = <<>>
        /\ done = FALSE

(* ---- structural ---- *)
(* the tree must be laid out for the fetch order of the call (E); if it is not, but is a correct index *)
(* for the fetch order endian() reported at import (Ebuild), the failure is the EndianAtBuild deviation *)
TreePropE(e) == LET L == LeavesOf(T, <<>>) IN
                IF ~PartitionL(S, L) THEN "Partition"
                ELSE IF ~RoutingL(S, L, PBE(Tr, e)) THEN "Routing"
                ELSE IF ~LeafOrderWL(S, L, PBE(Tr, e)) THEN "LeafOrder"
                ELSE "ok"
TreeProp == LET c == TreePropE(Tr.E) IN
            IF c = "ok" THEN "ok"
            ELSE IF Tr.E # Tr.Ebuild /\ TreePropE(Tr.Ebuild) = "ok" THEN c \o "/EndianAtBuild"
            ELSE c
TreeDrift == LET e == IF TreePropE(Tr.E) = "ok" THEN Tr.E ELSE Tr.Ebuild IN
             IF ~LeafOrderStable(S, T) THEN "LeafOrderStable"
             ELSE IF T # Build(S, [i \in 1..Len(S) |-> i], PBE(Tr, e), {}) THEN "ExactShape"
             ELSE "ok"

(* ---- dynamic ---- *)
MaxW(acc) == CHOOSE w \in {S[acc[k]].w : k \in 1..Len(acc)} : \A k \in 1..Len(acc) : S[acc[k]].w <= w
FirstStable(acc) == acc[CHOOSE k \in 1..Len(acc) : \A m \in 1..Len(acc) : m = k \/ Before(S, acc[k], acc[m])]

(* what the transcribed walk over the dumped tree does with this input, given who accepts *)
RECURSIVE WalkAcc(_, _, _)
WalkAcc(N, b, acc) ==
  IF N.leaf THEN (IF \E k \in 1..Len(N.specs) : N.specs[k] \in acc
                  THEN N.specs[CHOOSE k \in 1..Len(N.specs) : N.specs[k] \in acc /\ \A m \in 1..(k - 1) : N.specs[m] \notin acc]
                  ELSE 0)
  ELSE LET k == b \cap N.f IN IF k \in DOMAIN N.kids THEN WalkAcc(N.kids[k], b, acc) ELSE 0
Predicted(lv) == WalkAcc(T, KeyOf(lv.bytes, PC(Tr)), ToSet(lv.acc))

(* The tree is only an index: at every level the real scan runs precondition / setup function of       *)
(* exactly the specs whose fixed bits match (cand - independent of any state), most constrained first, *)
(* up to the one that ends the level; it stops without a winner only after all of them.                *)
(* (What a rejected setup function leaves behind in the partial instruction is then the same as in the *)
(* full scan; whether it SHOULD leave anything behind is C05/C11, not C04 - see LevelFresh, drift.)     *)
LevelProp(lv) ==
  LET t == lv.tried
      c == ToSet(lv.cand)
      ts == ToSet(t)
  IN IF \E k \in 1..Len(t) : t[k] \notin c THEN "TriedNotMatching"
     ELSE IF Cardinality(ts) # Len(t) THEN "TriedTwice"
     ELSE IF lv.chosen = 0 /\ ts # c THEN "HiddenCandidate"
     ELSE IF lv.chosen # 0 /\ (t = <<>> \/ t[Len(t)] # lv.chosen) THEN "ChosenIsLastTried"
     ELSE IF \E k \in 1..(Len(t) - 1) : S[t[k]].w < S[t[k + 1]].w THEN "NotMostConstrainedFirst"
     ELSE IF \E x \in c \ ts : \E k \in 1..Len(t) : S[x].w > S[t[k]].w THEN "SkippedMoreConstrained"
     ELSE "ok"
(* stricter, model-shaped: the winner is also the most constrained spec that accepts with a FRESH partial *)
(* instruction, and the specs were tried in exactly the stable order                                      *)
LevelFresh(lv) ==
  IF lv.acc = <<>> THEN (IF lv.chosen = 0 THEN "ok" ELSE "FreshStateWinnerDiffers")
  ELSE IF lv.chosen = 0 \/ S[lv.chosen].w # MaxW(lv.acc) \/ lv.chosen \notin ToSet(lv.acc) THEN "FreshStateWinnerDiffers"
  ELSE "ok"
LevelDrift(lv) ==
  LET f == LevelFresh(lv) IN
  IF f # "ok" THEN f
  ELSE IF \E k \in 1..(Len(lv.tried) - 1) : ~Before(S, lv.tried[k], lv.tried[k + 1]) THEN "TriedInStableOrder"
  ELSE IF lv.acc # <<>> /\ lv.chosen # 0 /\ lv.chosen # FirstStable(lv.acc) THEN "ChosenFirstStable"
  ELSE "ok"

FirstNotOk(cs) == IF \A k \in 1..Len(cs) : cs[k] = "ok" THEN "ok"
                  ELSE cs[CHOOSE k \in 1..Len(cs) : cs[k] # "ok" /\ \A m \in 1..(k - 1) : cs[m] = "ok"]

DisProp(e) == FirstNotOk([k \in 1..Len(e.levels) |-> LevelProp(e.levels[k])])
DisDrift(e) ==
  LET c == FirstNotOk([k \in 1..Len(e.levels) |-> LevelDrift(e.levels[k])]) IN
  IF c # "ok" THEN c
  ELSE IF e.real # e.ref THEN "OutcomeDiffersFromFreshChain"
  ELSE "ok"

(* failures are tallied per clause: <<[clause, line (first), n]>> *)
Tally(acc, c, line) ==
  IF c = "ok" THEN acc
  ELSE IF \E i \in 1..Len(acc) : acc[i].clause = c
       THEN [i \in 1..Len(acc) |-> IF acc[i].clause = c THEN [acc[i] EXCEPT !.n = @ + 1] ELSE acc[i]]
       ELSE Append(acc, [clause |-> c, line |-> line, n |-> 1])

PropOf(e)  == IF e.k = "tree" THEN TreeProp ELSE IF e.k = "dis" THEN DisProp(e) ELSE "UnknownEvent"
DriftOf(e) == IF e.k = "tree" THEN TreeDrift ELSE IF e.k = "dis" THEN DisDrift(e) ELSE "ok"

(* the spec table and the tree are part of the state: consume events in chunks so that the state is *)
(* fingerprinted once per Chunk events                                                              *)
Chunk == 200
RECURSIVE Fold(_, _, _, _)
Fold(acc, k, hi, isprop) ==
  IF k > hi THEN acc
  ELSE Fold(Tally(acc, IF isprop THEN PropOf(Tr.ev[k]) ELSE DriftOf(Tr.ev[k]), k), k + 1, hi, isprop)

Step ==
  /\ ~done /\ l <= Len(Tr.ev)
  /\ LET hi == IF l + Chunk - 1 > Len(Tr.ev) THEN Len(Tr.ev) ELSE l + Chunk - 1 IN
     /\ l' = hi + 1
     /\ verdict' = Fold(verdict, l, hi, TRUE)
     /\ drift' = Fold(drift, l, hi, FALSE)
  /\ UNCHANGED <<tid, S, T, done>>

Finish ==
  /\ ~done /\ l > Len(Tr.ev)
  /\ done' = TRUE
  /\ PrintT(ToJson([t |-> Tr.t, verdict |-> verdict, drift |-> drift, lines |-> l - 1]))
  /\ UNCHANGED <<tid, l, S, T, verdict, drift>>

Next == Step \/ Finish
Spec == Init /\ [][Next]_vars
=============================================================================
